#!/usr/bin/env python
"""Equivalence demo for the C09 controls (required SASL / STS cannot be
downgraded by server input).

Drives the real Irc object (fake driver), the real SocketDriver (fake
sockets, fake clock), ServersMixin._applyStsPolicy, ircutils.parseStsPolicy
and the ircdb network database through a few hundred scripted situations,
records every observable result (messages sent, driver calls, log calls,
exceptions, FSM transitions, stored policies, the bytes of networks.conf) and
compares a digest of the record with the one recorded on the unmodified tree.

Usage: cd <worktree> && python _mutants/c<i>/demo.py [--dump FILE]
Prints PASS / FAIL and ends with os._exit(code).
"""
import os
import sys

EXPECTED = '578f29b66d28c7cfb3189205dd64520b5a76885c2eac0771af6141584fec2689'

ROOT = os.getcwd()
sys.path.insert(0, ROOT)

import re
import json
import shutil
import hashlib
import tempfile
import traceback

BASE = tempfile.mkdtemp(prefix='c09demo-')
for d in ('data', 'conf', 'logs', 'backup'):
    os.mkdir(os.path.join(BASE, d))
REG = os.path.join(BASE, 'test.conf')
with open(REG, 'w') as fd:
    fd.write("""
supybot.directories.data: %(b)s/data
supybot.directories.conf: %(b)s/conf
supybot.directories.log: %(b)s/logs
supybot.directories.backup: %(b)s/backup
supybot.log.stdout: False
supybot.log.level: CRITICAL
supybot.log.plugins.individualLogfiles: False
supybot.protocols.irc.throttleTime: 0
supybot.networks.test.servers: irc.example.org:6667
supybot.nick: bot
supybot.ident: ident
supybot.user: real name
""" % {'b': BASE})

import supybot
assert os.path.realpath(supybot.__file__).startswith(os.path.realpath(ROOT)), \
    supybot.__file__
import supybot.registry as registry
registry.open_registry(REG)
import supybot.log as log
import supybot.conf as conf
conf.supybot.flush.setValue(False)
import enum
import time as real_time
import ssl as real_ssl
import socket as real_socket
import supybot.utils as utils
import supybot.world as world
import supybot.ircdb as ircdb
import supybot.irclib as irclib
import supybot.ircmsgs as ircmsgs
import supybot.ircutils as ircutils
import supybot.drivers as drivers
import supybot.drivers.Socket as Socket

NET = conf.supybot.networks.test

###
# Recording.
###
RECORD = []
_addr = re.compile(r'0x[0-9a-fA-F]+')
# ECDSA signatures are randomised: masked (only in the scenarios that sign).
_sig = re.compile(r'AUTHENTICATE :?ME[A-Za-z0-9+/=]{60,}')
MASK = [False]
_lineno = re.compile(r'\|\d+\]')

def norm(x):
    if isinstance(x, str):
        if MASK[0]:
            x = _sig.sub('AUTHENTICATE <sig>', x)
        # utils.stackTrace() output ("[irclib.py|_reallyDie|2246]"): line
        # numbers are not behaviour.
        x = _lineno.sub('|N]', x)
        return x.replace(BASE, '<BASE>')
    if x is None or isinstance(x, (bool, int)):
        return x
    if isinstance(x, float):
        return 'float:%.3f' % x
    if isinstance(x, bytes):
        return 'bytes:' + repr(x).replace(BASE, '<BASE>')
    if isinstance(x, enum.Enum):
        return 'enum:' + str(x)
    if isinstance(x, ircmsgs.IrcMsg):
        return 'IrcMsg:' + str(x)
    if isinstance(x, BaseException):
        return ['exc', type(x).__name__, str(x)]
    if isinstance(x, (set, frozenset)):
        return [type(x).__name__] + sorted((norm(y) for y in x), key=repr)
    if isinstance(x, tuple):
        if hasattr(x, '_fields'):
            return [type(x).__name__, list(x._fields)] + [norm(y) for y in x]
        return ['tuple'] + [norm(y) for y in x]
    if isinstance(x, list):
        return [type(x).__name__] + [norm(y) for y in x]
    if isinstance(x, dict):
        return [type(x).__name__] + [[norm(k), norm(v)] for (k, v) in x.items()]
    if isinstance(x, ircutils.IrcDict):
        return ['IrcDict'] + [[norm(k), norm(v)] for (k, v) in x.items()]
    return [type(x).__name__, _addr.sub('0x', repr(x)).replace(BASE, '<BASE>')]

def rec(*args):
    RECORD.append(norm(list(args)))

def make_logger(level):
    def f(fmt, *args, **kwargs):
        entry = ['log', level, fmt, norm(list(args))]
        if kwargs:
            entry.append(norm(kwargs))
        if level == 'exception':
            e = sys.exc_info()[1]
            entry.append(norm(e))
        RECORD.append(entry)
    return f

for level in ('debug', 'info', 'warning', 'error', 'critical', 'exception'):
    f = make_logger(level)
    setattr(log, level, f)
# drivers.Log keeps staticmethod references (error -> warning, as upstream).
drivers.Log.debug = staticmethod(make_logger('d.debug'))
drivers.Log.info = staticmethod(make_logger('d.info'))
drivers.Log.warning = staticmethod(make_logger('d.warning'))
drivers.Log.error = staticmethod(make_logger('d.error'))
drivers.Log.critical = staticmethod(make_logger('d.critical'))
drivers.Log.exception = staticmethod(make_logger('exception'))
def fake_timestamp(when=None):
    return 'T%.0f' % when if when is not None else 'Tnow'
log.timestamp = fake_timestamp
drivers.Log.timestamp = staticmethod(fake_timestamp)
world.debugFlush = lambda *a, **kw: None

_label = [0]
def fake_label():
    _label[0] += 1
    return 'label%d' % _label[0]
ircutils.makeLabel = fake_label

###
# Clock.
###
class FakeTime(object):
    def __init__(self):
        self.now = 1000000.25
        self.n = 0
    def time(self):
        self.n += 1
        return self.now + self.n * 1e-7
    def sleep(self, t):
        rec('sleep', t)
    def advance(self, t):
        self.now += t
        self.n = 0
    def set(self, t):
        self.now = t
        self.n = 0
    def __getattr__(self, name):
        return getattr(real_time, name)
CLOCK = FakeTime()
irclib.time = CLOCK
ircdb.time = CLOCK
drivers.time = CLOCK
Socket.time = CLOCK

###
# Configuration.
###
DEFAULTS = {
    'sasl.username': '', 'sasl.password': '', 'sasl.ecdsa_key': '',
    'sasl.mechanisms': ['ecdsa-nist256p-challenge', 'external', 'plain'],
    'sasl.required': False, 'certfile': '', 'ssl': False,
    'ssl.serverFingerprints': [], 'ssl.authorityCertificate': '',
    'requireStarttls': False, 'password': '', 'socksproxy': '',
    'servers': ['irc.example.org:6667'],
}
def getgroup(root, name):
    g = root
    for part in name.split('.'):
        g = g.get(part)
    return g

def configure(cfg):
    full = dict(DEFAULTS)
    full.update(cfg)
    gverify = full.pop('verifyCertificates', False)
    gcert = full.pop('global.certfile', '')
    conf.supybot.protocols.ssl.verifyCertificates.setValue(gverify)
    conf.supybot.protocols.irc.certfile.setValue(gcert)
    for (k, v) in full.items():
        getgroup(NET, k).setValue(v)

###
# A callback recording FSM transitions and what reaches plugins.
###
class Recorder(irclib.IrcCallback):
    def name(self):
        return 'Recorder'
    def postTransition(self, irc, msg, from_state, to_state):
        rec('transition', from_state, to_state, msg)
        return msg
    def do376(self, irc, msg):
        rec('plugin-saw-376', irc.afterConnect, irc.sasl_authenticated)
        # what a channel-joining plugin does
        irc.queueMsg(ircmsgs.join('#chan'))
    do422 = do376
    def do001(self, irc, msg):
        rec('plugin-saw-001')

class FakeDriver(object):
    def __init__(self, irc, kind, reset):
        self.irc = irc
        self.reset = reset
        self.kind = kind
        self.ssl = kind in ('tls-unverified', 'tls-verified', 'tls-fp',
                            'forced')
        self.currentServer = drivers.Server(
            'irc.example.org', 6667, 3, kind in ('forced', 'forced-nossl'))
        irc.driver = self
    def anyCertValidationEnabled(self):
        rec('driver.anyCertValidationEnabled')
        return self.kind in ('tls-verified', 'clear-verifyconf')
    def reconnect(self, *args, **kwargs):
        rec('driver.reconnect', list(args), kwargs)
        if self.reset and kwargs.get('reset', True):
            self.irc.reset()
    def die(self):
        rec('driver.die')

def snapshot(irc):
    st = irc.state
    rec('snap', st.fsm.state, irc.sasl_authenticated, irc.afterConnect,
        irc.sasl_current_mechanism, irc.sasl_next_mechanisms,
        irc.sasl_response_sent, irc.sasl_scram_state.get('step'),
        sorted(irc.sasl_scram_state),
        st.capabilities_ls, st.capabilities_req, st.capabilities_ack,
        st.capabilities_nak, irc.REQUEST_CAPABILITIES,
        irclib.Irc.REQUEST_CAPABILITIES, irc.zombie,
        irc.capNegociationEnded, irc.authenticate_decoder is None)
    net = ircdb.networks.getNetwork('test')
    rec('netdb', net.stsPolicies, net.lastDisconnectTimes)

def drain(irc, mask=False):
    for i in range(200):
        m = irc.takeMsg()
        if m is None:
            break
        s = str(m)
        if mask and m.command == 'AUTHENTICATE' and m.args[0] not in ('*', '+') \
                and not m.args[0].isupper():
            s = 'AUTHENTICATE <masked len-class %d>' % (len(m.args[0]) > 50)
        rec('sent', s)
    else:
        rec('drain-overflow')

def fresh_networks():
    ircdb.networks.networks.clear()

def run_irc(name, cfg, kind, script, reset=False, mask=False, pre=None):
    MASK[0] = mask
    rec('=== scenario', name, cfg, kind, reset)
    fresh_networks()
    configure(cfg)
    del world.ircs[:]
    irc = irclib.Irc('test', callbacks=[Recorder()])
    FakeDriver(irc, kind, reset)
    if pre is not None:
        pre(irc)
    drain(irc)
    snapshot(irc)
    for line in script:
        if callable(line):
            line(irc)
            rec('op', getattr(line, '__name__', 'op'))
        else:
            rec('feed', line)
            try:
                irc.feedMsg(ircmsgs.IrcMsg(line))
            except BaseException as e:
                rec('feedMsg-raised', e)
        drain(irc, mask)
        snapshot(irc)
    MASK[0] = False
    return irc

###
# SCRAM stand-in (pyxmpp2_scram is not installed).
###
class FakeScram(object):
    HASH_FACTORIES = {'SHA-256': None, 'SHA-1': None}
    class ScramException(Exception):
        pass
    class BadSuccessException(ScramException):
        pass
    behaviour = 'ok'
    class SCRAMClientAuthenticator(object):
        def __init__(self, hash_name, channel_binding):
            rec('scram.init', hash_name, channel_binding)
        def start(self, props):
            rec('scram.start', sorted(props.items()))
            if FakeScram.behaviour == 'start-raises':
                raise FakeScram.ScramException('no start')
            return b'n,,n=user,r=nonce'
        def challenge(self, data):
            rec('scram.challenge', data)
            if FakeScram.behaviour == 'challenge-raises':
                raise FakeScram.ScramException('bad challenge')
            return b'c=biws,r=nonce2,p=proof'
        def finish(self, data):
            rec('scram.finish', data)
            if FakeScram.behaviour == 'finish-bad':
                raise FakeScram.BadSuccessException('bad signature')
            if FakeScram.behaviour == 'finish-raises':
                raise FakeScram.ScramException('other')
            return True
irclib.scram = FakeScram

import base64
def b64(b):
    return base64.b64encode(b).decode()

S = ':srv '
LS_FULL = S + 'CAP * LS :account-notify sasl=PLAIN,EXTERNAL,ECDSA-NIST256P-CHALLENGE,SCRAM-SHA-256 multi-prefix echo-message labeled-response'
LS_NOVAL = S + 'CAP * LS :sasl multi-prefix'
LS_NOSASL = S + 'CAP * LS :multi-prefix account-notify'
WELCOME = [S + '001 bot :Welcome', S + '375 bot :- MOTD', S + '376 bot :End']
NOMOTD = [S + '001 bot :Welcome', S + '422 bot :No MOTD']

def ack_all(irc):
    """Server ACKs everything requested so far, in one line."""
    caps = sorted(irc.state.capabilities_req - irc.state.capabilities_ack
                  - irc.state.capabilities_nak)
    rec('ack_all', caps)
    if caps:
        irc.feedMsg(ircmsgs.IrcMsg(S + 'CAP * ACK :' + ' '.join(caps)))

def nak_all(irc):
    caps = sorted(irc.state.capabilities_req - irc.state.capabilities_ack
                  - irc.state.capabilities_nak)
    rec('nak_all', caps)
    if caps:
        irc.feedMsg(ircmsgs.IrcMsg(S + 'CAP * NAK :' + ' '.join(caps)))

def ack_but_sasl(irc):
    caps = sorted(irc.state.capabilities_req - irc.state.capabilities_ack
                  - irc.state.capabilities_nak - set(['sasl']))
    rec('ack_but_sasl', caps)
    if caps:
        irc.feedMsg(ircmsgs.IrcMsg(S + 'CAP * ACK :' + ' '.join(caps)))

def set_required(value):
    def op(irc):
        NET.sasl.required.setValue(value)
    op.__name__ = 'set_required_%s' % value
    return op

PLAIN = {'sasl.username': 'user', 'sasl.password': 'pw',
         'sasl.mechanisms': ['plain']}
def req(cfg, required=True):
    d = dict(cfg)
    d['sasl.required'] = required
    return d

###
# Part A: SASL, Irc level.
###
def part_sasl():
    keydir = os.path.join(BASE, 'keys')
    os.mkdir(keydir)
    goodkey = os.path.join(keydir, 'good.pem')
    badkey = os.path.join(keydir, 'bad.pem')
    certfile = os.path.join(keydir, 'cert.pem')
    with open(badkey, 'w') as fd:
        fd.write('not a key\n')
    with open(certfile, 'w') as fd:
        fd.write('whatever\n')
    try:
        from cryptography.hazmat.primitives.asymmetric import ec
        from cryptography.hazmat.primitives import serialization
        k = ec.generate_private_key(ec.SECP256R1())
        with open(goodkey, 'wb') as fd:
            fd.write(k.private_bytes(serialization.Encoding.PEM,
                                     serialization.PrivateFormat.PKCS8,
                                     serialization.NoEncryption()))
    except Exception:
        traceback.print_exc()

    for required in (False, True):
        for reset in (False, True):
            tag = 'req=%s reset=%s ' % (required, reset)
            run_irc(tag + 'plain success', req(PLAIN, required), 'clear',
                    [LS_FULL, ack_all, 'AUTHENTICATE +', S + '900 bot x y :logged',
                     S + '903 bot :ok'] + WELCOME, reset)
            run_irc(tag + 'plain success, mechanism list without value',
                    req(PLAIN, required), 'clear',
                    [LS_NOVAL, ack_all, 'AUTHENTICATE +', S + '903 bot :ok'] + NOMOTD, reset)
            run_irc(tag + 'server omits sasl', req(PLAIN, required), 'clear',
                    [LS_NOSASL, ack_all] + WELCOME, reset)
            run_irc(tag + 'server has no caps at all', req(PLAIN, required), 'clear',
                    [S + 'CAP * LS :'] + WELCOME, reset)
            run_irc(tag + 'server NAKs everything', req(PLAIN, required), 'clear',
                    [LS_FULL, nak_all] + WELCOME, reset)
            run_irc(tag + 'server ACKs all but sasl then NAKs sasl',
                    req(PLAIN, required), 'clear',
                    [LS_FULL, ack_but_sasl, S + 'CAP * NAK :sasl'] + WELCOME, reset)
            run_irc(tag + 'server fails plain (904)', req(PLAIN, required), 'clear',
                    [LS_FULL, ack_all, 'AUTHENTICATE +', S + '904 bot :fail'] + WELCOME,
                    reset)
            for num in ('905', '906', '907'):
                run_irc(tag + 'server fails plain (%s)' % num, req(PLAIN, required),
                        'clear',
                        [LS_FULL, ack_all, S + num + ' bot :fail'] + WELCOME, reset)
            run_irc(tag + 'server skips CAP', req(PLAIN, required), 'clear',
                    WELCOME + [S + 'CAP * LS :sasl'], reset)
            run_irc(tag + 'server skips CAP, 422', req(PLAIN, required), 'clear',
                    NOMOTD, reset)
            run_irc(tag + 'unsolicited 903 before AUTHENTICATE +', req(PLAIN, required),
                    'clear',
                    [LS_FULL, ack_all, S + '903 bot :ok'] + WELCOME, reset)
            run_irc(tag + 'unsolicited 903 before CAP', req(PLAIN, required), 'clear',
                    [S + '903 bot :ok', LS_FULL, S + '903 bot :ok'] + WELCOME, reset)
            run_irc(tag + '903 then 904 then 903', req(PLAIN, required), 'clear',
                    [LS_FULL, ack_all, 'AUTHENTICATE +', S + '903 bot :ok',
                     S + '904 bot :fail', S + '903 bot :ok'] + WELCOME, reset)
            run_irc(tag + '908 then 904', req(PLAIN, required), 'clear',
                    [LS_FULL, ack_all, S + '908 bot EXTERNAL,PLAIN :mechs',
                     S + '904 bot :fail'] + WELCOME, reset)
            run_irc(tag + 'sasl mechs do not intersect', req(PLAIN, required), 'clear',
                    [S + 'CAP * LS :sasl=EXTERNAL,FOO multi-prefix', ack_all] + WELCOME,
                    reset)
            run_irc(tag + 'mixed-case mechs', req(PLAIN, required), 'clear',
                    [S + 'CAP * LS :sasl=external,Plain', ack_all, 'AUTHENTICATE +',
                     S + '903 bot :ok'] + WELCOME, reset)
            run_irc(tag + 'no credentials configured', req({}, required), 'clear',
                    [LS_FULL, ack_all] + WELCOME, reset)
            run_irc(tag + 'ACK of sasl not requested (no credentials)',
                    req({}, required), 'clear',
                    [LS_FULL, S + 'CAP * ACK :sasl', ack_all] + WELCOME, reset)
            run_irc(tag + 'unrequested ACK', req(PLAIN, required), 'clear',
                    [LS_FULL, S + 'CAP * ACK :foo', S + 'CAP * NAK :bar'] + WELCOME,
                    reset)
            run_irc(tag + 'ACK sasl without LS', req(PLAIN, required), 'clear',
                    [S + 'CAP * ACK :sasl', S + 'CAP * ACK sasl',
                     S + 'CAP * NAK sasl'] + WELCOME, reset)
            run_irc(tag + 'multiline LS', req(PLAIN, required), 'clear',
                    [S + 'CAP * LS * :multi-prefix =account-notify',
                     S + 'CAP * LS x :bad', S + 'CAP * LS', S + 'CAP * LS a b c d',
                     S + 'CAP * LS :~sasl=PLAIN', ack_all, 'AUTHENTICATE +',
                     S + '903 bot :ok'] + WELCOME, reset)
            run_irc(tag + 'two mechanisms, first fails',
                    req({'sasl.username': 'user', 'sasl.password': 'pw',
                         'certfile': certfile,
                         'sasl.mechanisms': ['external', 'plain']}, required),
                    'clear',
                    [LS_FULL, ack_all, 'AUTHENTICATE +', S + '904 bot :fail',
                     'AUTHENTICATE +', S + '903 bot :ok'] + WELCOME, reset)
            run_irc(tag + 'two mechanisms, both fail, global certfile',
                    req({'sasl.username': 'user', 'sasl.password': 'pw',
                         'global.certfile': certfile,
                         'sasl.mechanisms': ['external', 'plain']}, required),
                    'clear',
                    [LS_FULL, ack_all, 'AUTHENTICATE +', S + '904 bot :fail',
                     'AUTHENTICATE +', S + '904 bot :fail', S + '904 bot :fail']
                    + WELCOME, reset)
            run_irc(tag + 'CAP NEW sasl once connected', req(PLAIN, required), 'clear',
                    [set_required(False), LS_NOSASL, ack_all] + WELCOME +
                    [set_required(required), S + 'CAP bot NEW :sasl=PLAIN foo=bar',
                     ack_all, 'AUTHENTICATE +', S + '903 bot :ok',
                     S + 'CAP bot DEL :sasl foo', S + 'CAP bot DEL sasl',
                     S + 'CAP bot NEW :sasl', ack_all, S + '904 bot :no',
                     S + '375 bot :- MOTD', S + '376 bot :End'], reset)
            run_irc(tag + 'CAP NEW sasl once connected, fails', req(PLAIN, required),
                    'clear',
                    [set_required(False), LS_NOSASL, ack_all] + WELCOME +
                    [set_required(required), S + 'CAP bot NEW :sasl=PLAIN',
                     S + 'CAP bot NEW sasl', ack_all, 'AUTHENTICATE +',
                     S + '904 bot :no', S + '376 bot :End'], reset)
            run_irc(tag + 'CAP DEL during negotiation', req(PLAIN, required), 'clear',
                    [LS_FULL, S + 'CAP * ACK :multi-prefix', S + 'CAP * DEL :sasl',
                     ack_all] + WELCOME, reset)
            run_irc(tag + 'long password (chunked)',
                    req({'sasl.username': 'u' * 150, 'sasl.password': 'p' * 301,
                         'sasl.mechanisms': ['plain']}, required), 'clear',
                    [LS_FULL, ack_all, 'AUTHENTICATE +', S + '903 bot :ok'] + WELCOME,
                    reset)
            run_irc(tag + 'chunked AUTHENTICATE from server',
                    req(PLAIN, required), 'clear',
                    [LS_FULL, ack_all, 'AUTHENTICATE ' + 'A' * 400,
                     'AUTHENTICATE ' + 'A' * 400, 'AUTHENTICATE +',
                     S + '903 bot :ok'] + WELCOME, reset)
            run_irc(tag + 'malformed CAP', req(PLAIN, required), 'clear',
                    [S + 'CAP * ACK', S + 'CAP * ACK a b', S + 'CAP * NAK',
                     S + 'CAP * NAK a b', S + 'CAP * DEL', S + 'CAP * NEW',
                     S + 'CAP * NEW a b', S + 'CAP * DEL a b', S + 'CAP * FOO :x',
                     S + 'CAP', LS_FULL, ack_all, 'AUTHENTICATE +',
                     S + '903 bot :ok'] + WELCOME, reset)
            run_irc(tag + 'CAP traffic in the middle of SASL', req(PLAIN, required),
                    'clear',
                    [LS_FULL, ack_but_sasl, S + 'CAP * ACK :sasl',
                     S + 'CAP * ACK :sasl', S + 'CAP * NAK :multi-prefix',
                     S + 'CAP * NEW :foo=bar account-tag',
                     S + 'CAP * LS :batch', S + 'CAP * DEL :sasl',
                     'AUTHENTICATE +', S + '903 bot :ok', ack_all] + WELCOME, reset)
            run_irc(tag + 'CAP LS again once connected', req(PLAIN, required),
                    'clear',
                    [LS_FULL, ack_all, 'AUTHENTICATE +', S + '903 bot :ok'] + WELCOME +
                    [S + 'CAP bot LS :batch sasl=PLAIN', ack_all,
                     S + 'CAP bot LS * :chghost', S + 'CAP bot LS :setname',
                     S + 'CAP bot NAK :setname', nak_all], reset)
            run_irc(tag + 'AUTHENTICATE outside SASL', req(PLAIN, required), 'clear',
                    ['AUTHENTICATE +', LS_FULL, 'AUTHENTICATE +'] + WELCOME, reset)
            # ECDSA
            ecdsa = {'sasl.username': 'user',
                     'sasl.mechanisms': ['ecdsa-nist256p-challenge', 'plain']}
            for (kname, kfile) in (('missing', os.path.join(keydir, 'none.pem')),
                                   ('bad', badkey), ('good', goodkey)):
                d = dict(ecdsa)
                d['sasl.ecdsa_key'] = kfile
                run_irc(tag + 'ecdsa key ' + kname, req(d, required), 'clear',
                        [LS_FULL, ack_all, 'AUTHENTICATE +',
                         'AUTHENTICATE ' + b64(b'x' * 32),
                         S + ('903 bot :ok' if kname == 'good' else '906 bot :aborted')]
                        + WELCOME, reset, mask=True)
            # SCRAM
            scr = {'sasl.username': 'user', 'sasl.password': 'pw',
                   'sasl.mechanisms': ['scram-sha-256', 'plain']}
            for behaviour in ('ok', 'start-raises', 'challenge-raises',
                              'finish-bad', 'finish-raises'):
                FakeScram.behaviour = behaviour
                run_irc(tag + 'scram ' + behaviour, req(scr, required), 'clear',
                        [LS_FULL, ack_all, 'AUTHENTICATE +',
                         'AUTHENTICATE ' + b64(b'r=nonce2,s=salt,i=4096'),
                         'AUTHENTICATE ' + b64(b'v=sig'),
                         S + '903 bot :ok', S + '906 bot :aborted',
                         'AUTHENTICATE +', S + '903 bot :ok'] + WELCOME, reset)
            FakeScram.behaviour = 'ok'
            def odd_mechs(irc):
                irc.sasl_next_mechanisms = ['scram-sha-512', 'scram-sha-1-plus',
                                           'scram-sha-256']
            run_irc(tag + 'scram unsupported hash', req(scr, required), 'clear',
                    [S + 'CAP * LS :sasl', odd_mechs, ack_all, 'AUTHENTICATE +',
                     S + '906 bot :aborted', 'AUTHENTICATE +',
                     S + '904 bot :fail', S + '904 bot :fail', S + '904 bot :fail']
                    + WELCOME, reset)
    # requireStarttls (dies), password
    run_irc('server password', {'password': 'secret'}, 'clear',
            [LS_NOSASL, ack_all] + WELCOME)
    # zombie
    def die(irc):
        irc.die()
    run_irc('die before connect', req(PLAIN), 'clear', [die, LS_FULL], True)

###
# Part B: STS at the Irc level.
###
POLICIES = [
    'port=6697', 'port=6697,duration=100', 'duration=100', 'port=abc',
    'port=6697,duration=abc', 'port=6697,duration=100,preload',
    'port=6697,duration=100,foo=bar=baz', 'port=', 'port', 'duration',
    'port=6697,duration=', 'port=6697,duration', '', ',', 'port=6697,,',
    'port=6697,port=7000', 'port=7000,duration=5,port=6697', 'port=-1',
    'port= 6697', 'port=6697,duration=0', 'port=6697,duration=-5',
    'port=0x10', 'port=6697.0', 'PORT=6697,DURATION=1', 'port==6697',
    'duration=100,port=6697', 'port=99999999999,duration=1',
    'port=٦٦٩٧,duration=1',
]
KINDS = ['clear', 'tls-unverified', 'tls-verified', 'forced', 'forced-nossl',
         'clear-verifyconf']

def part_sts_irc():
    for policy in POLICIES:
        rec('parse', policy,
            ircutils.parseStsPolicy(log, policy, parseDuration=True),
            ircutils.parseStsPolicy(log, policy, parseDuration=False),
            ircutils.parseStsPolicy(log, policy, parseDuration=1),
            ircutils.parseStsPolicy(log, policy, parseDuration=0))
        for kind in KINDS:
            for reset in (False, True):
                run_irc('sts %r' % policy, req(PLAIN, False), kind,
                        [S + 'CAP * LS :multi-prefix sts=%s sasl' % policy,
                         ack_all, 'AUTHENTICATE +', S + '903 bot :ok'] + WELCOME,
                        reset)
    for kind in KINDS:
        for reset in (False, True):
            run_irc('sts without value', req(PLAIN), kind,
                    [S + 'CAP * LS :multi-prefix sts sasl', ack_all] + WELCOME, reset)
            run_irc('sts prefixed', {}, kind,
                    [S + 'CAP * LS * :=sts=port=6697,duration=7 ~=multi-prefix',
                     S + 'CAP * LS :~sts=port=6698,duration=8 ==a=b =', ack_all]
                    + WELCOME, reset)
            run_irc('sts in CAP NEW', {}, kind,
                    [LS_NOSASL, ack_all] + WELCOME +
                    [S + 'CAP bot NEW :sts=port=6697,duration=300 foo',
                     S + 'CAP bot NEW :sts', S + 'CAP bot DEL :sts',
                     'PING :x'], reset)
            run_irc('sts twice in one LS', {}, kind,
                    [S + 'CAP * LS :sts=port=6697,duration=1 sts=port=6698,duration=2',
                     ack_all] + WELCOME, reset)

###
# Part C: ServersMixin._applyStsPolicy / _getNextServer, ircdb persistence.
###
class Mixin(drivers.ServersMixin):
    pass

class StubIrc(object):
    network = 'test'

def part_apply():
    netfile = os.path.join(BASE, 'conf', 'networks.conf')
    ircdb.networks.filename = netfile
    stored = ['port=6697,duration=100', 'port=6697,duration=0',
              'port=6697,duration=100,preload', 'duration=100,port=7000',
              'port=6697', 'duration=5', 'port=abc,duration=5', 'garbage',
              'port=6697,duration=99999999']
    for policy in [None] + stored:
        for last in (None, -1, 0, 50, 99, 100, 101, 100000):
            fresh_networks()
            CLOCK.set(2000000.25)
            configure({'servers': ['Irc.Example.Org:6667', 'other.example.org:7000',
                                   '[::1]:6660']})
            net = ircdb.networks.getNetwork('Test')
            if policy is not None:
                net.addStsPolicy('Irc.Example.Org', policy)
                net.addStsPolicy('other.example.org', 'port=1,duration=1000')
            if last is not None:
                net.lastDisconnectTimes['Irc.Example.Org'] = int(CLOCK.now) - last
                net.lastDisconnectTimes['other.example.org'] = int(CLOCK.now) - last
            m = Mixin(StubIrc())
            rec('=== apply', policy, last)
            for i in range(5):
                try:
                    r = m._getNextServer()
                    rec('next', r, m.currentServer, m.servers)
                except BaseException as e:
                    rec('next-raised', e, m.servers,
                        getattr(m, 'currentServer', None))
            try:
                m.die()
                m.onDisconnect()
            except BaseException as e:
                rec('die-raised', e)
            rec('netdb', net.stsPolicies, net.lastDisconnectTimes,
                ircdb.networks.networks)
            ircdb.networks.flush()
            with open(netfile, 'rb') as fd:
                rec('file', fd.read())
    # Persistence round trip.
    fresh_networks()
    CLOCK.set(3000000.25)
    for (n, host, pol) in (('test', 'b.example', 'port=1,duration=2'),
                           ('Test', 'a.example', 'port=3,duration=4,x'),
                           ('other', 'c.example', 'port=5'),
                           ('ÉCOLE[x]', 'd.example', 'port=6,duration=7')):
        net = ircdb.networks.getNetwork(n)
        net.addStsPolicy(host, pol)
        net.addDisconnection(host)
        net.addDisconnection('z' + host)
        CLOCK.advance(10)
    ircdb.networks.getNetwork('empty')
    ircdb.networks.getNetwork('test').expireStsPolicy('nope')
    ircdb.networks.getNetwork('test').expireStsPolicy('b.example')
    rec('repr', repr(ircdb.networks.getNetwork('test')),
        repr(ircdb.IrcNetwork()))
    ircdb.networks.flush()
    with open(netfile, 'rb') as fd:
        data = fd.read()
    rec('file', data)
    ircdb.networks.reload()
    rec('reloaded', sorted((k, v.stsPolicies, v.lastDisconnectTimes)
                           for (k, v) in ircdb.networks.items()))
    ircdb.networks.noFlush = True
    ircdb.networks.flush()
    ircdb.networks.noFlush = False
    for bad in ('network x\n  stsPolicy onlyone\n\n',
                'network x\n  lastDisconnectTime h notint\n\n',
                'network x\n  stsPolicy h port=1,duration=2\n  bogus 1\n\n',
                'network x\n  stsPolicy h port=1,duration=2\n\nnetwork y\n'
                '  lastDisconnectTime h 12\n\n'):
        with open(netfile, 'w') as fd:
            fd.write(bad)
        ircdb.IrcNetworkCreator.name = None
        ircdb.networks.reload()
        rec('reloaded', sorted((k, v.stsPolicies, v.lastDisconnectTimes)
                               for (k, v) in ircdb.networks.items()))
        with open(netfile, 'rb') as fd:
            rec('file', fd.read())
    ircdb.IrcNetworkCreator.name = None
    fn = ircdb.networks.filename
    ircdb.networks.filename = None
    ircdb.networks.flush()
    ircdb.networks.reload()
    ircdb.networks.filename = fn
    try:
        ircdb.IrcNetwork().addStsPolicy('h', b'port=1')
    except BaseException as e:
        rec('addStsPolicy-raised', type(e).__name__)

###
# Part D: the real SocketDriver over fake sockets.
###
class FakeSock(object):
    count = 0
    def __init__(self, address, port):
        FakeSock.count += 1
        self.id = FakeSock.count
        self.address = address
        self.port = port
        self.inq = []
        self._closed = False
        self.tls = None
        self.fail_connect = None
        rec('sock.new', self.id, address, port)
    def settimeout(self, t):
        rec('sock.settimeout', self.id, t)
    def connect(self, addr):
        rec('sock.connect', self.id, addr)
        if self.fail_connect is not None:
            raise self.fail_connect
    send_errors = []
    partial = None
    def send(self, data):
        if FakeSock.send_errors:
            e = FakeSock.send_errors.pop(0)
            rec('sock.send-raises', self.id, e)
            raise e
        if FakeSock.partial:
            data = data[:FakeSock.partial]
        rec('sock.send', self.id, self.tls, data)
        return len(data)
    def recv(self, n):
        if self.inq:
            x = self.inq.pop(0)
            if isinstance(x, BaseException):
                raise x
            return x
        raise real_socket.timeout('timed out')
    def shutdown(self, how):
        rec('sock.shutdown', self.id)
    def close(self):
        rec('sock.close', self.id)
        self._closed = True
    def fileno(self):
        return 100 + self.id
    def __repr__(self):
        return 'FakeSock(%d)' % self.id

class Net(object):
    """Stand-in for the network: utils.net.* and select."""
    def __init__(self):
        self.socks = []
        self.wrap_error = None
        self.connect_error = None
        self.resolve_error = None
        self.writable = True
    def getAddressFromHostname(self, host, port=None, attempt=0):
        rec('resolve', host, port, attempt)
        if self.resolve_error is not None:
            raise self.resolve_error
        return '10.0.0.%d' % (len(host) % 200)
    def getSocket(self, address, port=None, socks_proxy=None, vhost=None,
                  vhostv6=None):
        rec('getSocket', address, port, socks_proxy, vhost, vhostv6)
        s = FakeSock(address, port)
        s.fail_connect = self.connect_error
        self.socks.append(s)
        return s
    def ssl_wrap_socket(self, conn, **kwargs):
        kwargs.pop('logger')
        rec('ssl_wrap_socket', conn.id, sorted(kwargs.items()))
        if self.wrap_error is not None:
            raise self.wrap_error
        conn.tls = 'verified' if (kwargs['verify'] or kwargs['ca_file'] or
                                  kwargs['trusted_fingerprints']) else 'unverified'
        return conn
    def select(self, r, w, x, timeout=None):
        return ([s for s in r if s.inq], list(w) if self.writable else [], [])

class FakeSelectModule(object):
    error = OSError
    def __init__(self, net):
        self.select = net.select

def run_socket(name, cfg, steps):
    rec('=== socket scenario', name, cfg)
    configure(cfg)
    del world.ircs[:]
    del Socket.SocketDriver._instances[:]
    drivers._drivers.clear()
    drivers._deadDrivers.clear()
    del drivers._newDrivers[:]
    net = Net()
    utils.net.getAddressFromHostname = net.getAddressFromHostname
    utils.net.getSocket = net.getSocket
    utils.net.ssl_wrap_socket = net.ssl_wrap_socket
    Socket.select = FakeSelectModule(net)
    irc = irclib.Irc('test', callbacks=[Recorder()])
    ctx = {'net': net, 'irc': irc}
    try:
        driver = Socket.SocketDriver(irc)
    except BaseException as e:
        rec('driver-init-raised', e)
        return
    irc.driver = driver
    ctx['driver'] = driver
    def state():
        rec('dstate', driver.connected, getattr(driver, 'currentServer', None),
            driver.servers, driver.nextReconnectTime is not None,
            driver.ssl, driver.zombie, driver.inbuffer, driver.outbuffer,
            irc.state.fsm.state, irc.sasl_authenticated, irc.afterConnect,
            len(Socket.SocketDriver._instances))
        n = ircdb.networks.getNetwork('test')
        rec('netdb', n.stsPolicies, n.lastDisconnectTimes)
    state()
    for step in steps:
        if isinstance(step, (int, float)):
            rec('advance', step)
            CLOCK.advance(step)
        elif step == 'run':
            rec('run')
            try:
                driver.run()
            except BaseException as e:
                rec('run-raised', e)
        elif callable(step):
            rec('op', step.__name__)
            step(ctx)
        else:
            rec('server-sends', step)
            if net.socks:
                net.socks[-1].inq.append(step.encode() + b'\r\n')
            try:
                driver.run()
            except BaseException as e:
                rec('run-raised', e)
        state()

def part_socket():
    netfile = os.path.join(BASE, 'conf', 'networks.conf')
    ircdb.networks.filename = netfile
    STS_LS = S + 'CAP * LS :multi-prefix sts=port=6697,duration=100 sasl=PLAIN'
    NOSTS_LS = S + 'CAP * LS :multi-prefix sasl=PLAIN'
    full = ['run', 'ACKALL', 'AUTHENTICATE +', S + '903 bot :ok'] + WELCOME

    def ackall(ctx):
        irc = ctx['irc']
        caps = sorted(irc.state.capabilities_req - irc.state.capabilities_ack
                      - irc.state.capabilities_nak)
        if caps and ctx['net'].socks:
            ctx['net'].socks[-1].inq.append(
                (S + 'CAP * ACK :' + ' '.join(caps)).encode() + b'\r\n')
        ctx['driver'].run()
    def closed_by_peer(ctx):
        ctx['net'].socks[-1].inq.append(b'')
        ctx['driver'].run()
    def reconnect_now(ctx):
        ctx['driver'].reconnect()
    def die(ctx):
        ctx['irc'].die()
        ctx['driver'].die()
        ctx['driver'].run()
    def wrap_fails(ctx):
        ctx['net'].wrap_error = real_ssl.CertificateError('bad cert')
    def wrap_ok(ctx):
        ctx['net'].wrap_error = None
    def flush(ctx):
        ircdb.networks.flush()
        with open(netfile, 'rb') as fd:
            rec('file', fd.read())
    def expand(steps):
        out = []
        for s in steps:
            if s == 'ACKALL':
                out.append(ackall)
            else:
                out.append(s)
        return out

    certdir = os.path.join(BASE, 'certs')
    os.mkdir(certdir)
    cert = os.path.join(certdir, 'client.pem')
    with open(cert, 'w') as fd:
        fd.write('x\n')

    tls_cfgs = [
        ('clear', {'ssl': False}),
        ('clear+globalverify', {'ssl': False, 'verifyCertificates': True}),
        ('tls-unverified', {'ssl': True}),
        ('tls-verified', {'ssl': True, 'verifyCertificates': True}),
        ('tls-fingerprint', {'ssl': True,
                             'ssl.serverFingerprints': ['aa:bb']}),
        ('tls-ca', {'ssl': True, 'ssl.authorityCertificate': '/ca.pem',
                    'certfile': cert}),
        ('tls-missing-certfile', {'ssl': True, 'certfile': '/nonexistent.pem'}),
        ('clear-global-certfile', {'ssl': False, 'global.certfile': cert}),
    ]
    for (cname, tcfg) in tls_cfgs:
        for required in (False, True):
            cfg = dict(PLAIN)
            cfg.update(tcfg)
            cfg['sasl.required'] = required
            fresh_networks()
            CLOCK.set(5000000.25)
            # 1. policy advertised; follow the bot until it is connected
            #    again, then a disconnect, then connections during and after
            #    the policy's lifetime.
            run_socket('sts advertised %s required=%s' % (cname, required), cfg,
                       expand(['run', STS_LS, 'run', 11, 'run', STS_LS] + full +
                              [flush, 50, closed_by_peer, 11, 'run', NOSTS_LS]
                              + full +
                              [closed_by_peer, 21, 'run', 200, closed_by_peer,
                               100, 'run', NOSTS_LS, flush]))
            # 2. stored policy from a previous run of the process.
            fresh_networks()
            n = ircdb.networks.getNetwork('test')
            n.addStsPolicy('irc.example.org', 'port=7777,duration=60')
            n.lastDisconnectTimes['irc.example.org'] = int(CLOCK.now) - 30
            run_socket('stored policy %s required=%s' % (cname, required), cfg,
                       expand(['run', NOSTS_LS] + full +
                              [reconnect_now, 'run', 100, reconnect_now, 'run',
                               flush]))
            # 3. certificate failure on the forced connection.
            fresh_networks()
            run_socket('cert failure %s required=%s' % (cname, required), cfg,
                       expand([wrap_fails, 'run', STS_LS, 11, 'run', 21, 'run',
                               wrap_ok, 41, 'run', STS_LS, flush]))
            # 4. server never offers sasl / skips CAP.
            fresh_networks()
            run_socket('no sasl %s required=%s' % (cname, required), cfg,
                       expand(['run', S + 'CAP * LS :multi-prefix', 'ACKALL'] +
                              WELCOME + [11, 'run'] + WELCOME + [die, 'run']))
    # Invalid policies over each connection kind, with the real driver.
    for (cname, tcfg) in tls_cfgs[:4]:
        for policy in ('port=abc', 'duration=5', 'port=6697,duration=x',
                       'port=6697', 'port=6697,duration=0'):
            cfg = dict(PLAIN)
            cfg.update(tcfg)
            fresh_networks()
            run_socket('policy %r %s' % (policy, cname), cfg,
                       expand(['run', S + 'CAP * LS :sts=%s sasl' % policy, 'run',
                               'ACKALL', 11, 'run', flush]))
    # Connection errors.
    def resolve_fails(ctx):
        ctx['net'].resolve_error = real_socket.gaierror(-2, 'Name or service not known')
    def resolve_ok(ctx):
        ctx['net'].resolve_error = None
    def connect_inprogress(ctx):
        ctx['net'].connect_error = real_socket.error(115, 'in progress')
    def connect_refused(ctx):
        ctx['net'].connect_error = real_socket.error(111, 'refused')
    def connect_ok(ctx):
        ctx['net'].connect_error = None
    fresh_networks()
    run_socket('connection errors', dict(PLAIN),
               [resolve_fails, reconnect_now, 11, 'run', resolve_ok,
                connect_refused, 21, 'run', connect_inprogress, 41, 'run',
                61, 'run', connect_ok, 'run', 100, 'run', NOSTS_LS,
                'garbage \x00 line', ':', ''])
    def unwritable(ctx):
        ctx['net'].writable = False
    def writable(ctx):
        ctx['net'].writable = True
    def eagain_sends(ctx):
        FakeSock.send_errors = [real_socket.error(11, 'eagain')] * 3
    def many_eagain_sends(ctx):
        ctx['driver'].eagains = 119
        FakeSock.send_errors = [real_socket.error(11, 'eagain')] * 4
    def reset_send(ctx):
        FakeSock.send_errors = [real_socket.error(104, 'reset by peer')]
    def recv_errors(ctx):
        ctx['net'].socks[-1].inq.extend([
            real_socket.error(11, 'eagain'),
            real_ssl.SSLError('The read operation timed out'),
            real_socket.timeout('t')])
    def recv_ssl_error(ctx):
        ctx['net'].socks[-1].inq.append(real_ssl.SSLError('bad record mac'))
    def partial_on(ctx):
        FakeSock.partial = 7
    def partial_off(ctx):
        FakeSock.partial = None
    def queue_some(ctx):
        ctx['irc'].queueMsg(ircmsgs.privmsg('#chan', 'hello'))
        ctx['irc'].sendMsg(ircmsgs.ping('abc'))
    fresh_networks()
    run_socket('in-progress connect that never completes', dict(PLAIN),
               [connect_inprogress, reconnect_now, unwritable, 61, 'run',
                connect_ok, writable, 11, 'run', 'run'])
    fresh_networks()
    run_socket('send/recv errors', dict(PLAIN),
               [eagain_sends, 'run', 'run', 'run', 'run', NOSTS_LS,
                recv_errors, 'run', 'run', 'run', partial_on, queue_some, 'run',
                'run', partial_off, 'run', recv_ssl_error, 'run', 11, 'run',
                NOSTS_LS, queue_some, many_eagain_sends, 'run', 'run', 'run', 'run', 'run',
                11, 'run', queue_some, recv_errors, 'run', 'run', 'run',
                partial_on, queue_some, 'run', 'run', partial_off, 'run',
                reset_send, queue_some, 'run', 21, 'run', recv_ssl_error, 'run',
                'run'])
    FakeSock.send_errors = []
    FakeSock.partial = None
    configure({})

###
# Part E: the FSM alone, every event in every state; small helpers.
###
class FsmIrc(object):
    def __init__(self):
        self.callbacks = [Recorder()]

def part_fsm():
    St = irclib.IrcStateFsm.States
    events = [
        ('on_init_messages_sent', lambda f, i: f.on_init_messages_sent(i)),
        ('on_sasl_cap', lambda f, i: f.on_sasl_cap(i, 'm')),
        ('on_sasl_auth_finished', lambda f, i: f.on_sasl_auth_finished(i, 'm')),
        ('on_cap_end', lambda f, i: f.on_cap_end(i, 'm')),
        ('on_start_motd', lambda f, i: f.on_start_motd(i, 'm')),
        ('on_end_motd', lambda f, i: f.on_end_motd(i, 'm')),
        ('on_shutdown', lambda f, i: f.on_shutdown(i, None)),
        ('expect-list', lambda f, i: f.expect_state([St.INIT_SASL, St.CONNECTED])),
        ('expect-tuple', lambda f, i: f.expect_state((St.INIT_SASL, St.CONNECTED))),
        ('expect-set', lambda f, i: f.expect_state({St.CONNECTED})),
        ('expect-empty', lambda f, i: f.expect_state([])),
        ('transition-none', lambda f, i: f._transition(i, None, St.CONNECTED)),
        ('transition-empty', lambda f, i: f._transition(i, None, St.CONNECTED, [])),
        ('transition-tuple', lambda f, i: f._transition(i, 'm', St.INIT_MOTD,
                                                          (St.CONNECTED, St.INIT_SASL))),
        ('reset', lambda f, i: f.reset()),
    ]
    for st in St:
        for (ename, ev) in events:
            fsm = irclib.IrcStateFsm()
            fsm.state = st
            try:
                r = ev(fsm, FsmIrc())
                rec('fsm', st, ename, 'ok', r, fsm.state)
            except BaseException as e:
                rec('fsm', st, ename, 'raised', e, fsm.state)
    rec('fsm-slots', irclib.IrcStateFsm.__slots__,
        sorted(n for n in vars(irclib.IrcStateFsm) if not n.startswith('_')))

def part_misc():
    for s in ('', '   ', ':', ': ', 'PING x', ' PING :x y \r\n', ':a!b@c PRIVMSG #c :hi',
              '@tag=1 :a PRIVMSG b :c', '@', '@a', ':a', '\x00', 'x' * 600):
        try:
            rec('parseMsg', s, drivers.parseMsg(s))
        except BaseException as e:
            rec('parseMsg-raised', s, e)
    srv = drivers.Server('h.example', 6667, 2, False)
    for e in (None, '', 'closed', 'closed.', 0, 42, ValueError('boom'),
              ValueError('boom.'), real_socket.error(104, 'reset'),
              real_socket.gaierror(-2, 'Name or service not known'),
              KeyboardInterrupt('x')):
        drivers.log.disconnect(srv, e)
        drivers.log.connectError(srv, e)
    drivers.log.disconnect(srv)
    drivers.log.connect(srv)
    for when in (None, 12.5, 'tomorrow'):
        drivers.log.reconnect('net', when)
    drivers.log.die('irc')
    rec('empty', drivers.empty())

def main():
    part_fsm()
    part_misc()
    part_sasl()
    part_sts_irc()
    part_apply()
    part_socket()

code = 1
try:
    main()
    blob = json.dumps(RECORD, sort_keys=True, ensure_ascii=True).encode()
    digest = hashlib.sha256(blob).hexdigest()
    if '--dump' in sys.argv:
        with open(sys.argv[sys.argv.index('--dump') + 1], 'w') as fd:
            for entry in RECORD:
                fd.write(json.dumps(entry, sort_keys=True) + '\n')
    print('records: %d  digest: %s' % (len(RECORD), digest))
    if digest == EXPECTED:
        print('PASS')
        code = 0
    else:
        print('FAIL: expected digest %s' % EXPECTED)
except BaseException:
    traceback.print_exc()
    print('FAIL')
finally:
    shutil.rmtree(BASE, ignore_errors=True)
    sys.stdout.flush()
    os._exit(code)
