#!/usr/bin/env python
"""Equivalence demo for the C18 controls (scheduler / driver loop / Scheduler
plugin).  Drives the real code under a virtual clock, records every
observable result (return values, exceptions, firings with their arguments,
heap layout, log calls, messages sent, bytes of the pickle file) and compares
a digest of the record with the one obtained on the unmodified tree.

Run as:  cd /tmp/mut6_C18 && /venv/bin/python _mutants/c<i>/demo.py
Prints PASS and exits 0 when the digest matches.
"""
import os
import sys

EXPECTED = '41ab58b5bafae3df78ab701d4023013a5b205040cb99f3bf5acb0ee274d13647'

# Deterministic set iteration order (drivers._deadDrivers is a set of str).
if os.environ.get('PYTHONHASHSEED') != '0':
    env = dict(os.environ)
    env['PYTHONHASHSEED'] = '0'
    os.execve(sys.executable, [sys.executable] + sys.argv, env)

import hashlib
import inspect
import pickle
import random
import re
import shutil
import tempfile
import time
import traceback

ROOT = os.getcwd()
sys.path.insert(0, os.path.join(ROOT, 'src'))   # harmless if already there
sys.path.insert(0, ROOT)                        # `supybot` -> src symlink

SCRATCH = tempfile.mkdtemp(prefix='c18demo')
for d in ('conf', 'data', 'logs', 'backup', 'tmp'):
    os.mkdir(os.path.join(SCRATCH, d))
REGISTRY = os.path.join(SCRATCH, 'conf', 'test.conf')
with open(REGISTRY, 'w') as fd:
    fd.write("""
supybot.directories.data: %(b)s/data
supybot.directories.data.tmp: %(b)s/tmp
supybot.directories.conf: %(b)s/conf
supybot.directories.log: %(b)s/logs
supybot.directories.backup: %(b)s/backup
supybot.reply.whenNotCommand: True
supybot.log.stdout: False
supybot.log.stdout.level: CRITICAL
supybot.log.level: CRITICAL
supybot.log.plugins.individualLogfiles: False
supybot.protocols.irc.throttleTime: 0
supybot.reply.whenAddressedBy.chars: @
supybot.networks.test.server: should.not.need.this
supybot.networks.othernet.server: should.not.need.this
supybot.nick: test
supybot.abuse.flood.command: False
supybot.abuse.flood.command.invalid: False
""" % {'b': SCRATCH})

import supybot
import supybot.registry as registry
registry.open_registry(REGISTRY)
import supybot.log as log
import supybot.conf as conf
conf.supybot.flush.setValue(False)
import supybot.world as world
import supybot.utils as utils
import supybot.ircdb as ircdb
import supybot.irclib as irclib
import supybot.ircmsgs as ircmsgs
import supybot.ircutils as ircutils
import supybot.drivers as drivers
import supybot.schedule as schedule
import supybot.callbacks as callbacks
import supybot.plugin as plugin

RECORD = []


def rec(*items):
    s = repr(items).replace(SCRATCH, '<SCRATCH>')
    s = re.sub(r'tmp[A-Za-z0-9_]{8}scheduler', '<TMP>scheduler', s)
    s = re.sub(r' at 0x[0-9a-f]+', ' at 0x?', s)
    RECORD.append(s)


def exn(e):
    return '%s(%s)' % (type(e).__name__, e)


# --------------------------------------------------------------------------
# virtual clock
# --------------------------------------------------------------------------
class Clock(object):
    def __init__(self):
        self.t = 1000000.0
        self.slept = []

    def now(self):
        return self.t

    def advance(self, dt):
        self.t += dt

    def sleep(self, n):
        self.slept.append(n)
        rec('sleep', n)


CLOCK = Clock()
REAL_TIME = time.time
REAL_SLEEP = time.sleep
time.time = CLOCK.now


class TickingTime(object):
    """irclib's throttle needs a strictly increasing clock."""
    def __init__(self):
        self.n = 0

    def time(self):
        self.n += 1
        return CLOCK.now() + self.n * 1e-7

    def __getattr__(self, name):
        return getattr(time, name)


irclib.time = TickingTime()


# --------------------------------------------------------------------------
# log capture
# --------------------------------------------------------------------------
def fmt_arg(a):
    if isinstance(a, BaseException):
        return exn(a)
    return repr(a) if isinstance(a, (int, float, str, tuple)) else str(a)


def make_logrec(channel, level):
    def f(fmt, *args, **kw):
        et = sys.exc_info()[0]
        ev = sys.exc_info()[1]
        rec('log', channel, level, fmt, tuple(fmt_arg(a) for a in args),
            sorted(kw), exn(ev) if (level == 'exception' and ev) else None)
    return f


for level in ('debug', 'info', 'warning', 'error', 'critical', 'exception'):
    setattr(log, level, make_logrec('supylog', level))
    # drivers.log is an instance whose class froze the functions
    setattr(drivers.log, level, make_logrec('drivers', level))


class PluginLog(object):
    def __init__(self, name):
        for level in ('debug', 'info', 'warning', 'error', 'critical',
                      'exception'):
            setattr(self, level, make_logrec('plugin:' + name, level))


real_getPluginLogger = log.getPluginLogger


def getPluginLogger(name):
    if name == 'Scheduler':
        return PluginLog(name)
    return real_getPluginLogger(name)


log.getPluginLogger = getPluginLogger


# --------------------------------------------------------------------------
# A. public surface
# --------------------------------------------------------------------------
def surface():
    S = schedule.Schedule
    for name in sorted(n for n in dir(S) if not n.startswith('_')):
        attr = getattr(S, name)
        if callable(attr):
            rec('sig', 'Schedule', name, str(inspect.signature(attr)))
        else:
            rec('attr', 'Schedule', name)
    inst = schedule.schedule
    rec('inst-attrs', sorted(n for n in vars(inst) if not n.startswith('_')))
    rec('types', type(inst.schedule).__name__, type(inst.events).__name__,
        type(inst.counter).__name__, type(inst.lock).__name__)
    rec('aliases',
        schedule.addEvent == inst.addEvent,
        schedule.removeEvent == inst.removeEvent,
        schedule.rescheduleEvent == inst.rescheduleEvent,
        schedule.addPeriodicEvent == inst.addPeriodicEvent,
        schedule.removePeriodicEvent == inst.removeEvent,
        schedule.run == inst.run,
        S.removePeriodicEvent is S.removeEvent,
        inst.name(), issubclass(S, drivers.IrcDriver))
    rec('defaults', [(n, repr(p.default)) for m in
                     ('addEvent', 'makePeriodicWrapper', 'addPeriodicEvent')
                     for (n, p) in
                     inspect.signature(getattr(S, m)).parameters.items()])
    mt = schedule.mytuple
    a = mt((1, 'b', [], {}))
    b = mt((1, 'a', [1], {}))
    c = mt((2, 'a', [], {}))
    rec('mytuple', a < b, a <= b, a > b, a >= b, a < c, c > a, a == b,
        a == mt((1, 'b', [], {})), tuple(a), issubclass(mt, tuple),
        sorted([c, a, b]) == [a, b, c])
    for name in sorted(n for n in dir(drivers) if not n.startswith('_')):
        attr = getattr(drivers, name)
        if ((inspect.isfunction(attr) or inspect.isclass(attr))
                and attr.__module__ == drivers.__name__):
            try:
                rec('sig', 'drivers', name, str(inspect.signature(attr)))
            except (TypeError, ValueError):
                rec('sig', 'drivers', name, '?')
    for cls in (drivers.IrcDriver, drivers.ServersMixin, drivers.Log):
        for name in sorted(n for n in vars(cls) if not n.startswith('__')):
            attr = getattr(cls, name)
            if callable(attr):
                rec('sig', cls.__name__, name, str(inspect.signature(attr)))


# --------------------------------------------------------------------------
# B. Schedule under random operation sequences
# --------------------------------------------------------------------------
class DemoSchedule(schedule.Schedule):
    def name(self):
        return 'DemoSchedule'


class Boom(Exception):
    pass


class SchedHarness(object):
    def __init__(self, seed):
        self.rnd = random.Random(seed)
        self.s = DemoSchedule()
        self.names = []          # names ever used
        self.fired = 0
        self.budget = 400        # firings allowed (keeps spawn graphs finite)

    # -- state ------------------------------------------------------------
    def snap(self, tag):
        s = self.s
        rec('state', tag,
            [(x[0], repr(x[1]), repr(x[2]), repr(x[3]), type(x).__name__)
             for x in s.schedule],
            [repr(k) for k in s.events], s.counter,
            type(s.schedule).__name__)

    # -- event functions ----------------------------------------------------
    def make_f(self, label, kind):
        h = self

        def f(*args, **kwargs):
            h.fired += 1
            rec('fire', label, kind, CLOCK.now(), repr(args),
                repr(sorted(kwargs.items())))
            if h.fired > h.budget:
                return
            if kind == 'raise':
                raise Boom('boom %s' % label)
            if kind == 'spawn':
                h.op_add(via=label)
            if kind == 'spawnperiodic':
                h.op_periodic(via=label)
            if kind == 'remove':
                h.op_remove(via=label)
            if kind == 'resched':
                h.op_resched(via=label)
            if kind == 'keyerror':
                raise KeyError(label)
            if kind == 'baseexc-free':
                return 'value-%s' % label
        f.__name__ = 'f_%s' % label
        return f

    def pick_time(self):
        r = self.rnd.random()
        now = CLOCK.now()
        if r < 0.15:
            return now - self.rnd.choice([0, 1, 5, 1000])      # past / now
        if r < 0.45:
            return now + self.rnd.choice([1, 2, 3])            # ties, ints
        if r < 0.5:
            return int(now) + self.rnd.randint(0, 4)           # int time
        return now + self.rnd.random() * 6

    def pick_name(self, fresh):
        if not fresh and self.names and self.rnd.random() < 0.8:
            return self.rnd.choice(self.names)
        r = self.rnd.random()
        if r < 0.4:
            return None
        if r < 0.7:
            n = 'n%d' % self.rnd.randint(0, 6)
        elif r < 0.8:
            n = ('tup', self.rnd.randint(0, 2))
        elif r < 0.9:
            n = self.rnd.choice(['Foo', 'foo', 'FOO', '#x', '08'])
        else:
            n = self.rnd.randint(0, 5)      # an int clashing with the counter
        return n

    def pick_args(self):
        r = self.rnd.random()
        if r < 0.3:
            return {}
        if r < 0.5:
            return {'args': [self.rnd.randint(0, 9)]}
        if r < 0.7:
            return {'args': (1, 'two'), 'kwargs': {'k': self.rnd.randint(0, 9)}}
        if r < 0.85:
            return {'kwargs': {'a': None, 'b': [1, 2]}}
        return {'args': [[], {}], 'kwargs': {}}

    def pick_kind(self):
        return self.rnd.choice(['plain'] * 5 + ['raise', 'raise', 'spawn',
                                                 'spawnperiodic', 'remove',
                                                 'resched', 'keyerror',
                                                 'baseexc-free'])

    def call(self, tag, fn, *a, **kw):
        try:
            r = fn(*a, **kw)
            rec('ret', tag, repr(r))
            return r
        except Exception as e:
            rec('exc', tag, exn(e),
                exn(e.__context__) if e.__context__ is not None else None)
            return None

    # -- operations -------------------------------------------------------
    def op_add(self, via=None):
        name = self.pick_name(fresh=True)
        kind = self.pick_kind()
        t = self.pick_time()
        extra = self.pick_args()
        label = 'e%d' % len(RECORD)
        f = self.make_f(label, kind)
        if name is None and self.rnd.random() < 0.5:
            r = self.call(('add', via, label, kind, t, None, repr(extra)),
                          self.s.addEvent, f, t, **extra)
        else:
            r = self.call(('add', via, label, kind, t, repr(name),
                           repr(extra)),
                          self.s.addEvent, f, t, name, **extra)
        if r is not None and r not in self.names:
            self.names.append(r)

    def op_periodic(self, via=None):
        name = self.pick_name(fresh=True)
        kind = self.rnd.choice(['plain', 'plain', 'raise', 'keyerror',
                                'remove', 'spawn'])
        period = self.rnd.choice([1, 2, 0.5, 3])
        count = self.rnd.choice([None, 1, 2, 3, 0, -1])
        now = self.rnd.random() < 0.5
        extra = self.pick_args()
        label = 'p%d' % len(RECORD)
        f = self.make_f(label, kind)
        kw = dict(extra)
        if count is not None or self.rnd.random() < 0.3:
            kw['count'] = count
        if self.rnd.random() < 0.5:
            kw['now'] = now
        else:
            now = True
        r = self.call(('periodic', via, label, kind, period, repr(name),
                       repr(sorted(kw.items()))),
                      self.s.addPeriodicEvent, f, period, name, **kw)
        if r is not None and r not in self.names:
            self.names.append(r)

    def op_wrapper(self):
        # makePeriodicWrapper used directly, the way the Scheduler plugin does
        name = 'w%d' % self.rnd.randint(0, 3)
        kind = self.rnd.choice(['plain', 'raise'])
        label = 'w%d' % len(RECORD)
        f = self.make_f(label, kind)
        count = self.rnd.choice([None, 2])
        if self.rnd.random() < 0.5:
            w = self.s.makePeriodicWrapper(f, 2, name)
        else:
            w = self.s.makePeriodicWrapper(f, 2, name, [label], {'k': 1},
                                           count)
        rec('wrapper', callable(w), type(w).__name__)
        r = self.call(('addwrapper', label, kind, name),
                      self.s.addEvent, w, CLOCK.now() + 1, name)
        if r is not None and r not in self.names:
            self.names.append(r)

    def op_remove(self, via=None):
        name = self.pick_name(fresh=False)
        which = self.rnd.choice(['removeEvent', 'removePeriodicEvent'])
        r = self.call((which, via, repr(name)), getattr(self.s, which), name)
        if r is not None:
            rec('removed-f', getattr(r, '__name__', '?'))

    def op_resched(self, via=None):
        name = self.pick_name(fresh=False)
        t = self.pick_time()
        self.call(('resched', via, repr(name), t),
                  self.s.rescheduleEvent, name, t)

    def op_run(self):
        dt = self.rnd.choice([0, 0, 0.5, 1, 1, 2, 3, 7])
        CLOCK.advance(dt)
        before = self.fired
        self.call(('run', dt), self.s.run)
        rec('ran', self.fired - before)

    def op_reset(self):
        self.call(('reset',), self.s.reset)

    def go(self, steps):
        ops = ([self.op_add] * 6 + [self.op_periodic] * 3 + [self.op_wrapper]
               + [self.op_remove] * 3 + [self.op_resched] * 3
               + [self.op_run] * 5)
        for i in range(steps):
            if self.fired > self.budget:
                break
            if self.rnd.random() < 0.01:
                self.op_reset()
            else:
                self.rnd.choice(ops)()
            self.snap(i)
        # drain, cancelling endless periodic events first
        for name in list(self.s.events):
            if self.rnd.random() < 0.5:
                self.call(('final-remove', repr(name)), self.s.removeEvent,
                          name)
        for i in range(6):
            CLOCK.advance(2)
            self.call(('final-run', i), self.s.run)
        self.snap('end')
        self.s.reset()
        self.snap('reset')
        self.s.die()


def schedule_directed():
    """Hand-written edge cases."""
    s = DemoSchedule()
    out = []

    def mk(label, exc=None):
        def f(*a, **k):
            out.append(label)
            rec('fire', label, CLOCK.now(), repr(a), repr(sorted(k.items())))
            if exc is not None:
                raise exc
        return f

    def call(tag, fn, *a, **kw):
        try:
            r = fn(*a, **kw)
            rec('ret', tag, repr(r))
            return r
        except BaseException as e:
            rec('exc', tag, exn(e),
                exn(e.__context__) if e.__context__ is not None else None)

    def snap(tag):
        rec('state', tag, [(x[0], repr(x[1]), repr(x[2]), repr(x[3]))
                           for x in s.schedule],
            [repr(k) for k in s.events], s.counter)

    now = CLOCK.now()
    # strict comparison with the clock: an event due exactly now does not run
    call('a0', s.addEvent, mk('a0'), now)
    call('a1', s.addEvent, mk('a1'), now - 1, 'past')
    call('run0', s.run)
    snap('after-run0')
    CLOCK.advance(0.001)
    call('run1', s.run)
    snap('after-run1')
    # duplicate names, int names equal to the counter
    call('dup1', s.addEvent, mk('dup1'), now + 5, 'dup')
    call('dup2', s.addEvent, mk('dup2'), now + 6, 'dup')
    call('int', s.addEvent, mk('int'), now + 5, s.counter)
    call('auto', s.addEvent, mk('auto'), now + 5)      # clashes: assertion
    snap('after-clash')
    call('auto2', s.addEvent, mk('auto2'), now + 5)    # counter not advanced?
    snap('after-clash2')
    # nan / inf due times
    call('nan', s.addEvent, mk('nan'), float('nan'), 'nan')
    call('inf', s.addEvent, mk('inf'), float('inf'), 'inf')
    call('ninf', s.addEvent, mk('ninf'), float('-inf'), 'ninf')
    CLOCK.advance(10)
    call('run2', s.run)
    snap('after-nan')
    call('rm-nan', s.removeEvent, 'nan')
    call('rm-inf', s.removeEvent, 'inf')
    call('rm-missing', s.removeEvent, 'missing')
    call('rm-unhashable', s.removeEvent, ['x'])
    call('rs-missing', s.rescheduleEvent, 'missing', now)
    snap('after-rm')
    CLOCK.advance(10)
    call('run3', s.run)
    # reschedule keeps arguments, and the default (shared) lists stay empty
    call('ra', s.addEvent, mk('ra'), CLOCK.now() + 5, 'ra', [1, 2], {'z': 3})
    call('rb', s.addEvent, mk('rb'), CLOCK.now() + 5, 'rb')
    call('rs-ra', s.rescheduleEvent, 'ra', CLOCK.now() + 1)
    call('rs-rb', s.rescheduleEvent, 'rb', CLOCK.now() - 1)
    snap('after-resched')
    CLOCK.advance(2)
    call('run4', s.run)
    snap('after-run4')
    rec('defaults-after', repr(schedule.Schedule.addEvent.__defaults__),
        repr(schedule.Schedule.makePeriodicWrapper.__defaults__),
        repr(schedule.Schedule.addPeriodicEvent.__defaults__))
    # a raising event does not stop the ones behind it; BaseException does
    call('x1', s.addEvent, mk('x1', Boom('x1')), CLOCK.now() + 1)
    call('x2', s.addEvent, mk('x2'), CLOCK.now() + 1)
    call('x3', s.addEvent, mk('x3', KeyboardInterrupt('x3')), CLOCK.now() + 2)
    call('x4', s.addEvent, mk('x4'), CLOCK.now() + 3)
    CLOCK.advance(5)
    call('run5', s.run)
    snap('after-kbd')
    call('run6', s.run)
    snap('after-run6')
    # periodic events
    call('p1', s.addPeriodicEvent, mk('p1'), 2, 'p1')                 # now
    call('p2', s.addPeriodicEvent, mk('p2'), 2, 'p2', False)
    call('p3', s.addPeriodicEvent, mk('p3', Boom('p3')), 2, 'p3',
         count=2)                          # raising, swallowed by the finally
    call('p4', s.addPeriodicEvent, mk('p4', Boom('p4')), 2, 'p4',
         count=1)                          # raising, last run: propagates
    call('p5', s.addPeriodicEvent, mk('p5'), 3, None, True, ['A'], {'k': 'v'},
         3)
    call('p6', s.addPeriodicEvent, mk('p6'), 3, args=('B',), now=False,
         count=0)
    call('p7', s.addPeriodicEvent, mk('p7', Boom('p7')), 2, 'p1')     # clash
    call('p8', s.addPeriodicEvent, mk('p8'), 2, 'p2', now=False)      # clash
    call('p9', s.addPeriodicEvent, mk('p9', KeyboardInterrupt('p9')), 2,
         'p9')
    snap('after-periodic')
    for i in range(8):
        CLOCK.advance(1)
        call(('prun', i), s.run)
        snap(('prun', i))
    call('rm-p1', s.removePeriodicEvent, 'p1')
    call('rm-p2', s.removeEvent, 'p2')
    call('rm-p9', s.removeEvent, 'p9')
    # wrappers: called by hand, with a name that is already scheduled
    w = s.makePeriodicWrapper(mk('w1'), 5, 'w1', count=2)
    call('w1-a', w)
    call('w1-b', w)        # 'w1' is scheduled: assertion from the finally
    snap('after-w1')
    call('rm-w1', s.removeEvent, 'w1')
    call('w1-c', w)        # count exhausted: runs, not rescheduled
    call('w1-d', w)        # count negative: still runs, never rescheduled
    w2 = s.makePeriodicWrapper(mk('w2', Boom('w2')), 5, 'w1')
    call('w2-a', w2)
    call('w2-b', w2)       # Boom replaced by the assertion
    snap('after-w2')
    # events scheduling / removing others while running
    def chain():
        out.append('chain')
        rec('fire', 'chain', CLOCK.now())
        s.addEvent(mk('chained-past'), CLOCK.now() - 1, 'cp')
        s.addEvent(mk('chained-future'), CLOCK.now() + 1, 'cf')
        s.removeEvent('victim')
        s.rescheduleEvent('mover', CLOCK.now() + 2)
    call('chain', s.addEvent, chain, CLOCK.now() + 1, 'chain')
    call('victim', s.addEvent, mk('victim'), CLOCK.now() + 1.5, 'victim')
    call('mover', s.addEvent, mk('mover'), CLOCK.now() + 1.6, 'mover', ['m'])
    CLOCK.advance(1.9)
    call('run7', s.run)
    snap('after-chain')
    CLOCK.advance(3)
    call('run8', s.run)
    snap('after-chain2')
    # an event that removes itself / re-adds its own name
    def selfish():
        rec('fire', 'selfish', CLOCK.now())
        try:
            s.removeEvent('selfish')
        except KeyError as e:
            rec('selfish-keyerror', exn(e))
        s.addEvent(mk('selfish2'), CLOCK.now() - 1, 'selfish')
    call('selfish', s.addEvent, selfish, CLOCK.now() - 1, 'selfish')
    call('run9', s.run)
    snap('after-selfish')
    # the "only remaining driver" branch
    saved = dict(drivers._drivers)
    real_sleep = time.sleep
    time.sleep = CLOCK.sleep
    try:
        for testing in (False, True):
            world.testing = testing
            drivers._drivers.clear()
            drivers._drivers['only'] = s
            call(('lonely', testing), s.run)
            drivers._drivers['other'] = s
            call(('not-lonely', testing), s.run)
    finally:
        world.testing = False
        time.sleep = real_sleep
        drivers._drivers.clear()
        drivers._drivers.update(saved)
    call('reset', s.reset)
    snap('after-reset')
    call('after-reset-add', s.addEvent, mk('z'), CLOCK.now() + 1)
    snap('counter-kept')
    s.reset()
    s.die()
    rec('out', out)


def schedule_threads():
    """Two threads adding / removing while a third runs: every event fires
    at most once and the books balance."""
    import threading
    s = DemoSchedule()
    fired = []
    lock = threading.Lock()
    errors = []

    def mk(i):
        def f():
            with lock:
                fired.append(i)
        return f

    def adder(base):
        try:
            for i in range(200):
                s.addEvent(mk(base + i), CLOCK.now() - 1, 'k%d' % (base + i))
        except Exception as e:
            errors.append(exn(e))

    removed = []

    def remover():
        for i in range(0, 400, 3):
            try:
                s.removeEvent('k%d' % i)
                removed.append(i)
            except KeyError:
                pass
            except Exception as e:
                errors.append(exn(e))

    def runner():
        try:
            for i in range(50):
                s.run()
        except Exception as e:
            errors.append(exn(e))

    ts = [threading.Thread(target=adder, args=(0,)),
          threading.Thread(target=adder, args=(200,)),
          threading.Thread(target=remover),
          threading.Thread(target=runner)]
    for t in ts:
        t.start()
    for t in ts:
        t.join()
    s.run()
    rec('threads', errors, len(fired) == len(set(fired)),
        sorted(set(fired) & set(removed)),
        sorted(set(range(400)) - set(fired) - set(removed)),
        len(s.schedule), len(s.events))
    s.die()


# --------------------------------------------------------------------------
# C. the driver loop
# --------------------------------------------------------------------------
class FakeIrc(object):
    def __init__(self, name):
        self.name = name
        self.driver = 'drv-of-' + name

    def __repr__(self):
        return 'FakeIrc(%s)' % self.name


class FakeDriver(drivers.IrcDriver):
    def __init__(self, name, behaviour='ok', irc=Ellipsis):
        self._name = name
        self.behaviour = behaviour
        self.runs = 0
        if irc is not Ellipsis:
            self.irc = irc
        super(FakeDriver, self).__init__()

    def name(self):
        return self._name

    def run(self):
        self.runs += 1
        rec('driver-run', self._name, self.behaviour, self.runs)
        if self.behaviour == 'raise':
            raise Boom('driver %s' % self._name)
        if self.behaviour == 'kbd':
            raise KeyboardInterrupt(self._name)
        if self.behaviour == 'die':
            self.die()
        if self.behaviour == 'spawn':
            FakeDriver(self._name + '+', 'ok')
        if self.behaviour == 'kill-next':
            drivers.remove('victim')
        if self.behaviour == 'replace-self':
            FakeDriver(self._name, 'ok')

    def die(self):
        rec('driver-die', self._name)
        super(FakeDriver, self).die()

    def __repr__(self):
        return 'FakeDriver(%s)' % self._name


def dsnap(tag):
    rec('drivers', tag, list(drivers._drivers), sorted(drivers._deadDrivers),
        [n for (n, d) in drivers._newDrivers], drivers.empty(),
        [(n, repr(getattr(d, 'irc', 'noattr')))
         for (n, d) in drivers._drivers.items()])


def drivers_demo():
    saved = (dict(drivers._drivers), set(drivers._deadDrivers),
             list(drivers._newDrivers))
    drivers._drivers.clear()
    drivers._deadDrivers.clear()
    while drivers._newDrivers:
        drivers._newDrivers.pop()
    dsnap('empty')

    def run(tag):
        try:
            drivers.run()
            rec('drivers.run', tag, 'ok')
        except BaseException as e:
            rec('drivers.run', tag, exn(e))
        dsnap(tag)

    run('nothing')
    ircA = FakeIrc('A')
    a = FakeDriver('a', 'ok', ircA)
    b = FakeDriver('b', 'raise', FakeIrc('B'))
    c = FakeDriver('c', 'die', None)
    d = FakeDriver('d', 'spawn')
    dsnap('added')
    run('r1')       # adds them (LIFO), nothing runs yet
    run('r2')       # b raises, c dies, d spawns d+
    rec('ircA', ircA.driver, getattr(b, 'irc', 'noattr'),
        getattr(c, 'irc', 'noattr'))
    run('r3')
    # replace a live driver by one with the same name
    a2 = FakeDriver('a', 'ok', FakeIrc('A2'))
    run('r4')
    rec('a-replaced', drivers._drivers['a'] is a2, a.runs, a2.runs,
        ircA.driver)
    run('r5')
    # kill a driver that runs later in the same pass / earlier
    v = FakeDriver('victim', 'ok', FakeIrc('V'))
    k = FakeDriver('killer', 'kill-next')
    run('r6')
    run('r7')
    run('r8')
    # remove and re-add the same name before the loop runs
    drivers.remove('a')
    a3 = FakeDriver('a', 'ok')
    run('r9')
    run('r10')
    rec('a3', drivers._drivers.get('a') is a3)
    # a name that is dead and unknown, a driver replacing itself while running
    drivers.remove('ghost')
    FakeDriver('selfrep', 'replace-self')
    run('r11')
    run('r12')
    run('r13')
    # two same-named drivers added in the same cycle
    FakeDriver('twin', 'ok', FakeIrc('T1'))
    FakeDriver('twin', 'ok', FakeIrc('T2'))
    run('r14')
    run('r15')
    # a driver whose irc attribute is None, one without irc at all
    FakeDriver('noneirc', 'die', None)
    FakeDriver('noirc', 'die')
    run('r16')
    run('r17')
    run('r18')
    # KeyboardInterrupt is caught by the bare except as well
    FakeDriver('kbd', 'kbd')
    run('r19')
    run('r20')
    run('r21')
    for name in list(drivers._drivers):
        drivers.remove(name)
    run('cleanup')
    # Log facade and parseMsg
    Server = drivers.Server
    srv = Server('irc.example.org', 6697, 0, False)
    lg = drivers.log
    import socket
    lg.connect(srv)
    lg.connectError(srv, socket.gaierror(-2, 'Name or service not known'))
    lg.connectError(srv, ValueError('bad'))
    lg.connectError(srv, 'a string')
    lg.disconnect(srv)
    lg.disconnect(srv, ValueError('closed'))
    lg.disconnect(srv, 'Ping timeout.')
    lg.disconnect(srv, 'Ping timeout')
    lg.disconnect(srv, '')
    lg.reconnect('net')
    lg.reconnect('net', 'soon')
    lg.die('ircobj')
    for s in ('', '   ', ':a!b@c PRIVMSG #x :hello\r\n', 'PING :x',
              ':only-prefix', '\x00', ':a  '):
        try:
            m = drivers.parseMsg(s)
            rec('parseMsg', s, str(m) if m is not None else None)
        except Exception as e:
            rec('parseMsg', s, exn(e))
    drivers._drivers.clear()
    drivers._drivers.update(saved[0])
    drivers._deadDrivers.clear()
    drivers._deadDrivers.update(saved[1])
    for x in saved[2]:
        drivers._newDrivers.append(x)


# --------------------------------------------------------------------------
# D. the Scheduler plugin in a live bot
# --------------------------------------------------------------------------
class Bot(object):
    def __init__(self):
        conf.supybot.directories.plugins.setValue(
            [os.path.join(ROOT, 'plugins')])
        conf.supybot.reply.whenAddressedBy.chars.setValue('@')
        conf.supybot.reply.error.detailed.setValue(True)
        conf.supybot.reply.whenNotCommand.setValue(True)
        conf.registerNetwork('test')
        conf.registerNetwork('othernet')
        world.testing = True       # no capability checks, errors are replied
        self.irc = irclib.Irc('test')
        while self.irc.takeMsg():
            pass
        for name in ('Misc', 'Owner', 'Config', 'Utilities'):
            module = plugin.loadPluginModule(name)
            plugin.loadPluginClass(self.irc, module)
        self.module = plugin.loadPluginModule('Scheduler')
        self.prefix = 'Tester!user@host.example'
        self.irc.feedMsg(ircmsgs.IrcMsg(':test!u@h JOIN #chan'))
        self.irc.feedMsg(ircmsgs.IrcMsg(
            ':srv 353 test = #chan :test @Tester other'))
        self.drain('boot')

    def load(self, tag, register=True):
        try:
            if register:
                cb = plugin.loadPluginClass(self.irc, self.module)
            else:
                cb = self.module.Class(self.irc)
            rec('load', tag, 'ok', sorted(cb.events),
                cb._flush in world.flushers)
            return cb
        except Exception as e:
            rec('load', tag, exn(e))

    def unload(self, cb, tag, registered=True):
        try:
            cb.die()
            if registered:
                self.irc.removeCallback('Scheduler')
            rec('unload', tag, 'ok', cb._flush in world.flushers)
        except Exception as e:
            rec('unload', tag, exn(e))

    def drain(self, tag):
        out = []
        for i in range(50):
            m = self.irc.takeMsg()
            if m is None:
                break
            out.append(str(m).strip())
        rec('sent', tag, out)
        return out

    def cmd(self, text, frm=None, to='#chan'):
        msg = ircmsgs.privmsg(to, '@' + text, prefix=frm or self.prefix)
        self.irc.feedMsg(msg)
        return self.drain(text)

    def tick(self, dt, tag):
        CLOCK.advance(dt)
        try:
            schedule.run()
        except Exception as e:
            rec('schedule.run', tag, exn(e))
        self.sched(tag)
        return self.drain(('tick', tag, dt))

    def sched(self, tag):
        s = schedule.schedule
        rec('schedule', tag,
            [(round(x[0] - CLOCK.now(), 6), repr(x[1]), repr(x[2]),
              repr(x[3])) for x in sorted(s.schedule,
                                          key=lambda x: (x[0], repr(x[1])))],
            sorted(repr(k) for k in s.events), s.counter)

    def pickle_file(self, tag):
        fn = self.module.plugin.filename
        try:
            with open(fn, 'rb') as fd:
                data = fd.read()
        except IOError as e:
            rec('pickle', tag, 'missing')
            return
        try:
            d = pickle.loads(data)
            desc = [(k, [(kk, str(vv) if kk == 'msg' else repr(vv))
                         for (kk, vv) in v.items()])
                    for (k, v) in d.items()]
        except Exception as e:
            desc = exn(e)
        rec('pickle', tag, hashlib.sha256(data).hexdigest(), len(data), desc)
        rec('datadir', sorted(os.listdir(self.module.plugin.datadir)))


def plugin_demo():
    bot = Bot()
    P = bot.module.plugin
    rec('plugin-surface',
        sorted(n for n in vars(P.Scheduler) if not n.startswith('_')),
        sorted(n for n in vars(P) if not n.startswith('_')),
        P.filename == os.path.join(SCRATCH, 'data', 'Scheduler.pickle'),
        P.datadir == os.path.join(SCRATCH, 'data'))
    for n in ('_getNextRunIn', '_restoreEvents', '_flush', 'die',
              '_makeCommandFunction', '_makeReminderFunction', '_add',
              '_repeat'):
        rec('sig', 'Scheduler', n,
            str(inspect.signature(getattr(P.Scheduler, n))))
    # no pickle file yet
    cb = bot.load('first')
    bot.sched('first')
    rec('commands', cb.listCommands(), cb.name(),
        sorted(n for n in vars(cb) if not n.startswith('_')))
    bot.cmd('scheduler list')
    bot.cmd('scheduler add 5 echo one')
    bot.cmd('scheduler add 5 "echo two [echo nested]"')
    bot.cmd('scheduler remind 7 remember the milk')
    bot.cmd('scheduler add 0 echo zero')
    bot.cmd('scheduler add -3 echo negative')
    bot.cmd('scheduler add x echo notanumber')
    bot.cmd('scheduler add 9 nosuchcommand at all')
    bot.cmd('scheduler repeat Rep 10 echo rep')
    bot.cmd('scheduler repeat --delay 3 rep2 4 "echo [echo delayed]"')
    bot.cmd('scheduler repeat rep 10 echo duplicate')
    bot.cmd('scheduler repeat REP 10 echo duplicate')
    bot.cmd('scheduler repeat 1234 5 echo intname')
    bot.cmd('scheduler repeat --delay 0 rep3 5 echo baddelay')
    bot.cmd('scheduler repeat #x 6 echo hash', frm='Other!o@h')
    bot.cmd('scheduler repeat 08 6 echo zeroeight')
    bot.sched('after-adds')
    rec('events', [(k, sorted((kk, str(vv)) for (kk, vv) in v.items()))
                   for (k, v) in cb.events.items()])
    bot.cmd('scheduler list')
    bot.tick(0.5, 't0.5')
    bot.cmd('scheduler list')
    bot.tick(2.0, 't2.5')
    bot.tick(1.0, 't3.5')
    bot.cmd('scheduler list')
    bot.tick(2.0, 't5.5')
    bot.cmd('scheduler list')
    world.flush()
    bot.pickle_file('flush1')
    bot.cmd('scheduler remove 2')
    bot.cmd('scheduler remove 2')
    bot.cmd('scheduler remove 999')
    bot.cmd('scheduler remove nosuch')
    bot.cmd('scheduler remove REP2')
    bot.cmd('scheduler remove 08')
    bot.cmd('scheduler remove')
    bot.sched('after-removes')
    bot.cmd('scheduler list')
    bot.tick(2.0, 't7.5')
    bot.tick(3.0, 't10.5')
    bot.cmd('scheduler list')
    # an id present in the plugin's books but gone from the schedule
    bot.cmd('scheduler add 50 echo orphan')
    orphan = max(int(k) for k in cb.events if k.isdigit())
    schedule.removeEvent(orphan)
    bot.cmd('scheduler remove %d' % orphan)
    # an event for a network that is gone runs on another one
    bot.cmd('scheduler add 2 echo elsewhere')
    eid = max(int(k) for k in cb.events if k.isdigit())
    cb.events[str(eid)]['network'] = 'gone'
    f = schedule.schedule.events[eid]
    schedule.removeEvent(eid)
    g = cb._makeCommandFunction('gone', cb.events[str(eid)]['msg'],
                                'echo elsewhere')
    g.eventId = schedule.addEvent(g, CLOCK.now() + 2, eid)
    r = cb._makeReminderFunction('gone', cb.events[str(eid)]['msg'], 'rem')
    rid = schedule.addEvent(r, CLOCK.now() + 2)
    r.eventId = rid
    cb.events[str(rid)] = {'type': 'single'}
    bot.tick(2.5, 'elsewhere')
    bot.cmd('scheduler list')
    # the owner's reload command: the module is executed again BEFORE the
    # old instance dies
    bot.cmd('scheduler add 20 echo across-reload')
    bot.cmd('reload Scheduler')
    bot.sched('after-reload')
    rec('reloaded', bot.irc.getCallback('Scheduler') is not cb,
        cb._flush in world.flushers)
    cb = bot.irc.getCallback('Scheduler')
    bot.module = sys.modules[cb.__class__.__module__.rsplit('.', 1)[0]]
    P = bot.module.plugin
    rec('reloaded-module', P.Scheduler is cb.__class__,
        cb._flush in world.flushers, sorted(cb.events))
    bot.cmd('scheduler list')
    bot.tick(20.5, 'across-reload')
    # reload with everything still scheduled: "already exists" path
    bot.cmd('scheduler add 30 echo survivor')
    bot.cmd('scheduler remind 40 late reminder')
    world.flush()
    bot.pickle_file('flush2')
    cb2 = bot.load('second-while-first-alive', register=False)
    bot.sched('second')
    rec('events2', sorted(cb2.events) == sorted(cb.events), sorted(cb2.events))
    bot.unload(cb2, 'second', registered=False)
    bot.sched('after-unload-second')
    rec('first-still-registered', bot.irc.getCallback('Scheduler') is cb)
    # cb2.die() removed the shared events from the schedule; cb.die() now
    # meets KeyErrors for all of them
    bot.unload(cb, 'first')
    bot.pickle_file('after-unload-first')
    CLOCK.advance(3)
    cb3 = bot.load('third')
    bot.sched('third')
    bot.cmd('scheduler list')
    bot.tick(6, 'third+6')
    bot.tick(6, 'third+12')
    bot.cmd('scheduler list')
    bot.unload(cb3, 'third')
    bot.pickle_file('after-unload-third')
    bot.sched('after-unload-third')
    # counter reset (fresh process): single events get new ids
    schedule.schedule.reset()
    schedule.schedule.counter = 0
    CLOCK.advance(100)
    cb4 = bot.load('fourth-fresh-counter')
    bot.sched('fourth')
    bot.cmd('scheduler list')
    bot.tick(1, 'fourth+1')
    bot.tick(11, 'fourth+12')
    bot.cmd('scheduler list')
    # die() with a name that is not a number half-way through: the events
    # before it have left the schedule, the ones after it have not
    bot.cmd('scheduler add 60 echo before')
    bot.cmd('scheduler add 61 echo after')
    kept = dict(cb4.events)
    ids = sorted(k for k in kept if k.isdigit())
    cb4.events = {}
    cb4.events[ids[0]] = kept[ids[0]]
    cb4.events['notanumber'] = dict(kept[ids[0]])
    cb4.events[ids[1]] = kept[ids[1]]
    try:
        cb4.die()
        rec('die-halfway', 'ok')
    except Exception as e:
        rec('die-halfway', exn(e))
    bot.sched('die-halfway')
    rec('die-halfway-flushers', cb4._flush in world.flushers,
        bot.irc.getCallback('Scheduler') is cb4)
    bot.pickle_file('die-halfway')
    world.flushers.append(cb4._flush)      # die() removed it before failing
    cb4.events = kept
    # a file holding something that is not a dict
    bot.unload(cb4, 'fourth-a')
    for junk in (None, [1, 2], 'text'):
        with open(P.filename, 'wb') as fd:
            pickle.dump(junk, fd)
        cbj = bot.load(('junk', repr(junk)))
        if cbj is not None:
            bot.unload(cbj, ('junk', repr(junk)))
    with open(P.filename, 'wb') as fd:
        pickle.dump({}, fd)
    schedule.schedule.reset()
    cb4 = bot.load('fourth-again')
    # flush error paths
    cb4.events['bad'] = {'type': 'repeat', 'f': lambda: 0, 'time': 1,
                         'first_run': 0, 'command': 'x'}
    cb4._flush()
    bot.pickle_file('unpicklable')
    del cb4.events['bad']
    P.datadir = os.path.join(SCRATCH, 'nonexistent')
    cb4._flush()
    bot_datadir = os.path.join(SCRATCH, 'data')
    P.datadir = bot_datadir
    real_move = shutil.move

    def bad_move(a, b):
        raise shutil.Error('cannot move %s' % os.path.basename(b))
    shutil.move = bad_move
    cb4._flush()
    shutil.move = real_move
    for fn in os.listdir(bot_datadir):
        if fn.endswith('scheduler'):
            os.remove(os.path.join(bot_datadir, fn))
    bot.unload(cb4, 'fourth')
    bot.sched('after-unload-fourth')
    # corrupt file, directory instead of file, old-format file
    with open(P.filename, 'wb') as fd:
        fd.write(b'this is not a pickle')
    cb5 = bot.load('corrupt')
    bot.cmd('scheduler list')
    bot.unload(cb5, 'corrupt')
    os.remove(P.filename)
    os.mkdir(P.filename)
    cb6 = bot.load('isdir')
    bot.unload(cb6, 'isdir')
    bot.pickle_file('isdir')
    inside = os.listdir(P.filename)      # the flush moved its file INTO it
    rec('isdir-content', len(inside), [x.endswith('scheduler') for x in inside])
    shutil.rmtree(P.filename)
    msg = ircmsgs.privmsg('#chan', '@old', prefix=bot.prefix)
    msg.tag('receivedBy', bot.irc)
    old = {
        '7': {'type': 'single', 'time': CLOCK.now() + 4, 'command': 'echo old-single',
              'msg': msg},
        '0': {'type': 'single', 'time': CLOCK.now() - 4, 'command': 'old reminder',
              'msg': msg, 'is_reminder': True, 'network': 'othernet'},
        'oldrep': {'type': 'repeat', 'time': 6, 'command': 'echo old-repeat',
                   'msg': msg},
        'offset': {'type': 'repeat', 'time': 10, 'command': 'echo offset',
                   'msg': msg, 'first_run': CLOCK.now() - 13, 'network': 'test'},
        'soon': {'type': 'repeat', 'time': 10, 'command': 'echo soon',
                 'msg': msg, 'first_run': CLOCK.now() - 17},
        'weird': {'type': 'other', 'time': 1, 'command': 'x', 'msg': msg},
    }
    try:
        with open(P.filename, 'wb') as fd:
            pickle.dump(old, fd)
    except Exception as e:
        rec('old-dump-failed', exn(e))
    schedule.schedule.counter = 3
    cb7 = bot.load('old-format')
    bot.sched('old-format')
    bot.cmd('scheduler list')
    bot.tick(3.5, 'old+3.5')
    bot.tick(3.0, 'old+6.5')
    bot.tick(4.0, 'old+10.5')
    bot.cmd('scheduler list')
    world.flush()
    bot.pickle_file('old-format-flushed')
    # a broken entry aborts the restore with the error it raises
    bot.unload(cb7, 'old-format')
    broken = {'5': {'type': 'single', 'command': 'echo nokey', 'msg': msg},
              'x': {'type': 'single', 'time': 1, 'command': 'c', 'msg': msg}}
    with open(P.filename, 'wb') as fd:
        pickle.dump(broken, fd)
    cb8 = bot.load('broken')
    bot.sched('broken')
    os.remove(P.filename)
    # _getNextRunIn
    if cb7 is not None:
        for (first, now, period, nrn) in [
                (0, 0, 10, False), (0, 0, 10, True), (0, 7, 10, True),
                (0, 7, 10, False), (3, 100, 7, True), (100, 3, 7, False),
                (0.5, 9.75, 2.5, True), (0, 10, 10, True), (5, 1, 4, True)]:
            rec('nextRunIn', first, now, period, nrn,
                cb7._getNextRunIn(first, now, period, nrn),
                cb7._getNextRunIn(first, now, period, not_right_now=nrn))
    schedule.schedule.reset()


def main():
    surface()
    schedule_directed()
    for seed in range(40):
        rec('seed', seed)
        SchedHarness(seed).go(60)
    schedule_threads()
    drivers_demo()
    plugin_demo()
    digest = hashlib.sha256('\n'.join(RECORD).encode('utf-8',
                                                     'backslashreplace'))
    return digest.hexdigest()


if __name__ == '__main__':
    code = 1
    try:
        got = main()
        if '--dump' in sys.argv:
            with open(sys.argv[sys.argv.index('--dump') + 1], 'w') as fd:
                fd.write('\n'.join(RECORD) + '\n')
        if got == EXPECTED:
            print('PASS (%d observations, digest %s)' % (len(RECORD), got[:16]))
            code = 0
        else:
            print('FAIL: digest %s, expected %s (%d observations)'
                  % (got, EXPECTED, len(RECORD)))
    except BaseException:
        traceback.print_exc()
        print('FAIL: exception')
    finally:
        shutil.rmtree(SCRATCH, ignore_errors=True)
        sys.stdout.flush()
        sys.stderr.flush()
        os._exit(code)
