"""C03 control demo: checks ircdb.checkCapability (and checkCapabilities, the
CapabilitySet classes, IrcUser/IrcChannel._checkCapability, getChannel) against
an independent model of the documented precedence, on a few thousand
seeded-random database states and questions, plus hand-picked edge cases.
Must print PASS both on the unmodified tree and with the refactoring patch."""
import os, sys, tempfile, shutil, random, itertools
sys.path.insert(0, os.getcwd())
_tmp = tempfile.mkdtemp(prefix='mut5C03_c1_')
import supybot.conf as conf
for d in ('conf', 'data', 'log', 'backup'):
    p = os.path.join(_tmp, d)
    os.makedirs(p, exist_ok=True)
    getattr(conf.supybot.directories, d).setValue(p)
os.makedirs(os.path.join(_tmp, 'tmp'), exist_ok=True)
conf.supybot.directories.data.tmp.setValue(os.path.join(_tmp, 'tmp'))
import supybot.log as log
conf.supybot.log.stdout.setValue(False)
import supybot.world as world
world.testing = False
import supybot.ircdb as ircdb

failures = []
nchecks = [0]
def expect(what, got, wanted):
    nchecks[0] += 1
    if got != wanted or type(got) is not type(wanted):
        if len(failures) < 25:
            print('BAD  %s: got %r expected %r' % (what, got, wanted))
        failures.append(what)

# ---------------------------------------------------------------- the model
_UP = 'ABCDEFGHIJKLMNOPQRSTUVWXYZ[]\\~'
_LO = 'abcdefghijklmnopqrstuvwxyz{}|^'
_FOLD = dict(zip(_UP, _LO))
_UNFOLD = dict(zip(_LO, _UP))
def fold(s):
    return ''.join(_FOLD.get(c, c) for c in s)
def swapcase(s, rng):
    return ''.join((_FOLD.get(c) or _UNFOLD.get(c) or c) if rng.random() < 0.5 else c for c in s)

def splitChan(cap):
    """(channel or None, rest)"""
    if ',' in cap:
        (chan, rest) = cap.split(',', 1)
        if chan[:1] in '#&!' and chan and len(chan) <= 50 and ' ' not in chan:
            return (chan, rest)
    return (None, cap)
def isAnti(cap):
    return splitChan(cap)[1].startswith('-')
def invert(cap):
    (chan, rest) = splitChan(cap)
    rest = rest[1:] if rest.startswith('-') else '-' + rest
    return rest if chan is None else chan + ',' + rest

class MSet(object):
    """model of a capability set: folded positive name -> polarity"""
    def __init__(self):
        self.d = {}
    @staticmethod
    def _key(cap):
        cap = fold(cap)
        return (invert(cap), False) if isAnti(cap) else (cap, True)
    def add(self, cap):
        (k, pol) = self._key(cap)
        self.d[k] = pol
    def remove(self, cap):
        (k, pol) = self._key(cap)
        if self.d.get(k) is not pol:
            raise KeyError(cap)
        del self.d[k]
    def lookup(self, cap):
        """None if neither cap nor its inverse is in the set, else the answer"""
        (k, pol) = self._key(cap)
        if k not in self.d:
            return None
        return self.d[k] is pol

class MUser(object):
    def __init__(self):
        self.caps = MSet(); self.ignore = False; self.secure = False
        self.patterns = []; self.auth = []
class MChannel(object):
    def __init__(self):
        self.caps = MSet(); self.defaultAllow = True
        for c in ('op', 'halfop', 'voice', 'protected'):
            self.caps.add('-' + c)
class Model(object):
    def __init__(self):
        self.users = {}; self.channels = {}
        self.defaults = MSet(); self.registered = MSet(); self.flag = True
    def channel(self, name):
        return self.channels.setdefault(fold(name), MChannel())
    def recognise(self, hostmask):
        # hostmask patterns in this demo are '<nick>!*@*' (matched on the folded
        # nick) and auth entries are exact hostmasks
        if '!' not in hostmask or '@' not in hostmask:
            return None
        nick = fold(hostmask.split('!')[0])
        found = []
        for u in self.users.values():
            byPattern = any(fold(p.split('!')[0]) == nick for p in u.patterns)
            byAuth = hostmask in u.auth
            if byPattern or byAuth:
                found.append((u, byPattern))
        assert len(found) <= 1
        if not found:
            return None
        (u, byPattern) = found[0]
        if u.secure and not byPattern:
            return None
        return u
    def globalDefaults(self, cap, registered):
        for s in [self.defaults] + ([self.registered] if registered else []):
            r = s.lookup(cap)
            if r is not None:
                return r
        return (not self.flag) if isAnti(cap) else self.flag
    def channelSetting(self, chan, rest):
        c = self.channel(chan)
        r = c.caps.lookup(rest)
        if r is not None:
            return r
        return (not c.defaultAllow) if isAnti(rest) else c.defaultAllow
    def check(self, hostmask, cap):
        u = self.recognise(hostmask)
        (chan, rest) = splitChan(cap)
        if u is None:
            if chan is not None:
                return self.channelSetting(chan, rest)
            return self.globalDefaults(cap, False)
        owner = u.caps.lookup('owner') is True
        explicit = u.caps.lookup(cap)
        if owner or fold(cap) in ('owner', '-owner') or explicit is not None:
            if u.ignore:
                return isAnti(cap)
            if fold(cap) in ('owner', '-owner'):
                return owner != isAnti(cap)
            if owner:
                return not isAnti(cap)
            return explicit
        if chan is None:
            return self.globalDefaults(cap, True)
        if not u.ignore and u.caps.lookup(chan + ',op') is True:
            return not isAnti(rest)
        return self.channelSetting(chan, rest)

# ------------------------------------------------- building the same state for real
CAPNAMES = ['foo', 'Bar', 'admin', 'owner', 'op', 'voice', 'x[y]', 'Plug.Cmd~', 'trusted', 'z|z']
CHANNELS = ['#chan', '#Ops[eu]', '&local', '#a\\b~']
def randomCap(rng, allowOwnerAnti=True):
    name = rng.choice(CAPNAMES)
    if rng.random() < 0.4:
        name = rng.choice(CHANNELS) + ',' + name
    if rng.random() < 0.45:
        name = invert(name)
    return swapcase(name, rng) if rng.random() < 0.5 else name

def buildState(rng):
    m = Model()
    users = ircdb.UsersDictionary()
    channels = ircdb.ChannelsDictionary()
    nusers = rng.randint(0, 4)
    hostmasks = []
    for i in range(nusers):
        mu = MUser()
        u = users.newUser()
        u.name = 'user%d' % i
        nick = rng.choice(['nick', 'N[i]ck', 'n~k']) + str(i)
        if rng.random() < 0.8:
            pat = nick + '!*@*'
            u.addHostmask(pat); mu.patterns.append(pat)
        hostmasks.append(swapcase(nick, rng) + '!ident@host%d.example' % i)
        # a history of capability edits
        for _ in range(rng.randint(0, 7)):
            cap = randomCap(rng)
            if fold(cap) == '-owner':
                continue
            if rng.random() < 0.25:
                try:
                    mu.caps.remove(cap); removed = True
                except KeyError:
                    removed = False
                try:
                    u.removeCapability(cap); removedReal = True
                except KeyError:
                    removedReal = False
                expect('removeCapability(%r) agrees' % cap, removedReal, removed)
            else:
                u.addCapability(cap); mu.caps.add(cap)
        if rng.random() < 0.15:
            u.addCapability('OWNER'); mu.caps.add('owner')
        if rng.random() < 0.3:
            a = 'auth%d!i@elsewhere%d' % (i, rng.randint(0, 1))
            u.addAuth(a); mu.auth.append(a); hostmasks.append(a)
        if rng.random() < 0.25:
            u.secure = True; mu.secure = True
        if rng.random() < 0.2:
            u.ignore = True; mu.ignore = True
        users.setUser(u, flush=False)
        m.users[u.id] = mu
    hostmasks += ['stranger!s@nowhere', 'irc.server.example', 'NickServ']
    for name in CHANNELS:
        if rng.random() < 0.7:
            spelled = swapcase(name, rng)
            c = channels.getChannel(spelled)
            mc = m.channel(spelled)
            for _ in range(rng.randint(0, 4)):
                cap = randomCap(rng)
                cap = splitChan(cap)[1]
                if rng.random() < 0.2:
                    try:
                        mc.caps.remove(cap); removed = True
                    except KeyError:
                        removed = False
                    try:
                        c.removeCapability(cap); removedReal = True
                    except KeyError:
                        removedReal = False
                    expect('channel removeCapability(%r) agrees' % cap, removedReal, removed)
                else:
                    c.addCapability(cap); mc.caps.add(cap)
            if rng.random() < 0.4:
                c.setDefaultCapability(False); mc.defaultAllow = False
            channels.setChannel(swapcase(name, rng), c)
    dflt = ['-owner']
    m.defaults.add('-owner')
    seen = set()
    for _ in range(rng.randint(0, 5)):
        cap = splitChan(randomCap(rng))[1]
        k = fold(cap).lstrip('-')
        if k in seen or k == 'owner':
            continue
        seen.add(k); dflt.append(cap); m.defaults.add(cap)
    reg = []
    seen = set()
    for _ in range(rng.randint(0, 4)):
        cap = splitChan(randomCap(rng))[1]
        k = fold(cap).lstrip('-')
        if k in seen:
            continue
        seen.add(k); reg.append(cap); m.registered.add(cap)
    m.flag = rng.random() < 0.6
    if rng.random() < 0.5:
        conf.supybot.capabilities.setValue(dflt)
        conf.supybot.capabilities.registeredUsers.setValue(reg)
    else:
        conf.supybot.capabilities.set(' '.join(dflt))
        conf.supybot.capabilities.registeredUsers.set(' '.join(reg) or ' ')
    conf.supybot.capabilities.default.setValue(m.flag)
    return (m, users, channels, hostmasks)

oldDefault = list(conf.supybot.capabilities())
oldRegistered = list(conf.supybot.capabilities.registeredUsers())
oldFlag = conf.supybot.capabilities.default()
try:
    rng = random.Random(20260930)
    for n in range(400):
        (m, users, channels, hostmasks) = buildState(rng)
        questions = [randomCap(rng) for _ in range(25)]
        questions += ['owner', '-owner', 'Owner', '#chan,op', '#CHAN,-op', '#ops{EU},OP',
                      '#nowhere,foo', '#nowhere,-foo', '#nowhere,op', 'never-heard', '-never-heard']
        for h in hostmasks:
            for q in questions:
                want = m.check(h, q)
                got = ircdb.checkCapability(h, q, users, channels)
                expect('state %d: %s %s' % (n, h, q), got, want)
                # anti-capability gives the opposite answer
                expect('state %d: %s %s (inverse)' % (n, h, invert(q)),
                       ircdb.checkCapability(h, ircdb.invertCapability(q), users, channels), not want)
                # the case of names does not matter
                q2 = swapcase(q, rng)
                expect('state %d: %s %s (respelled %s)' % (n, h, q, q2),
                       ircdb.checkCapability(h, q2, users, channels), want)
                # nor do the caches: ask again cold
                users._hostmaskCache.clear(); users._nameCache.clear()
                expect('state %d: %s %s (cold)' % (n, h, q),
                       ircdb.checkCapability(h, q, users, channels), want)
        # checkCapabilities on the global database objects
        if n % 20 == 0:
            saved = (ircdb.users.users, ircdb.channels.channels)
            (ircdb.users.users, ircdb.channels.channels) = (users.users, channels.channels)
            ircdb.users._hostmaskCache.clear(); ircdb.users._nameCache.clear()
            try:
                for h in hostmasks:
                    for k in (0, 1, 2, 4):
                        qs = questions[:k]
                        answers = [m.check(h, q) for q in qs]
                        expect('state %d: checkCapabilities any %s %r' % (n, h, qs),
                               ircdb.checkCapabilities(h, qs), any(answers))
                        expect('state %d: checkCapabilities all %s %r' % (n, h, qs),
                               ircdb.checkCapabilities(h, qs, requireAll=True), all(answers))
            finally:
                (ircdb.users.users, ircdb.channels.channels) = saved
                ircdb.users._hostmaskCache.clear(); ircdb.users._nameCache.clear()

    # ------------------------------------------------------- hand-picked edge cases
    conf.supybot.capabilities.setValue(['-owner', '-admin'])
    conf.supybot.capabilities.registeredUsers.setValue([])
    conf.supybot.capabilities.default.setValue(True)
    for cap in ('foo', '-foo', '#c,foo', '#c,-foo', '#c.d,-e.f', 'Foo', '-', '--foo', '#c,--foo'):
        expect('isAntiCapability(%r)' % cap, ircdb.isAntiCapability(cap), isAnti(cap))
    s = ircdb.CapabilitySet(['Foo', '-bar', '#C,-x'])
    for (cap, inSet, answer) in (('foo', True, True), ('-FOO', True, False), ('bar', True, False),
                                 ('-bar', True, True), ('#c,X', True, False), ('#c,-x', True, True),
                                 ('baz', False, None), ('-baz', False, None)):
        expect('%r in CapabilitySet' % cap, cap in s, inSet)
        try:
            got = s.check(cap)
        except KeyError:
            got = None
        expect('CapabilitySet.check(%r)' % cap, got, answer)
    for caps in ((), ('foo',), ('owner',), ('-foo', 'Owner')):
        us = ircdb.UserCapabilitySet(caps)
        isOwner = 'owner' in [c.lower() for c in caps]
        for ignoreOwner in (False, True):
            for cap in ('owner', '-owner', 'OWNER', 'foo', '-foo', 'bar', '-bar'):
                lowered = cap.lower()
                if lowered in ('owner', '-owner'):
                    want = isOwner != isAnti(lowered)
                elif isOwner and not ignoreOwner:
                    want = not isAnti(lowered)
                elif lowered.lstrip('-') == 'foo' and any(c.lstrip('-') == 'foo' for c in caps):
                    want = ('foo' in caps) != isAnti(lowered)
                else:
                    want = None
                try:
                    got = us.check(cap, ignoreOwner=ignoreOwner)
                except KeyError:
                    got = None
                expect('UserCapabilitySet%r.check(%r, ignoreOwner=%r)' % (caps, cap, ignoreOwner), got, want)
    u = ircdb.IrcUser(ignore=True, capabilities=('foo', 'owner'))
    for cap in ('foo', '-foo', 'owner', '-owner', '#c,-x', '#c,x', 'unknown'):
        expect('ignored user %r' % cap, u._checkCapability(cap), isAnti(cap))
    c = ircdb.IrcChannel()
    c.addCapability('-x'); c.addCapability('Y')
    for allow in (True, False):
        c.setDefaultCapability(allow)
        for (cap, want) in (('x', False), ('-x', True), ('y', True), ('-Y', False), ('op', False),
                            ('-op', True), ('q', allow), ('-q', not allow)):
            expect('IrcChannel(defaultAllow=%r)._checkCapability(%r)' % (allow, cap),
                   c._checkCapability(cap), want)
    chans = ircdb.ChannelsDictionary()
    c1 = chans.getChannel('#New[1]')
    expect('getChannel creates once', chans.getChannel('#NEW{1}') is c1, True)
    expect('getChannel stored it', len(list(chans.items())), 1)
    # flags used by AutoMode
    users = ircdb.UsersDictionary(); channels = ircdb.ChannelsDictionary()
    o = users.newUser(); o.name = 'o'; o.addHostmask('oscar!*@*'); o.addCapability('owner'); o.addCapability('#c,op')
    users.setUser(o, flush=False)
    p = users.newUser(); p.name = 'p'; p.addHostmask('peter!*@*'); p.addCapability('#c,op')
    users.setUser(p, flush=False)
    cc = channels.getChannel('#c'); cc.addCapability('-v'); channels.setChannel('#c', cc)
    for (h, cap, kw, want) in (
            ('oscar!i@h', 'whatever', {}, True), ('oscar!i@h', '-whatever', {}, False),
            ('oscar!i@h', 'admin', dict(ignoreOwner=True), False),
            ('oscar!i@h', '#c,v', dict(ignoreOwner=True), True),
            ('oscar!i@h', '#c,v', dict(ignoreOwner=True, ignoreChannelOp=True), False),
            ('peter!i@h', '#c,v', {}, True), ('peter!i@h', '#c,v', dict(ignoreChannelOp=True), False),
            ('peter!i@h', '#c,w', dict(ignoreChannelOp=True), True),
            ('peter!i@h', '#c,w', dict(ignoreChannelOp=True, ignoreDefaultAllow=True), False),
            ('peter!i@h', '#c,-w', dict(ignoreChannelOp=True, ignoreDefaultAllow=True), True),
            ('peter!i@h', 'w', dict(ignoreDefaultAllow=True), False),
            ('x!i@h', 'w', dict(ignoreDefaultAllow=True), False),
            ('x!i@h', '-w', dict(ignoreDefaultAllow=True), True),
            ('x!i@h', '#c,w', dict(ignoreDefaultAllow=True), False),
            ('x!i@h', '#c,w', {}, True), ('x!i@h', '#c,v', {}, False),
            (o.id, 'anything', {}, True), (p.id, '#c,v', {}, True), (p.id, 'admin', {}, False)):
        expect('checkCapability(%r, %r, %r)' % (h, cap, kw),
               ircdb.checkCapability(h, cap, users, channels, **kw), want)
finally:
    conf.supybot.capabilities.setValue(oldDefault)
    conf.supybot.capabilities.registeredUsers.setValue(oldRegistered)
    conf.supybot.capabilities.default.setValue(oldFlag)

code = 1 if failures else 0
if failures:
    print('FAIL: %d of %d checks disagree with the precedence model' % (len(failures), nchecks[0]))
else:
    print('PASS (%d checks)' % nchecks[0])
sys.stdout.flush()
shutil.rmtree(_tmp, ignore_errors=True)
os._exit(code)
