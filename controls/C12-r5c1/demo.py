import os, sys, tempfile, time, re
sys.path.insert(0, os.getcwd())
_d = tempfile.mkdtemp(prefix='c12demo')
_regf = os.path.join(_d, 'test.conf')
with open(_regf, 'w') as f:
    for (k, v) in [('data', 'data'), ('conf', 'conf'), ('log', 'log'),
                   ('backup', 'backup'), ('data.tmp', 'tmp'),
                   ('data.web', 'web')]:
        f.write('supybot.directories.%s: %s\n' % (k, os.path.join(_d, v)))
    f.write('supybot.log.stdout: False\n')
    f.write('supybot.log.level: CRITICAL\n')
    f.write('supybot.reply.whenAddressedBy.chars: @\n')
    f.write('supybot.abuse.flood.command: False\n')
    f.write('supybot.protocols.irc.throttleTime: 0.0\n')
import supybot.registry as registry
registry.open_registry(_regf)
import supybot.log as log
import supybot.conf as conf
import supybot.world as world
import supybot.irclib as irclib
import supybot.ircmsgs as ircmsgs
import supybot.ircutils as ircutils
import supybot.callbacks as callbacks
import supybot.plugin as plugin
from supybot.commands import wrap

conf.registerNetwork('test')
conf.supybot.networks.test.ssl.setValue(False)

class Say(callbacks.Plugin):
    """Replies with the text the demo chose."""
    text = ''
    kw = {}
    def say(self, irc, msg, args):
        """takes no arguments

        Says the text."""
        irc.reply(Say.text, **Say.kw)
    say = wrap(say)

def drain(irc):
    out = []
    while True:
        m = irc.takeMsg()
        if m is None:
            time.sleep(0.002)       # the throttle compares with <=
            m = irc.takeMsg()
            if m is None:
                return out
        out.append(m)

def mkirc(net='test', nick='bot', user='bot', host='bot.example'):
    irc = irclib.Irc(net)
    drain(irc)
    irc.feedMsg(ircmsgs.IrcMsg(':srv 001 %s :Welcome' % nick))
    for name in ('Owner', 'Misc'):
        if irc.getCallback(name) is None:
            plugin.loadPluginClass(irc, plugin.loadPluginModule(name))
    if irc.getCallback('Say') is None:
        irc.addCallback(Say(irc))
    # the server echoes our JOIN: this is how the bot learns its hostmask
    irc.feedMsg(ircmsgs.IrcMsg(':%s!%s@%s JOIN #chan' % (nick, user, host)))
    drain(irc)
    return irc

def feed(irc, prefix, target, text):
    irc.feedMsg(ircmsgs.IrcMsg(prefix=prefix, command='PRIVMSG',
                               args=(target, text)))
    return [m for m in drain(irc) if m.command in ('PRIVMSG', 'NOTICE')]

_moreRe = re.compile(r' \x02\((\d+) more messages?\)\x02$')
def visible(s):
    return ircutils.stripFormatting(s)
def squeeze(s):
    return re.sub(r'\s+', '', s)

def collect(irc, prefix, target, cmd='@say', more='@more', limit=200):
    """Runs the command, then 'more' until the bot says there is no more.
    Returns the list of messages carrying the reply."""
    msgs = feed(irc, prefix, target, cmd)
    n = 0
    while msgs and _moreRe.search(msgs[-1].args[1]) and n < limit:
        n += 1
        got = feed(irc, prefix, target, more)
        if not got:
            break
        msgs.extend(got)
    return msgs

def check(msgs, text, serverPrefix, nickPrefix='', errors=None, label=''):
    """The C12 property on one reply."""
    if errors is None:
        errors = []
    bodies = []
    for (i, m) in enumerate(msgs):
        line = ':%s %s' % (serverPrefix, str(m))
        size = len(line.encode())
        if size > 512:
            errors.append('%s: message %d is %d bytes once relayed by the '
                          'server (limit 512)' % (label, i, size))
        body = m.args[1]
        if nickPrefix:
            if not body.startswith(nickPrefix):
                errors.append('%s: message %d lacks the nick prefix'
                              % (label, i))
            body = body[len(nickPrefix):]
        mo = _moreRe.search(body)
        remaining = len(msgs) - 1 - i
        if mo:
            if int(mo.group(1)) != remaining:
                errors.append('%s: message %d announces %s more, %d follow'
                              % (label, i, mo.group(1), remaining))
            body = body[:mo.start()]
        elif remaining:
            errors.append('%s: message %d announces nothing, %d follow'
                          % (label, i, remaining))
        bodies.append(body)
    got = squeeze(visible(''.join(bodies)))
    want = squeeze(visible(text))
    if got != want:
        k = 0
        while k < min(len(got), len(want)) and got[k] == want[k]:
            k += 1
        errors.append('%s: visible text differs at offset %d: got %r..., '
                      'expected %r... (lengths %d / %d)'
                      % (label, k, got[k:k+30], want[k:k+30],
                         len(got), len(want)))
    return errors

def finish(errors):
    if errors:
        print('FAIL')
        for e in errors[:12]:
            print('  ' + e)
        code = 1
    else:
        print('PASS')
        code = 0
    sys.stdout.flush()
    os._exit(code)

# --------------------------------------------------------------------------
# Control: a sweep over reply strings, targets, nick-prefix settings, bot
# hostmask lengths and reply.mores.{length,maximum,instant} (and the number
# of messages a 'more' releases), checking the property each time.
# --------------------------------------------------------------------------
import itertools, random
errors = []
irc = mkirc()
for who in ('al!al@host.a', 'bo!~bo@host.b'):
    irc.feedMsg(ircmsgs.IrcMsg(':%s JOIN #chan' % who))
drain(irc)
MiscMores = conf.supybot.plugins.Misc.mores

def numbered(n, word='item'):
    return ' '.join('%s%04d' % (word, i) for i in range(n))

rnd = random.Random(12)
def randomFormatted(n):
    out = []
    for i in range(n):
        w = 'w%03d' % i
        k = rnd.randrange(9)
        if k == 0: w = '\x02' + w
        elif k == 1: w = '\x1f' + w + '\x1f'
        elif k == 2: w = '\x030' + ' ' + w            # colour 0, one digit
        elif k == 3: w = '\x0300,01' + w + '\x03'
        elif k == 4: w = '\x03' + '%02d' % rnd.randrange(16) + w
        elif k == 5: w = '\x16' + w + '\x0f'
        elif k == 6: w = 'é中ü' + w
        out.append(w)
    return ' '.join(out)

texts = {
    'short': 'just one line',
    'two': numbered(60),
    'many': numbered(400),
    'huge': numbered(3500),                    # more than 50 chunks
    'unbreakable': 'x' * 1300,
    'unbreakable-mb': 'é' * 900 + ' tail ' + '中' * 500,
    'emoji': ' '.join('\U0001f527' * 3 for i in range(200)),
    'tabs': 'a\tb ' * 150,
    'spaces': ('word   ' * 200).strip(),
    'white': '\x030 ' + numbered(150) + '\x03 end',
    'white2': '\x0300' + numbered(150),
    'onblack': '\x0304,01' + numbered(150, 'c') + '\x03 after',
    'bold': '\x02' + numbered(150, 'b') + '\x02 after \x1funder ' +
            numbered(80, 'u'),
    'reverse': '\x16' + numbered(120, 'r'),
    'mixed': randomFormatted(400),
    'mixed2': randomFormatted(130),
    'exact': 'y' * 425 + ' ' + 'z' * 425,
    'hyphens': '-'.join('part%03d' % i for i in range(200)),
}

def run(name, who, target, serverPrefix, nickPrefix, kw, label):
    Say.text = texts[name]
    Say.kw = kw
    msgs = collect(irc, who, target)
    text = texts[name].expandtabs()
    maximum = conf.supybot.reply.mores.maximum()
    if name == 'huge' or len(msgs) >= maximum:
        # Only a beginning of the text is delivered: check that it is one.
        errs = check(msgs, text, serverPrefix, nickPrefix, errors=[],
                     label=label)
        others = [e for e in errs if 'visible text differs' not in e]
        errors.extend(others)
        bodies = []
        for m in msgs:
            body = m.args[1][len(nickPrefix):]
            mo = _moreRe.search(body)
            if mo:
                body = body[:mo.start()]
            bodies.append(body)
        got = squeeze(visible(''.join(bodies)))
        if not squeeze(visible(text)).startswith(got) or not got:
            errors.append('%s: what was delivered is not a beginning of '
                          'the text' % label)
        if len(msgs) > maximum:
            errors.append('%s: %d messages, maximum %d'
                          % (label, len(msgs), maximum))
    else:
        check(msgs, text, serverPrefix, nickPrefix, errors=errors,
              label=label)
    return msgs

def setHost(user, host):
    irc.feedMsg(ircmsgs.IrcMsg(':%s CHGHOST %s %s' % (irc.prefix, user, host)))
    drain(irc)
    return 'bot!%s@%s' % (user, host)

count = 0
hosts = [('bot', 'h.example'), ('~limnoria', 'x' * 63)]
settings = [
    # length, maximum, instant, Misc.mores
    (0, 50, 1, 1),
    (0, 50, 3, 2),
    (0, 4, 1, 1),
    (0, 3, 5, 3),
    (200, 50, 1, 2),
    (120, 7, 2, 3),
    (80, 50, 1, 1),
]
for (user, host) in hosts:
    serverPrefix = setHost(user, host)
    for (length, maximum, instant, mores) in settings:
        conf.supybot.reply.mores.length.setValue(length)
        conf.supybot.reply.mores.maximum.setValue(maximum)
        conf.supybot.reply.mores.instant.setValue(instant)
        MiscMores.setValue(mores)
        for name in sorted(texts):
            if name == 'huge' and (length or maximum < 50):
                continue
            for (who, target, nickPrefix, kw) in [
                    ('al!al@host.a', '#chan', 'al: ', {}),
                    ('al!al@host.a', '#chan', '', {'prefixNick': False}),
                    ('bo!~bo@host.b', 'bot', '', {}),
                    ('al!al@host.a', '#chan', '', {'private': True}),
                    ('al!al@host.a', '#chan', '', {'notice': True,
                                                   'prefixNick': False}),
                    ]:
                if name in ('huge', 'mixed') and kw:
                    continue
                count += 1
                label = '%s host=%d l=%s m=%s i=%s M=%s %s %r' % (
                    name, len(host), length, maximum, instant, mores,
                    target, kw)
                msgs = run(name, who, target, serverPrefix, nickPrefix, kw,
                           label)
                if name == 'short' and len(msgs) != 1:
                    errors.append('%s: one message expected' % label)
                if name == 'many' and length == 0 and maximum == 50 \
                        and len(msgs) < 5:
                    errors.append('%s: several messages expected' % label)
Say.kw = {}
conf.supybot.reply.mores.length.setValue(0)
conf.supybot.reply.mores.maximum.setValue(50)
conf.supybot.reply.mores.instant.setValue(1)
MiscMores.setValue(1)

# 'more <nick>' by somebody else, while the owner reads too
Say.text = texts['many']
first = feed(irc, 'al!al@host.a', '#chan', '@say')
second = feed(irc, 'al!al@host.a', '#chan', '@more')
others = []
while True:
    got = feed(irc, 'bo!~bo@host.b', '#chan',
               '@more al' if not others else '@more')
    if not got:
        break
    others.extend(got)
    if not _moreRe.search(got[-1].args[1]):
        break
mine = first + second
while _moreRe.search(mine[-1].args[1]):
    mine.extend(feed(irc, 'al!al@host.a', '#chan', '@more'))
check(mine, texts['many'], irc.prefix, 'al: ', errors=errors,
      label='owner reading while somebody else reads too')
# what the other one got is the rest of the reply, from the third message on
got = squeeze(visible(''.join(_moreRe.sub('', m.args[1][4:])
                              for m in first + second + others)))
if got != squeeze(texts['many']) or len(others) != len(mine) - 2:
    errors.append('more <nick>: the reader did not get the rest of the text')
# the end of the mores
last = feed(irc, 'al!al@host.a', '#chan', '@more')
if len(last) != 1 or 'no more' not in last[0].args[1]:
    errors.append('more after the end: %r' % last)

# the pure functions, against a straightforward reference
import supybot.utils.str as utils_str
for (name, text) in sorted(texts.items()):
    if name == 'huge':
        continue
    for size in (1, 3, 4, 5, 10, 37, 100, 400, 512):
        lines = utils_str.byteTextWrap(text, size)
        if ''.join(lines) != text.expandtabs():
            errors.append('byteTextWrap(%s, %d) loses text' % (name, size))
        if max(len(l.encode()) for l in lines) > max(size, 4):
            errors.append('byteTextWrap(%s, %d) overflows' % (name, size))
        if size < 37:
            continue # (too small for the formatting codes themselves)
        chunks = ircutils.wrap(text, size)
        if max(len(c.encode()) for c in chunks) > size:
            errors.append('wrap(%s, %d) overflows' % (name, size))
        if squeeze(visible(''.join(chunks))) != squeeze(visible(text)):
            errors.append('wrap(%s, %d) loses text' % (name, size))
for word in ('é' * 10, '中' * 10, '\U0001f527' * 5, 'aé中\U0001f527' * 3):
    b = word.encode()
    for size in range(4, len(b)):
        (head, tail) = utils_str.splitBytes(b, size)
        if head + tail != b or len(head) > size or len(head) < size - 3:
            errors.append('splitBytes(%r, %d)' % (word, size))
        head.decode(); tail.decode()
for (attrs, size) in [({}, 0), ({'bold': True}, 2), ({'fg': 0}, 5),
                      ({'fg': 4, 'bg': 1}, 9), ({'bg': 1}, 8),
                      ({'bold': True, 'underline': True, 'reverse': True,
                        'fg': 0, 'bg': 0}, 12)]:
    c = ircutils.FormatContext()
    for (k, v) in attrs.items():
        setattr(c, k, v)
    if c.size() != size:
        errors.append('FormatContext.size %r: %d' % (attrs, c.size()))
    if len(c.end(c.start(''))) > c.size():
        errors.append('FormatContext %r: start+end larger than size' % attrs)

print('%d replies checked' % count)
finish(errors)
