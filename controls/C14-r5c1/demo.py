import os, sys, tempfile, threading, time
sys.path.insert(0, os.getcwd())

# ---------------------------------------------------------------- bootstrap
EXTRA_REGISTRY = globals().get('EXTRA_REGISTRY', '')
scratch = tempfile.mkdtemp(prefix='mut5c14_')
for d in ('data', 'conf', 'logs', 'backup'):
    os.mkdir(os.path.join(scratch, d))
regfile = os.path.join(scratch, 'bot.conf')
with open(regfile, 'w') as fd:
    fd.write("""
supybot.directories.data: %(s)s/data
supybot.directories.conf: %(s)s/conf
supybot.directories.log: %(s)s/logs
supybot.directories.backup: %(s)s/backup
supybot.reply.whenNotCommand: True
supybot.log.stdout: False
supybot.log.level: INFO
supybot.log.plugins.individualLogfiles: False
supybot.protocols.irc.throttleTime: 0
supybot.reply.whenAddressedBy.chars: @
supybot.abuse.flood.command: False
supybot.abuse.flood.command.invalid: False
supybot.nick: bot
""" % {'s': scratch} + EXTRA_REGISTRY)

import supybot.registry as registry
registry.open_registry(regfile)
import supybot.log as log
import supybot.conf as conf
conf.supybot.flush.setValue(False)
import supybot.world as world
import supybot.ircdb as ircdb
import supybot.irclib as irclib
import supybot.ircmsgs as ircmsgs
import supybot.callbacks as callbacks
import supybot.plugin as plugin

OUT = {}          # network -> list of texts sent by the bot
RAN = []          # (plugin, command, args) in execution order
USER = 'user!u@host.example'
OWNER = 'own!o@owner.example'


def newIrc(network):
    conf.registerNetwork(network)
    irc = irclib.Irc(network)
    while irc.takeMsg():
        pass
    OUT[network] = []
    def capture(m, _net=network):
        if m.command in ('PRIVMSG', 'NOTICE'):
            OUT[_net].append(m.args[1])
        return True
    irc.queueMsg = capture
    irc.sendMsg = capture
    irc.feedMsg(ircmsgs.IrcMsg(':srv 001 bot :Welcome'))
    return irc


def makePlugin(name, replying=(), silent=(), erroring=(), threaded=False):
    """A plugin class called <name>; every command records its run in RAN."""
    ns = {'threaded': threaded}
    def mk(cmd, kind):
        def f(self, irc, msg, args):
            """<args>

            Synthetic command."""
            RAN.append((self.name(), cmd, tuple(args)))
            if kind == 'reply':
                irc.reply('%s.%s(%s)' % (self.name(), cmd, ','.join(args)))
            elif kind == 'silent':
                irc.noReply()
            else:
                irc.error('%s.%s failed' % (self.name(), cmd))
        f.__name__ = cmd
        return f
    for c in replying:
        ns[c] = mk(c, 'reply')
    for c in silent:
        ns[c] = mk(c, 'silent')
    for c in erroring:
        ns[c] = mk(c, 'error')
    return type(name, (callbacks.Plugin,), ns)


def say(irc, text, prefix=USER, wait=True):
    """Sends <text> to the bot in private; returns what the bot answered."""
    del OUT[irc.network][:]
    irc.feedMsg(ircmsgs.privmsg(irc.nick, text, prefix=prefix))
    if wait:
        deadline = time.time() + 10
        while time.time() < deadline:
            alive = [t for t in threading.enumerate()
                     if t.name.startswith('Thread #')]
            if not alive:
                break
            time.sleep(0.01)
    return list(OUT[irc.network])


def loadOwner(irc):
    m = plugin.loadPluginModule('Owner')
    cb = plugin.loadPluginClass(irc, m)
    u = ircdb.users.newUser()
    u.name = 'own'
    u.addCapability('owner')
    u.addHostmask(OWNER)
    ircdb.users.setUser(u)
    return cb


FAILURES = []
def check(cond, what):
    if not cond:
        FAILURES.append(what)
        print('VIOLATION:', what)


def finish():
    sys.stdout.flush()
    if FAILURES:
        print('FAIL')
        sys.stdout.flush()
        os._exit(1)
    print('PASS')
    sys.stdout.flush()
    os._exit(0)

# ------------------------------------------------------------------ scenario
import random
import supybot.utils as utils
irc = newIrc('neta')
loadOwner(irc)
misc = plugin.loadPluginClass(irc, plugin.loadPluginModule('Misc'))

MAINTHREAD = []
class grp(callbacks.Commands):
    def sub(self, irc, msg, args):
        """<args>

        Synthetic command in a group."""
        RAN.append(('PlugC', 'grp sub', tuple(args)))
        irc.reply('PlugC.grp.sub(%s)' % ','.join(args))
A = makePlugin('PlugA', replying=('vcmd', 'cat', 'one', 'pluga', 'onlya'),
               silent=('quiet',), erroring=('boom',))
B = makePlugin('PlugB', replying=('vcmd', 'two', 'pluga', 'misccmd'), threaded=True)
C = makePlugin('PlugC', replying=('three', 'cat'))
C.grp = grp
def where(self, irc, msg, args):
    """takes no arguments

    Tells whether it runs in the main thread."""
    RAN.append((self.name(), 'where', tuple(args)))
    t = threading.current_thread()
    MAINTHREAD.append((world.isMainThread(), t.daemon, t.name))
    irc.reply('main' if world.isMainThread() else 'thread')
A.where = where
B.wheret = utils.python.changeFunctionName(where, 'wheret', where.__doc__)
misc.__class__.misccmd = makePlugin('X', replying=('misccmd',)).misccmd
for cls in (A, B, C):
    irc.addCallback(cls(irc))

def expect(text, ran, said, label, prefix=USER):
    del RAN[:]
    out = say(irc, text, prefix=prefix)
    got = [(p, c) for (p, c, _) in RAN]
    ok = got == ran and len(out) == len(said) and \
        all(s in o for (s, o) in zip(said, out))
    check(ok, '%s: %r must run %r and say %r; ran %r, said %r'
          % (label, text, ran, said, got, out))

def owner(text, said='The operation succeeded.'):
    out = say(irc, text, prefix=OWNER)
    check(out == [said], 'owner: %r -> %r (expected %r)' % (text, out, said))

# --- canonicalName against the specification, edge cases included
def reference(command, preserve_spaces=False):
    special = '\t-_' + ('' if preserve_spaces else ' ')
    reAppend = ''
    while command and command[-1] in special:
        reAppend = command[-1] + reAppend
        command = command[:-1]
    return ''.join([x for x in command if x not in special]).lower() + reAppend
rng = random.Random(14)
samples = ['', '-', '--', '_', ' ', '\t', 'foo', 'FOO-bar', 'foo___bar',
           '_f_o_o-b_a_r', 'foobar--', 'foo bar', ' foo bar ', 'a- -', '- a',
           'Foo\tBar\t', b'Foo-Bar', 'stra\xdfe-İ', 'a b-_ \t']
samples += [''.join(rng.choice('aB -_\t\xe9') for i in range(rng.randrange(8)))
            for j in range(2000)]
for s in samples:
    for ps in (False, True):
        r = reference(s.decode() if isinstance(s, bytes) else s, ps)
        g = callbacks.canonicalName(s, preserve_spaces=ps)
        check(g == r, 'canonicalName(%r, %r) = %r, expected %r' % (s, ps, g, r))
        check(callbacks.canonicalName(g, preserve_spaces=ps) == g,
              'canonicalName must be idempotent on %r' % (s,))

# --- evaluation order, once-ness, substitution
expect('cat [one x] [two y] z',
       [('PlugA', 'one'), ('PlugB', 'two')],
       ['available in the PlugA and PlugC'], 'ambiguous outer command: inner ones ran first, it does not run')
expect('pluga cat [one x] [two [three y]] z',
       [('PlugA', 'one'), ('PlugC', 'three'), ('PlugB', 'two'), ('PlugA', 'cat')],
       ['PlugA.cat(PlugA.one(x),PlugB.two(PlugC.three(y)),z)'], 'inner first, left to right')
expect('pluga cat a [quiet] b [one] ""',
       [('PlugA', 'quiet'), ('PlugA', 'one'), ('PlugA', 'cat')],
       ['PlugA.cat(a,b,PlugA.one(),)'], 'silent sub-command leaves no argument')
expect('pluga cat [one a] [boom] [two b]',
       [('PlugA', 'one'), ('PlugA', 'boom')],
       ['Error: PlugA.boom failed'], 'an error stops the evaluation')
expect('pluga cat [two [boom]] [one]', [('PlugA', 'boom')],
       ['Error: PlugA.boom failed'], 'a deep error stops the evaluation')
expect('pluga cat "[one x]" -_ --', [('PlugA', 'cat')],
       ['PlugA.cat([one x],-_,--)'], 'quoted brackets and odd arguments are literal')
expect('pluga cat [nosuch x]', [], ['"nosuch" is not a valid command'],
       'unknown sub-command')
expect('', [], [], 'nothing')

# --- threads
del MAINTHREAD[:]
expect('pluga cat [where] [wheret] [where]',
       [('PlugA', 'where'), ('PlugB', 'where'), ('PlugA', 'where'), ('PlugA', 'cat')],
       ['PlugA.cat(main,thread,thread)'], 'threaded sub-command')
check([m[0] for m in MAINTHREAD] == [True, False, False] and MAINTHREAD[1][1] is True
      and '(for PlugB.' in MAINTHREAD[1][2],
      'command threads are daemon threads named after the command: %r' % MAINTHREAD)
conf.supybot.debug.threadAllCommands.setValue(True)
del MAINTHREAD[:]
expect('pluga cat [where] [one]',
       [('PlugA', 'where'), ('PlugA', 'one'), ('PlugA', 'cat')],
       ['PlugA.cat(thread,PlugA.one())'], 'threadAllCommands')
conf.supybot.debug.threadAllCommands.setValue(False)
check(not [cb for cb in irc.callbacks if cb.name() == 'PlugA'][0].threaded,
      'PlugA.threaded restored after its command thread')

# --- one plugin per command
expect('vcmd', [], ['available in the PlugA and PlugB plugins'], 'ambiguous bare name')
expect('plugb vcmd q', [('PlugB', 'vcmd')], ['PlugB.vcmd(q)'], 'qualified')
expect('PLUG_A vcmd q', [('PlugA', 'vcmd')], ['PlugA.vcmd(q)'], 'qualified, other spelling')
expect('pluga', [('PlugA', 'pluga')], ['PlugA.pluga()'], 'command named like its plugin')
expect('pluga pluga', [('PlugA', 'pluga')], ['PlugA.pluga()'], 'qualified command named like its plugin')
expect('pluga nosuch', [('PlugA', 'pluga')], ['PlugA.pluga(nosuch)'], 'own name is a command')
expect('plugb pluga z', [('PlugB', 'pluga')], ['PlugB.pluga(z)'], 'other plugin has a command named pluga')
expect('grp sub 1', [('PlugC', 'grp sub')], ['PlugC.grp.sub(1)'], 'command group')
expect('plugc grp sub 1', [('PlugC', 'grp sub')], ['PlugC.grp.sub(1)'], 'qualified command group')
expect('grp nosuch', [], ['not a valid command'], 'command group without that command')
expect('misccmd', [('Misc', 'misccmd')], ['Misc.misccmd()'], 'important plugin wins')
conf.supybot.commands.defaultPlugins.importantPlugins.setValue(['Misc', 'Plug_B'])
expect('misccmd', [], ['available in the Misc and PlugB plugins'], 'two important plugins')
expect('vcmd', [('PlugB', 'vcmd')], ['PlugB.vcmd()'], 'only important plugin')
conf.supybot.commands.defaultPlugins.importantPlugins.setValue(['Misc'])
owner('defaultplugin vcmd PlugA')
expect('vcmd', [('PlugA', 'vcmd')], ['PlugA.vcmd()'], 'default plugin')
expect('plugc cat [vcmd] [plugb vcmd]', [('PlugA', 'vcmd'), ('PlugB', 'vcmd'), ('PlugC', 'cat')],
       ['PlugC.cat(PlugA.vcmd(),PlugB.vcmd())'], 'default plugin, nested')
owner('defaultplugin cat PlugB', said='Error: \'cat\' is not a valid command in the PlugB plugin.')
conf.supybot.commands.defaultPlugins.get('vcmd').setValue('PlugC')
expect('vcmd', [], ['available in the PlugA and PlugB plugins'], 'default plugin without the command')
owner('defaultplugin --remove vcmd')
expect('vcmd', [], ['available in the PlugA and PlugB plugins'], 'default removed')

# --- disabled commands
owner('disable PlugA vcmd')
expect('vcmd', [('PlugB', 'vcmd')], ['PlugB.vcmd()'], 'disabled in PlugA only')
expect('pluga vcmd', [('PlugA', 'pluga')], ['PlugA.pluga(vcmd)'], 'disabled: qualified name falls to the pluga command')
owner('disable PlugA nosuch', said='Error: nosuch is not a command in the PlugA plugin.')
owner('disable v-cmd')
expect('vcmd', [], ['"vcmd" is not a valid command'], 'disabled everywhere')
expect('plugb vcmd', [], ['no command named "vcmd"'], 'disabled everywhere, qualified')
expect('plugc cat [plugb vcmd]', [], ['no command named "vcmd"'], 'disabled everywhere, nested')
check(sorted(conf.supybot.commands.disabled()) == ['pluga.vcmd', 'vcmd'],
      'registry record of disabled commands: %r' % sorted(conf.supybot.commands.disabled()))
owner('enable PlugB vcmd', said='Error: That command wasn\'t disabled.')
owner('enable vcmd')
expect('vcmd', [('PlugB', 'vcmd')], ['PlugB.vcmd()'], 'enabled everywhere, still disabled in PlugA')
owner('enable vcmd', said='Error: That command wasn\'t disabled.')
owner('enable PlugA vcmd')
expect('vcmd', [], ['available in the PlugA and PlugB plugins'], 'enabled again')
check(sorted(conf.supybot.commands.disabled()) == [], 'nothing is disabled any more')
owner('disable enable', said='Error: You can\'t disable enable.')

# --- nesting limit and nesting switched off
conf.supybot.commands.nested.maximum.setValue(2)
expect('pluga cat [pluga cat [one]]', [('PlugA', 'one'), ('PlugA', 'cat'), ('PlugA', 'cat')],
       ['PlugA.cat(PlugA.cat(PlugA.one()))'], 'nesting at the maximum')
expect('pluga cat [one] [pluga cat [pluga cat [two]]]', [('PlugA', 'one')],
       ['more nesting than is currently allowed'], 'nesting over the maximum')
conf.supybot.commands.nested.maximum.setValue(10)
conf.supybot.commands.nested.setValue(False)
expect('pluga cat [one] [two', [('PlugA', 'cat')], ['PlugA.cat([one],[two)'], 'nesting disabled')
conf.supybot.commands.nested.setValue(True)
finish()
