#!/usr/bin/env python
"""Equivalence demo for a behaviour-preserving refactor of the connection
registration code (CAP / SASL / nick fallback / MOTD) of src/irclib.py and the
helpers of src/ircutils.py it uses.

The program drives real `irclib.Irc` objects through hand-written edge cases
and through several hundred pseudo-random (seeded) server scripts under many
SASL configurations, and records EVERYTHING observable:

  * every message the bot hands to its driver (takeMsg), in order;
  * every call to the logger (level, format string, arguments), including
    the exceptions swallowed by the firewall (type and text);
  * every call on the driver (reconnect / die and their arguments);
  * every state transition notified to the callbacks (postTransition);
  * a snapshot of the public state after every step (fsm state, capability
    sets, SASL attributes, nick bookkeeping, REQUEST_CAPABILITIES of the
    instance and of the class);
  * the direct results / exceptions of the helper functions.

A SHA-256 digest of that record is compared with the one recorded on the
unmodified tree.  Prints PASS and exits 0 when they are equal.
"""

import os
import sys
import json
import random
import shutil
import hashlib
import tempfile

sys.path.insert(0, os.getcwd())

EXPECTED = 'a568f524183edce7c3c34e85f806e1f01f5e98f6cf04af6153468d4e5833792c'

base_dir = tempfile.mkdtemp(prefix='c08demo')
for d in ('data', 'conf', 'logs'):
    os.mkdir(os.path.join(base_dir, d))
registryFilename = os.path.join(base_dir, 'conf', 'test.conf')
with open(registryFilename, 'w') as fd:
    fd.write("""
supybot.directories.data: %(base_dir)s/data
supybot.directories.conf: %(base_dir)s/conf
supybot.directories.log: %(base_dir)s/logs
supybot.log.stdout: False
supybot.log.stdout.level: CRITICAL
supybot.log.level: CRITICAL
supybot.log.plugins.individualLogfiles: False
supybot.protocols.irc.throttleTime: 0
supybot.protocols.irc.ping: False
supybot.networks.test.server: should.not.need.this
supybot.networks.other.server: should.not.need.this
supybot.nick: test
""" % {'base_dir': base_dir})

import supybot
import supybot.registry as registry
registry.open_registry(registryFilename)
import supybot.log as log
import supybot.conf as conf
conf.supybot.flush.setValue(False)
import supybot.utils as utils
import supybot.world as world
import supybot.ircdb as ircdb
import supybot.ircmsgs as ircmsgs
import supybot.ircutils as ircutils
import supybot.irclib as irclib
from supybot.drivers import Server

assert not world.testing and not log.testing

conf.registerNetwork('test')
conf.registerNetwork('other')
conf.supybot.networks.test.ssl.setValue(False)
conf.supybot.networks.other.ssl.setValue(False)

###
# Deterministic stand-ins for the optional libraries.
###
class FakeKey(object):
    def __init__(self, data):
        self.data = data
    def sign(self, string, algo):
        return b'SIG[' + hashlib.sha256(self.data + b'|' + string).digest() \
            + b']' + repr(algo).encode()

class FakeCrypto(object):
    @staticmethod
    def load_pem_private_key(data, password=None, backend=None):
        assert password is None and backend == 'backend'
        if data.startswith(b'BAD'):
            raise ValueError('Could not deserialize key data.')
        if data.startswith(b'TYPE'):
            raise TypeError('password was not given but key is encrypted')
        return FakeKey(data)
    @staticmethod
    def default_backend():
        return 'backend'
    @staticmethod
    def ECDSA(x):
        return ('ECDSA', x)
    @staticmethod
    def Prehashed(x):
        return ('Prehashed', x)
    @staticmethod
    def SHA256():
        return 'SHA256'

class FakeScram(object):
    class ScramException(Exception):
        pass
    class BadSuccessException(ScramException):
        pass
    HASH_FACTORIES = {'SHA-256': None, 'SHA-1': None}
    class SCRAMClientAuthenticator(object):
        def __init__(self, hash_name, channel_binding):
            assert channel_binding is False
            self.hash_name = hash_name
        def start(self, props):
            if props['username'].startswith('boom'):
                raise FakeScram.ScramException('cannot start')
            return ('n,,n=%s,r=nonce/%s/%s' % (
                props['username'], self.hash_name,
                len(props['password']))).encode()
        def challenge(self, challenge):
            if challenge.startswith(b'bad'):
                raise FakeScram.ScramException('bad challenge')
            return b'c=biws,r=' + challenge[:600] + b',p=proof'
        def finish(self, data):
            if data.startswith(b'bad'):
                raise FakeScram.BadSuccessException('bad signature')
            if data.startswith(b'err'):
                raise FakeScram.ScramException('other error')
            return {'ok': True}

###
# Recording.
###
RECORD = []

def norm(x):
    if isinstance(x, (set, frozenset)):
        return ['set'] + sorted(norm(y) for y in x)
    if isinstance(x, dict):
        return ['dict'] + sorted([norm(k), norm(v)] for (k, v) in x.items())
    if isinstance(x, (list, tuple)):
        return [type(x).__name__] + [norm(y) for y in x]
    if isinstance(x, ircmsgs.IrcMsg):
        return 'IrcMsg(%r)' % str(x)
    if isinstance(x, irclib.Irc):
        return 'Irc(%s)' % x.network
    if isinstance(x, (str, bytes, int, float, bool, type(None))):
        return repr(x)
    if isinstance(x, irclib.IrcStateFsm.States):
        return str(x)
    if isinstance(x, Server):
        return 'Server' + repr(tuple(x))
    if isinstance(x, BaseException):
        return '%s(%s)' % (type(x).__name__, x)
    return 'obj:' + type(x).__name__

def rec(*args):
    RECORD.append(norm(args))

def make_logger(level):
    def f(fmt, *args, **kwargs):
        if fmt == 'Irc object killed twice: %s':
            # A stack trace, with line numbers.
            args = ('<stack trace>',)
        if level == 'exception':
            rec('log', level, fmt, args, sorted(kwargs), sys.exc_info()[1])
        else:
            rec('log', level, fmt, args, sorted(kwargs))
    return f
for level in ('debug', 'info', 'warning', 'error', 'critical', 'exception'):
    setattr(log, level, make_logger(level))

class Clock(object):
    """Strictly increasing clock (takeMsg throttles with <=)."""
    def __init__(self):
        self.now = 1700000000.0
    def time(self):
        self.now += 1.0
        return self.now
    def __getattr__(self, name):
        import time
        return getattr(time, name)
irclib.time = Clock()

LABELS = [0]
def makeLabel():
    # uuid4 in the real function.
    LABELS[0] += 1
    return 'label-%d' % LABELS[0]
ircutils.makeLabel = makeLabel

class FakeServer(object):
    def __init__(self, force):
        self.hostname = 'irc.example.org'
        self.port = 6667
        self.attempt = 3
        self.force_tls_verification = force
    def __repr__(self):
        return 'FakeServer(force=%r)' % self.force_tls_verification

class FakeDriver(object):
    def __init__(self, irc, ssl=False, validate=False, force=False,
                 reset_on_reconnect=False):
        self.irc = irc
        self.ssl = ssl
        self.validate = validate
        self.currentServer = FakeServer(force)
        self.reset_on_reconnect = reset_on_reconnect
    def anyCertValidationEnabled(self):
        rec('driver', 'anyCertValidationEnabled')
        return self.validate
    def reconnect(self, *args, **kwargs):
        rec('driver', 'reconnect', args, kwargs)
        if self.reset_on_reconnect and kwargs.get('wait'):
            # Like the real socket driver.
            self.irc.reset()
    def die(self):
        rec('driver', 'die')

class Recorder(irclib.IrcCallback):
    def name(self):
        return 'Recorder'
    def postTransition(self, irc, msg, from_state, to_state):
        rec('transition', from_state, to_state, msg)
        return irclib.IrcCallback.postTransition(
            self, irc, msg, from_state, to_state)
    def reset(self):
        rec('callback-reset')
    def __call__(self, irc, msg):
        rec('called', msg.command)

def snapshot(irc):
    st = irc.state
    rec('snap',
        st.fsm.state, st.capabilities_req, st.capabilities_ack,
        st.capabilities_nak, st.capabilities_ls,
        type(st.capabilities_req).__name__, type(st.capabilities_ls).__name__,
        irc.sasl_authenticated, irc.sasl_username, irc.sasl_password,
        irc.sasl_ecdsa_key, irc.sasl_current_mechanism,
        irc.sasl_next_mechanisms, type(irc.sasl_next_mechanisms).__name__,
        irc.sasl_response_sent,
        {k: v for (k, v) in irc.sasl_scram_state.items()
         if k != 'authenticator'},
        'authenticator' in irc.sasl_scram_state,
        irc.authenticate_decoder is None,
        None if irc.authenticate_decoder is None
        else (irc.authenticate_decoder.chunks, irc.authenticate_decoder.ready),
        irc.capNegociationEnded, irc.afterConnect, irc.zombie,
        irc.nick, irc.user, irc.ident, irc.prefix, irc.server, irc.password,
        set(irc.triedNicks), irc.alternateNicks, irc.requireStarttls,
        irc.REQUEST_CAPABILITIES, irclib.Irc.REQUEST_CAPABILITIES,
        irc.outstandingPing, irc.lastTake,
        len(irc.queue), len(irc.fastqueue))

def drain(irc):
    sent = []
    for _ in range(200):
        msg = irc.takeMsg()
        if msg is None:
            break
        rec('sent', str(msg))
        sent.append(str(msg).rstrip('\r\n'))
    else:
        rec('sent', 'TOO MANY')
    return sent

CONFIG_DEFAULTS = {
    'sasl.username': '', 'sasl.password': '', 'sasl.ecdsa_key': '',
    'sasl.mechanisms': ['ecdsa-nist256p-challenge', 'external', 'plain'],
    'sasl.required': False, 'certfile': '', 'password': '', 'nick': '',
    'ident': '', 'user': '', 'umodes': '', 'requireStarttls': False,
}
GLOBAL_DEFAULTS = {
    'protocols.irc.certfile': '', 'protocols.irc.umodes': '',
    'nick.alternates': ['%s`', '%s_'], 'nick': 'test', 'ident': 'limnoria',
    'user': 'Limnoria $version',
}

def setcfg(network, cfg):
    group = conf.supybot.networks.get(network)
    for (k, default) in CONFIG_DEFAULTS.items():
        v = cfg.get(k, default)
        node = group
        for part in k.split('.'):
            node = node.get(part)
        node.setValue(v)
    for (k, default) in GLOBAL_DEFAULTS.items():
        v = cfg.get('global.' + k, default)
        node = conf.supybot
        for part in k.split('.'):
            node = node.get(part)
        node.setValue(v)

def feed(irc, line):
    try:
        msg = ircmsgs.IrcMsg(s=line)
    except Exception as e:
        rec('malformed', line, e)
        return
    irc.feedMsg(msg)

def run_scenario(name, cfg, ops, driver_kw=None, libs=(True, True),
                 network='test', seed=1):
    rec('scenario', name, cfg, driver_kw, libs, network, callable(ops))
    random.seed(seed)
    LABELS[0] = 0
    irclib.crypto = FakeCrypto if libs[0] else None
    irclib.scram = FakeScram if libs[1] else None
    setcfg(network, cfg)
    holder = []
    callbacks = [Recorder()]
    # The driver must exist while __init__ runs for requireStarttls: give the
    # class an attribute the instance one shadows later.
    irc = irclib.Irc.__new__(irclib.Irc)
    driver = FakeDriver(irc, **(driver_kw or {}))
    try:
        irc.__init__(network, callbacks=callbacks)
    except Exception as e:
        rec('init-exception', e)
        return
    rec('driver-after-init', irc.driver is None)
    irc.driver = driver
    sent = drain(irc)
    snapshot(irc)
    if callable(ops):
        # An interactive (simulated) server: it sees what the bot sent.
        def interactive(server, sent):
            pending = list(server(sent))
            for _ in range(150):
                if not pending:
                    return
                op = pending.pop(0)
                sent[:] = []
                yield op
                pending.extend(server(sent))
        ops = interactive(ops, sent)
    for op in ops:
        rec('op', op)
        kind = op[0]
        try:
            if kind == 'feed':
                feed(irc, op[1])
            elif kind == 'reset':
                irc.reset()
            elif kind == 'cfg':
                cfg = dict(cfg)
                cfg.update(op[1])
                setcfg(network, cfg)
            elif kind == 'die':
                irc.die()
            elif kind == 'call':
                # Direct call of a (public) method, unfirewalled.
                args = [a if a != '<msg>' else
                        ircmsgs.IrcMsg(s=':srv 001 test :hi') for a in op[2:]]
                rec('result', getattr(irc, op[1])(*args))
            elif kind == 'set':
                setattr(irc, op[1], op[2])
            elif kind == 'fsm':
                irc.state.fsm.state = getattr(irclib.IrcStateFsm.States, op[1])
            elif kind == 'queue':
                irc.queueMsg(ircmsgs.IrcMsg(s=op[1]))
            else:
                raise AssertionError(kind)
        except Exception as e:
            rec('op-exception', e)
        sent[:] = drain(irc)
        snapshot(irc)
    if irc in world.ircs:
        world.ircs.remove(irc)
    try:
        rec('sts', ircdb.networks.getNetwork(network).stsPolicies)
    except Exception as e:
        rec('sts-exception', e)

###
# Scenarios.
###
S = ':irc.example.org '
ALLCAPS = ('account-notify extended-join multi-prefix metadata-notify '
           'account-tag userhost-in-names invite-notify server-time chghost '
           'batch away-notify message-tags msgid setname labeled-response '
           'echo-message')
def ls(caps, star=False, nick='*'):
    return S + 'CAP %s LS %s:%s' % (nick, '* ' if star else '', caps)
def ack(caps, nick='*'):
    return S + 'CAP %s ACK :%s' % (nick, caps)
def nak(caps, nick='*'):
    return S + 'CAP %s NAK :%s' % (nick, caps)
def new(caps, nick='test'):
    return S + 'CAP %s NEW :%s' % (nick, caps)
def dele(caps, nick='test'):
    return S + 'CAP %s DEL :%s' % (nick, caps)
def num(n, rest, nick='test'):
    return S + '%s %s %s' % (n, nick, rest)
WELCOME = [num('001', ':Welcome'), num('002', ':Your host is x, running version u-1.2'),
           num('003', ':created'), num('004', 'irc.example.org u-1.2 iowx bklmnt'),
           num('005', 'CHANTYPES=# NICKLEN=12 PREFIX=(ov)@+ :are supported')]
MOTD = [num('375', ':- MOTD -'), num('372', ':- hi'), num('376', ':End')]

PLAIN = {'sasl.username': 'jilles', 'sasl.password': 'sesame',
         'sasl.mechanisms': ['plain']}
PLAIN_REQ = dict(PLAIN, **{'sasl.required': True})
EXTERNAL = {'certfile': '/nonexistent/cert.pem',
            'sasl.mechanisms': ['external']}
EXTERNAL_GLOBAL = {'global.protocols.irc.certfile': '/nonexistent/g.pem',
                   'sasl.mechanisms': ['external', 'plain']}
GOODKEY = os.path.join(base_dir, 'good.pem')
BADKEY = os.path.join(base_dir, 'bad.pem')
TYPEKEY = os.path.join(base_dir, 'type.pem')
with open(GOODKEY, 'wb') as fd:
    fd.write(b'GOOD KEY')
with open(BADKEY, 'wb') as fd:
    fd.write(b'BAD KEY')
with open(TYPEKEY, 'wb') as fd:
    fd.write(b'TYPE KEY')
def ecdsa(key):
    return {'sasl.username': 'jilles', 'sasl.ecdsa_key': key,
            'sasl.mechanisms': ['ecdsa-nist256p-challenge']}
SCRAM = {'sasl.username': 'jilles', 'sasl.password': 'sesame',
         'sasl.mechanisms': ['scram-sha-256']}
EVERYTHING = {'sasl.username': 'jilles', 'sasl.password': 'sesame',
              'sasl.ecdsa_key': GOODKEY, 'certfile': '/nonexistent/c.pem',
              'sasl.mechanisms': ['scram-sha-256',
                                  'ecdsa-nist256p-challenge', 'external',
                                  'plain']}
LONG = {'sasl.username': 'u' * 150, 'sasl.password': 'p' * 147,
        'sasl.mechanisms': ['plain']}     # base64 is exactly 600 = 400 + 200
LONG400 = {'sasl.username': 'u' * 100, 'sasl.password': 'p' * 98,
           'sasl.mechanisms': ['plain']}  # 300 bytes -> exactly 400 chars
NICKS = {'password': 'serverpass', 'nick': 'netnick', 'ident': 'netident',
         'user': 'Real $version name $nick',
         'global.nick.alternates': ['%s-', 'fixed', '%s-', 'netnick'],
         'umodes': '+iwxB', 'global.protocols.irc.umodes': '+Z'}

import base64
def b64(b):
    return base64.b64encode(b).decode()

def handwritten():
    A = 'AUTHENTICATE '
    yield ('no-sasl-basic', {}, [
        ('feed', ls(ALLCAPS + ' sasl=PLAIN,EXTERNAL foo=bar')),
        ('feed', ack(' '.join(sorted(ALLCAPS.split())))),
    ] + [('feed', l) for l in WELCOME + MOTD], {})
    yield ('no-sasl-partial-acks', {}, [
        ('feed', ls('multi-prefix', star=True)),
        ('feed', ls('echo-message =batch ~=chghost sasl', star=True)),
        ('feed', ls('labeled-response unknown-cap draft/x=1,2')),
        ('feed', ack('echo-message labeled-response')),
        ('feed', nak('batch')),
        ('feed', ack('chghost multi-prefix')),
        ('feed', ack('chghost')),
    ] + [('feed', l) for l in MOTD], {})
    yield ('echo-without-labeled', {}, [
        ('feed', ls('echo-message')),
        ('feed', num('422', ':No MOTD')),
        ('feed', new('labeled-response')),
        ('feed', ack('labeled-response', 'test')),
        ('feed', new('echo-message batch')),
        ('feed', ack('batch echo-message', 'test')),
        ('feed', dele('echo-message=x labeled-response unknown')),
        ('feed', new('echo-message labeled-response')),
    ], {})
    yield ('echo-and-others-no-labeled', {}, [
        ('feed', ls('echo-message batch')),
        ('feed', nak('batch')),
    ], {})
    yield ('empty-ls', {}, [('feed', ls(''))] +
           [('feed', l) for l in WELCOME + MOTD], {})
    yield ('bad-cap-lines', PLAIN, [
        ('feed', S + 'CAP * LS x :a b'),
        ('feed', S + 'CAP * LS'),
        ('feed', S + 'CAP * LS * extra :a b'),
        ('feed', S + 'CAP * ACK'),
        ('feed', S + 'CAP * ACK a :b'),
        ('feed', S + 'CAP * NAK'),
        ('feed', S + 'CAP * NAK a :b'),
        ('feed', S + 'CAP * NEW'),
        ('feed', S + 'CAP * DEL'),
        ('feed', S + 'CAP * DEL a :b'),
        ('feed', S + 'CAP * ACK :'),
        ('feed', S + 'CAP * NAK :'),
        ('feed', S + 'CAP * NEW :'),
        ('feed', S + 'CAP * DEL :'),
        ('feed', S + 'CAP * LIST :multi-prefix'),
        ('feed', S + 'CAP'),
        ('feed', S + 'CAP *'),
        ('feed', ack('multi-prefix')),          # unrequested
        ('feed', ls('= ~ == =~a=b=c sts')),
    ], {})
    yield ('plain-ok', PLAIN, [
        ('feed', ls('sasl multi-prefix')),
        ('feed', ack('multi-prefix')),
        ('feed', ack('sasl')),
        ('feed', A + '+'),
        ('feed', num('900', 'test!u@h jilles :You are now logged in')),
        ('feed', num('903', ':SASL authentication successful')),
    ] + [('feed', l) for l in WELCOME + MOTD] + [
        ('feed', new('sasl=PLAIN')),
        ('feed', ack('sasl', 'test')),
        ('feed', dele('sasl')),
        ('reset',),
        ('feed', ls('sasl=EXTERNAL')),
        ('feed', ack('sasl')),
    ], {})
    yield ('plain-mech-filter', EVERYTHING, [
        ('feed', ls('sasl=PLAIN,SCRAM-SHA-256,FOO')),
        ('feed', ack('sasl')),
        ('feed', A + '+'),
        ('feed', num('908', 'PLAIN,EXTERNAL :are available')),
        ('feed', num('904', ':failed')),
        ('feed', A + '+'),
        ('feed', num('905', ':too long')),
    ], {})
    yield ('plain-early-903', PLAIN_REQ, [
        ('feed', num('903', ':unsolicited')),
        ('feed', ls('sasl')),
        ('feed', ack('sasl')),
        ('feed', num('903', ':too early')),
        ('feed', A + '+'),
        ('feed', num('903', ':ok')),
        ('feed', num('903', ':again')),
    ] + [('feed', l) for l in MOTD], {})
    yield ('plain-required-fails', PLAIN_REQ, [
        ('feed', ls('sasl')),
        ('feed', ack('sasl')),
        ('feed', A + '+'),
        ('feed', num('904', ':failed')),
        ('feed', num('375', ':- MOTD -')),
        ('feed', num('376', ':End')),
        ('feed', num('422', ':No MOTD')),
    ], {})
    yield ('plain-required-reset-driver', PLAIN_REQ, [
        ('feed', ls('multi-prefix')),
        ('feed', ack('multi-prefix')),
        ('feed', ls('sasl')),
        ('feed', nak('sasl')),
        ('feed', num('376', ':End')),
    ], {'driver_kw': {'reset_on_reconnect': True}})
    yield ('plain-required-no-sasl-cap', PLAIN_REQ, [
        ('feed', ls('multi-prefix')),
        ('feed', ack('multi-prefix')),
    ] + [('feed', l) for l in WELCOME + MOTD], {})
    yield ('plain-sasl-nak', PLAIN, [
        ('feed', ls('sasl batch')),
        ('feed', nak('batch sasl')),
    ] + [('feed', l) for l in MOTD], {})
    yield ('plain-906-907', dict(PLAIN, **{'sasl.mechanisms':
                                           ['plain', 'plain', 'plain']}), [
        ('feed', ls('sasl')),
        ('feed', ack('sasl')),
        ('feed', num('906', ':aborted')),
        ('feed', num('907', ':already')),
        ('feed', num('904', ':failed')),
        ('feed', num('904', ':failed')),
        ('feed', num('902', ':locked')),
        ('feed', num('901', ':logged out')),
    ], {})
    yield ('authenticate-out-of-state', PLAIN, [
        ('feed', A + '+'),
        ('feed', num('904', ':failed')),
        ('feed', num('908', 'PLAIN :mechs')),
        ('feed', ls('sasl')),
        ('feed', ack('sasl')),
        ('feed', A + 'x' * 400),
        ('feed', A + 'eHh4'),
        ('feed', A + 'x' * 400),
        ('feed', A + '+'),
        ('feed', A + '!!!notbase64'),
    ], {})
    yield ('plain-long', LONG, [
        ('feed', ls('sasl=PLAIN')), ('feed', ack('sasl')), ('feed', A + '+'),
        ('feed', num('903', ':ok')),
    ], {})
    yield ('plain-long-400', LONG400, [
        ('feed', ls('sasl=PLAIN')), ('feed', ack('sasl')), ('feed', A + '+'),
        ('feed', num('903', ':ok')),
    ], {})
    yield ('plain-unicode', {'sasl.username': 'j\xefll\xe9s',
                             'sasl.password': 's€same',
                             'sasl.mechanisms': ['plain']}, [
        ('feed', ls('sasl=plain')), ('feed', ack('sasl')), ('feed', A + '+'),
    ], {})
    yield ('external', EXTERNAL, [
        ('feed', ls('sasl=EXTERNAL')), ('feed', ack('sasl')),
        ('feed', A + '+'), ('feed', num('903', ':ok')),
    ], {})
    yield ('external-global-fallback', EXTERNAL_GLOBAL, [
        ('feed', ls('sasl')), ('feed', ack('sasl')),
        ('feed', A + '+'), ('feed', num('904', ':no')),
        ('feed', A + '+'), ('feed', num('904', ':no')),
    ], {})
    yield ('external-not-offered', EXTERNAL, [
        ('feed', ls('sasl=PLAIN')), ('feed', ack('sasl')),
    ] + [('feed', l) for l in MOTD], {})
    yield ('external-not-offered-required',
           dict(EXTERNAL, **{'sasl.required': True}), [
        ('feed', ls('sasl=PLAIN')), ('feed', ack('sasl')),
    ], {})
    yield ('sasl-empty-value', PLAIN, [
        ('feed', ls('sasl=')), ('feed', ack('sasl')),
    ], {})
    yield ('sasl-ack-without-ls', PLAIN, [
        ('feed', ls('sasl')), ('feed', dele('sasl', '*')),
        ('feed', ack('sasl')),
    ], {})
    for (label, key) in (('good', GOODKEY), ('bad', BADKEY),
                         ('type', TYPEKEY),
                         ('missing', os.path.join(base_dir, 'nokey'))):
        yield ('ecdsa-' + label, ecdsa(key), [
            ('feed', ls('sasl=ECDSA-NIST256P-CHALLENGE')),
            ('feed', ack('sasl')),
            ('feed', A + '+'),
            ('feed', A + b64(b'challenge-bytes')),
            ('feed', num('903', ':ok')),
            ('feed', num('906', ':aborted')),
        ], {})
    yield ('ecdsa-no-crypto', ecdsa(GOODKEY), [
        ('feed', ls('sasl')), ('feed', ack('sasl')),
    ], {'libs': (False, True)})
    yield ('ecdsa-no-key', ecdsa(''), [
        ('feed', ls('sasl')), ('feed', ack('sasl')),
    ], {})
    for (label, chal, fin) in (('ok', b'r=abc', b'v=sig'),
                               ('bad-challenge', b'bad', b'v=sig'),
                               ('bad-final', b'r=abc', b'bad'),
                               ('err-final', b'r=abc', b'err')):
        yield ('scram-' + label, SCRAM, [
            ('feed', ls('sasl=SCRAM-SHA-256')),
            ('feed', ack('sasl')),
            ('feed', A + '+'),
            ('feed', A + b64(chal)),
            ('feed', A + b64(fin)),
            ('feed', num('903', ':ok')),
            ('feed', A + '+'),
            ('feed', num('906', ':aborted')),
        ], {})
    yield ('scram-start-fails', dict(SCRAM, **{'sasl.username': 'boom'}), [
        ('feed', ls('sasl')), ('feed', ack('sasl')), ('feed', A + '+'),
        ('feed', num('906', ':aborted')),
    ], {})
    yield ('scram-odd-mechanisms', SCRAM, [
        ('feed', ls('sasl')), ('feed', ack('sasl')),
        ('set', 'sasl_current_mechanism', 'scram-md5-plus'),
        ('feed', A + '+'),
        ('set', 'sasl_current_mechanism', 'scram-sha-1-plus'),
        ('feed', A + '+'),
        ('set', 'sasl_scram_state', {'step': 'weird'}),
        ('feed', A + '+'),
        ('set', 'sasl_current_mechanism', None),
        ('feed', A + '+'),
        ('set', 'sasl_current_mechanism', 'unknown'),
        ('feed', A + '+'),
    ], {})
    yield ('scram-no-lib', SCRAM, [
        ('feed', ls('sasl')), ('feed', ack('sasl')),
    ], {'libs': (True, False)})
    yield ('everything-fallthrough', EVERYTHING, [
        ('feed', ls('sasl')), ('feed', ack('sasl')),
        ('feed', A + '+'), ('feed', num('904', ':no')),
        ('feed', A + '+'), ('feed', num('904', ':no')),
        ('feed', A + '+'), ('feed', num('904', ':no')),
        ('feed', A + '+'), ('feed', num('904', ':no')),
        ('feed', num('904', ':no')),
    ] + [('feed', l) for l in WELCOME + MOTD], {})
    yield ('everything-required', dict(EVERYTHING, **{'sasl.required': True}), [
        ('feed', ls('sasl=EXTERNAL')), ('feed', ack('sasl')),
        ('feed', A + '+'), ('feed', num('904', ':no')),
    ], {'driver_kw': {'reset_on_reconnect': True}})
    yield ('cfg-change-then-reset', PLAIN, [
        ('feed', ls('sasl')), ('feed', ack('sasl')), ('feed', A + '+'),
        ('cfg', {'sasl.username': '', 'sasl.password': ''}),
        ('feed', num('904', ':no')),
        ('reset',),
        ('feed', ls('sasl multi-prefix')),
        ('feed', ack('multi-prefix')),
        ('cfg', {'sasl.username': 'a', 'sasl.password': 'b',
                 'sasl.required': True}),
        ('call', 'resetSasl'),
        ('feed', new('sasl', '*')),
        ('reset',), ('reset',),
    ], {})
    yield ('nicks', NICKS, [
        ('feed', num('433', 'netnick :in use', '*')),
        ('feed', num('432', 'x :erroneous', '*')),
        ('feed', num('437', 'x :unavailable', '*')),
        ('feed', num('433', 'x :in use', '*')),
        ('feed', num('433', 'x :in use', '*')),
        ('feed', num('433', 'x :in use', '*')),
        ('feed', ls('multi-prefix')),
        ('feed', ack('multi-prefix')),
        ('feed', num('001', ':Welcome', 'netnick-')),
        ('feed', num('004', 'irc.example.org u-1.2 iwx bklmnt', 'netnick-')),
        ('feed', num('376', ':End', 'netnick-')),
        ('feed', num('433', 'x :in use', 'netnick-')),
        ('feed', ':netnick-!u@h NICK :other'),
        ('reset',),
        ('feed', num('433', 'netnick :in use', '*')),
    ], {})
    yield ('nicks-short', {'nick': 'ab', 'global.nick.alternates': []}, [
        ('feed', num('433', 'ab :in use', '*')),
        ('feed', num('433', 'x :in use', '*')),
        ('feed', num('433', 'x :in use', '*')),
        ('feed', num('422', ':none', 'ab`1')),
    ], {'seed': 7})
    yield ('umodes-unfiltered', {'umodes': '+iwxB'}, [
        ('feed', num('376', ':End')),
        ('feed', num('377', ':x')),
    ], {})
    yield ('ping-error', {}, [
        ('feed', 'PING :abc'),
        ('feed', 'PING abc def'),
        ('feed', 'ERROR :Closing Link: test (Quit)'),
        ('feed', 'ERROR :Trying to reconnect too fast.'),
        ('feed', 'ERROR :something else'),
        ('feed', 'ERROR'),
        ('feed', 'PING'),
        ('feed', num('451', ':You have not registered')),
        ('feed', num('002', ':Your host is x, running version u-1.2')),
        ('feed', num('002', ':oneword')),
        ('die',),
        ('feed', 'ERROR :Closing Link: test (Quit)'),
        ('feed', 'PING :abc'),
        ('reset',),
    ], {})
    yield ('die-after-connect', {}, [
        ('feed', num('376', ':End')),
        ('queue', 'PRIVMSG #a :x'),
        ('die',),
        ('queue', 'PRIVMSG #a :y'),
        ('feed', ls('multi-prefix')),
        ('reset',),
    ], {})
    yield ('starttls', {'requireStarttls': True}, [], {})
    for (label, kw) in (('insecure', {}),
                        ('secure', {'ssl': True, 'validate': True}),
                        ('forced', {'force': True}),
                        ('ssl-novalidate', {'ssl': True}),
                        ('insecure-reset', {'reset_on_reconnect': True})):
        yield ('sts-' + label, PLAIN, [
            ('feed', ls('sts=port=6697,duration=300,preload multi-prefix',
                        star=True)),
            ('feed', ls('sts=duration=1 sasl', star=True)),
            ('feed', ls('sts=port=abc')),
            ('feed', ls('sts=port=6697,duration=xyz')),
            ('feed', ls('sts=port=6697')),
            ('feed', ls('sts= a')),
            ('feed', ls('sts')),
            ('feed', new('sts=port=1,duration=2 batch', '*')),
            ('feed', new('sts', '*')),
            ('feed', ack('multi-prefix')),
        ], {'driver_kw': kw})
    yield ('direct-calls', PLAIN, [
        ('call', 'capUpkeep', '<msg>'),
        ('fsm', 'INIT_SASL'),
        ('call', 'capUpkeep', '<msg>'),
        ('call', 'tryNextSaslMechanism', '<msg>'),
        ('call', 'tryNextSaslMechanism', '<msg>'),
        ('fsm', 'CONNECTED_SASL'),
        ('call', 'tryNextSaslMechanism', '<msg>'),
        ('call', 'endCapabilityNegociation', '<msg>'),
        ('fsm', 'INIT_CAP_NEGOTIATION'),
        ('call', '_requestCaps', ['echo-message']),
        ('call', '_requestCaps', {'echo-message', 'labeled-response', 'a'}),
        ('call', '_requestCaps', ('z', 'b', 'echo-message')),
        ('call', '_requestCaps', ['x' * 300, 'y' * 300, 'echo-message',
                                   'labeled-response']),
        ('call', '_requestCaps', []),
        ('call', '_maybeStartSasl', '<msg>'),
        ('call', '_abortIfSaslRequired'),
        ('call', 'sendSaslString', b''),
        ('call', 'sendSaslString', b'x' * 300),
        ('call', 'sendSaslString', b'x' * 301),
        ('call', 'endCapabilityNegociation', '<msg>'),
        ('call', 'endCapabilityNegociation', '<msg>'),
        ('call', '_getNextNick'),
        ('call', '_getNextNick'),
        ('call', '_getNextNick'),
        ('call', '_getNextNick'),
        ('call', 'sendAuthenticationMessages'),
        ('call', '_queueConnectMessages'),
        ('call', 'do908', '<msg>'),
        ('call', 'doAuthenticate', '<msg>'),
    ], {})
    yield ('other-network', PLAIN, [
        ('feed', ls('sasl multi-prefix')),
        ('feed', ack('multi-prefix sasl')),
    ], {'network': 'other'})
    yield ('after-other-network', {}, [
        ('feed', ls('sasl multi-prefix')),
        ('feed', ack('multi-prefix')),
    ], {})

def random_scripts():
    A = 'AUTHENTICATE '
    caps_pool = ALLCAPS.split() + ['sasl', 'sasl=PLAIN', 'sasl=EXTERNAL,PLAIN',
        'sasl=SCRAM-SHA-256,ECDSA-NIST256P-CHALLENGE,plain', 'sasl=',
        'foo', 'draft/bar=1', '=multi-prefix', '~batch', 'sts=port=6697',
        'sts=port=6697,duration=10']
    configs = [{}, PLAIN, PLAIN_REQ, EXTERNAL, EXTERNAL_GLOBAL, ecdsa(GOODKEY),
               ecdsa(BADKEY), SCRAM, EVERYTHING,
               dict(EVERYTHING, **{'sasl.required': True}), LONG, NICKS,
               dict(PLAIN, **{'sasl.mechanisms': []}),
               dict(PLAIN, **{'sasl.mechanisms': ['external', 'plain']})]
    drivers = [{}, {}, {'reset_on_reconnect': True},
               {'ssl': True, 'validate': True}]
    for i in range(400):
        r = random.Random(1000 + i)
        cfg = configs[i % len(configs)]
        ops = []
        requested_guess = sorted(set(c.split('=')[0].lstrip('=~')
                                     for c in caps_pool))
        for _ in range(r.randint(5, 40)):
            k = r.random()
            def somecaps(lo=0, hi=6, pool=caps_pool):
                return ' '.join(r.sample(pool, r.randint(lo, hi)))
            if k < 0.18:
                ops.append(('feed', ls(somecaps(), star=r.random() < 0.3)))
            elif k < 0.34:
                ops.append(('feed', ack(somecaps(1, 5, requested_guess))))
            elif k < 0.42:
                ops.append(('feed', nak(somecaps(1, 3, requested_guess))))
            elif k < 0.48:
                ops.append(('feed', new(somecaps(1, 3))))
            elif k < 0.54:
                ops.append(('feed', dele(somecaps(1, 3))))
            elif k < 0.66:
                ops.append(('feed', A + r.choice(
                    ['+', b64(b'r=abc'), b64(b'bad'), b64(b'v=x'),
                     'x' * 400, '*', b64(b'challenge')])))
            elif k < 0.80:
                n = r.choice(['900', '901', '902', '903', '903', '904', '904',
                              '905', '906', '907', '908'])
                rest = 'PLAIN,EXTERNAL :mechs' if n == '908' else ':text'
                ops.append(('feed', num(n, rest)))
            elif k < 0.88:
                ops.append(('feed', r.choice(WELCOME + MOTD +
                                             [num('422', ':No MOTD')])))
            elif k < 0.93:
                ops.append(('feed', num(r.choice(['432', '433', '437']),
                                        'x :nick problem', '*')))
            elif k < 0.96:
                ops.append(('feed', r.choice(
                    ['PING :x', 'ERROR :Closing Link: bye',
                     'ERROR :too fast', 'ERROR :other'])))
            else:
                ops.append(('reset',))
        yield ('random-%d' % i, cfg, ops,
               {'driver_kw': drivers[i % len(drivers)], 'seed': i})

class Server_(object):
    """A mostly conformant server with random choices."""
    def __init__(self, r):
        self.r = r
        r = self.r
        pool = ALLCAPS.split() + ['foo', 'draft/bar=1']
        self.caps = r.sample(pool, r.randint(0, len(pool)))
        sasl = r.choice([None, 'sasl', 'sasl=PLAIN', 'sasl=EXTERNAL,PLAIN',
                         'sasl=SCRAM-SHA-256,ECDSA-NIST256P-CHALLENGE,PLAIN',
                         'sasl=SCRAM-SHA-256', 'sasl=ecdsa-nist256p-challenge'])
        if sasl:
            self.caps.append(sasl)
        self.mechs = r.sample(['PLAIN', 'EXTERNAL', 'SCRAM-SHA-256',
                               'ECDSA-NIST256P-CHALLENGE'],
                              r.choice([0, 1, 2, 3, 4, 4, 4, 4]))
        self.accept = max(r.random(), r.random())
        self.nak = r.random() < 0.25
        self.collisions = r.choice([0, 0, 1, 3])
        self.registered = False
        self.extras = r.choice([0, 0, 1, 2])
        self.resets = r.choice([0, 0, 0, 1])
        self.mech = None
        self.step = 0
        self.nick = '*'
        self.acked = set()
    def __call__(self, sent):
        r = self.r
        out = []
        for line in sent:
            (cmd, _, rest) = line.partition(' ')
            if line.startswith('@'):
                (cmd, _, rest) = rest.partition(' ')
            rest = rest.lstrip(':')
            if cmd == 'CAP' and rest.startswith('LS'):
                caps = list(self.caps)
                r.shuffle(caps)
                if r.random() < 0.3 and len(caps) > 2:
                    out.append(('feed', ls(' '.join(caps[:2]), star=True,
                                           nick=self.nick)))
                    caps = caps[2:]
                out.append(('feed', ls(' '.join(caps), nick=self.nick)))
            elif cmd == 'CAP' and rest.startswith('REQ'):
                caps = rest[len('REQ :'):]
                assert rest.startswith('REQ :'), rest
                known = set(c.split('=')[0] for c in self.caps)
                if self.nak and r.random() < 0.5 \
                        or not set(caps.split()) <= known:
                    out.append(('feed', nak(caps, self.nick)))
                else:
                    self.acked |= set(caps.split())
                    out.append(('feed', ack(caps, self.nick)))
            elif cmd == 'CAP' and rest.startswith('END'):
                if self.resets and r.random() < 0.5:
                    self.resets -= 1
                    self.__init__(r)
                    out.append(('reset',))
                    continue
                self.registered = True
                self.nick = 'test'
                out.extend(('feed', l) for l in WELCOME)
                if r.random() < 0.3:
                    out.append(('feed', num('422', ':No MOTD')))
                else:
                    out.extend(('feed', l) for l in MOTD)
                for _ in range(self.extras):
                    pool = [c for c in ALLCAPS.split() + ['sasl=PLAIN']]
                    if r.random() < 0.6:
                        out.append(('feed', new(' '.join(r.sample(pool, 2)))))
                    elif self.acked:
                        gone = r.sample(sorted(self.acked), 1)
                        self.acked -= set(gone)
                        out.append(('feed', dele(' '.join(gone))))
                    self.caps.extend(pool)
                out.append(('feed', 'PING :are-you-there'))
            elif cmd == 'NICK':
                if self.collisions:
                    self.collisions -= 1
                    out.append(('feed', num(r.choice(['433', '432', '437']),
                                            '%s :nope' % rest.lstrip(':'),
                                            self.nick)))
            elif cmd == 'AUTHENTICATE':
                arg = rest.lstrip(':')
                if arg == '*':
                    out.append(('feed', num('906', ':aborted', self.nick)))
                elif arg.upper() in ('PLAIN', 'EXTERNAL', 'SCRAM-SHA-256',
                                     'ECDSA-NIST256P-CHALLENGE') \
                        and self.mech is None:
                    if arg in self.mechs:
                        self.mech = arg
                        self.step = 0
                        out.append(('feed', 'AUTHENTICATE +'))
                    else:
                        out.append(('feed', num(
                            '908', ','.join(self.mechs) + ' :are available',
                            self.nick)))
                        out.append(('feed', num('904', ':failed', self.nick)))
                elif len(arg) == 400:
                    pass            # more to come
                else:
                    self.step += 1
                    if self.mech == 'SCRAM-SHA-256' and self.step == 1:
                        out.append(('feed', 'AUTHENTICATE ' + b64(
                            r.choice([b'r=abc', b'r=' + b'n' * 350, b'bad']))))
                    elif self.mech == 'SCRAM-SHA-256' and self.step == 2:
                        out.append(('feed', 'AUTHENTICATE ' + b64(
                            r.choice([b'v=sig', b'v=sig', b'bad', b'err']))))
                    elif self.mech == 'ECDSA-NIST256P-CHALLENGE' \
                            and self.step == 1:
                        out.append(('feed', 'AUTHENTICATE ' + b64(
                            b'challenge' * r.randint(1, 60))))
                    else:
                        self.mech = None
                        if r.random() < self.accept:
                            out.append(('feed', num(
                                '900', 'test!u@h acc :logged in', self.nick)))
                            out.append(('feed', num('903', ':ok', self.nick)))
                        else:
                            out.append(('feed', num(
                                r.choice(['904', '904', '905']), ':no',
                                self.nick)))
            if out and out[-1][0] == 'feed' and (
                    ' 904 ' in out[-1][1] or ' 905 ' in out[-1][1]
                    or ' 906 ' in out[-1][1]):
                self.mech = None
        return out

def conformant_scripts():
    configs = [{}, PLAIN, PLAIN_REQ, EXTERNAL, EXTERNAL_GLOBAL, ecdsa(GOODKEY),
               ecdsa(BADKEY), SCRAM, EVERYTHING,
               dict(EVERYTHING, **{'sasl.required': True}), LONG, LONG400,
               NICKS, dict(PLAIN, **{'sasl.mechanisms': []}),
               dict(PLAIN, **{'sasl.mechanisms': ['external', 'plain']}),
               dict(EVERYTHING, **{'sasl.mechanisms': [
                   'plain', 'ecdsa-nist256p-challenge', 'scram-sha-256']})]
    drivers = [{}, {}, {'reset_on_reconnect': True}]
    for i in range(480):
        yield ('conformant-%d' % i, configs[i % len(configs)],
               Server_(random.Random(5000 + i)),
               {'driver_kw': drivers[i % len(drivers)], 'seed': i,
                'libs': (i % 7 != 3, i % 11 != 5)})

def helpers():
    """Direct tests of the helper functions the handlers rely on."""
    for n in (0, 1, 299, 300, 301, 599, 600, 601, 1200):
        rec('authgen', n, list(ircutils.authenticate_generator(b'\xff' * n)))
        rec('authgen-raw', n, list(ircutils.authenticate_generator(
            'z' * n, base64ify=False)))
    for chunks in (['+'], ['YWJj'], ['x' * 400, '+'], ['x' * 400, 'eHh4'],
                   ['x' * 400, 'x' * 400, '+'], ['x' * 400], ['%%%'],
                   ['YWJj', 'ZGVm']):
        d = ircutils.AuthenticateDecoder()
        try:
            for c in chunks:
                d.feed(ircmsgs.IrcMsg(command='AUTHENTICATE', args=(c,)))
                rec('decoder-ready', d.ready, d.chunks)
            rec('decoder', chunks, d.get())
        except BaseException as e:
            rec('decoder-exception', chunks, e)
    try:
        ircutils.AuthenticateDecoder().feed(
            ircmsgs.IrcMsg(command='PRIVMSG', args=('a', 'b')))
    except BaseException as e:
        rec('decoder-exception', e)
    class L(object):
        def error(self, fmt, *args):
            rec('sts-log', fmt, args)
    for policy in ('port=6697,duration=300', 'duration=300', 'port=6697',
                   'port=,duration=5', 'port=x', 'port=6697,duration=y',
                   'port=1,port=2,duration=3,foo,bar=baz=qux', '', ',', '=',
                   'port=6697,duration', 'duration=1,port=2', 'PORT=1'):
        for pd in (True, False):
            rec('sts-parse', policy, pd, ircutils.parseStsPolicy(L(), policy, pd))
    fsm = irclib.IrcStateFsm()
    States = irclib.IrcStateFsm.States
    class FakeIrc(object):
        callbacks = [Recorder()]
    for state in States:
        for method in ('on_init_messages_sent', 'on_sasl_cap',
                       'on_sasl_auth_finished', 'on_cap_end', 'on_start_motd',
                       'on_end_motd', 'on_shutdown'):
            fsm.state = state
            try:
                if method == 'on_init_messages_sent':
                    r = getattr(fsm, method)(FakeIrc())
                else:
                    r = getattr(fsm, method)(FakeIrc(), 'msg')
                rec('fsm', state, method, r, fsm.state)
            except BaseException as e:
                rec('fsm-exception', state, method, e, fsm.state)
        for expected in ([], [state], list(States)[:3], (state,), {state}):
            fsm.state = state
            try:
                rec('expect', fsm.expect_state(expected))
            except BaseException as e:
                rec('expect-exception', e if not isinstance(expected, set)
                    else type(e).__name__)
    fsm.reset()
    rec('fsm-reset', fsm.state)
    rec('slots', irclib.IrcStateFsm.__slots__,
        sorted(k for k in vars(irclib.IrcStateFsm) if not k.startswith('_')))
    rec('public-irc', sorted(k for k in vars(irclib.Irc)
                             if not k.startswith('_')))
    rec('public-state', sorted(k for k in vars(irclib.IrcState)
                               if not k.startswith('_')))
    d = irclib.IrcCommandDispatcher()
    import warnings
    class D(irclib.IrcCommandDispatcher):
        def doCap(self): pass
        def doCapLs(self): pass
        def doFail(self): pass
        def doFailFoo(self): pass
        def do001(self): pass
        def doPrivmsg(self): pass
    d = D()
    for (cmd, args) in (('CAP', ['*', 'LS']), ('cap', ['*', 'ls', 'x']),
                        ('CAP', ['*', 'ACK']), ('CAP', ['*']), ('CAP', []),
                        ('FAIL', ['FOO', 'x']), ('FAIL', ['BAR']),
                        ('FAIL', []), ('WARN', ['FOO']), ('001', ['x']),
                        ('privmsg', ['x']), ('NOTE', ['x']), ('002', [])):
        m = d.dispatchCommand(cmd, args)
        rec('dispatch', cmd, args, None if m is None else m.__name__)
    with warnings.catch_warnings(record=True) as w:
        warnings.simplefilter('always')
        m = d.dispatchCommand('CAP')
        rec('dispatch-noargs', m.__name__, [str(x.message) for x in w],
            [x.category.__name__ for x in w])

def main():
    helpers()
    count = 0
    for (name, cfg, ops, kw) in (list(handwritten()) + list(random_scripts())
                                 + list(conformant_scripts())):
        before = len(RECORD)
        run_scenario(name, cfg, ops, **kw)
        count += 1
    blob = json.dumps(RECORD, sort_keys=True, ensure_ascii=True)
    blob = blob.replace(base_dir, '<BASE>')
    digest = hashlib.sha256(blob.encode()).hexdigest()
    if '--dump' in sys.argv:
        with open(sys.argv[sys.argv.index('--dump') + 1], 'w') as fd:
            for item in RECORD:
                fd.write(json.dumps(item, sort_keys=True).replace(
                    base_dir, '<BASE>') + '\n')
    stats = {}
    for item in RECORD:
        stats[item[1]] = stats.get(item[1], 0) + 1
    print('scenarios: %d, records: %d' % (count, len(RECORD)))
    print('digest: %s' % digest)
    if digest == EXPECTED:
        print('PASS')
        return 0
    print('FAIL: expected digest %s' % EXPECTED)
    return 1

if __name__ == '__main__':
    code = 2
    try:
        code = main()
    except BaseException:
        import traceback
        traceback.print_exc()
    finally:
        shutil.rmtree(base_dir, ignore_errors=True)
        sys.stdout.flush()
        sys.stderr.flush()
        os._exit(code)
