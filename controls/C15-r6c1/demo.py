#!/usr/bin/env python
"""Equivalence demo for the C15 controls (configuration save/reload, atomic
rejection of bad values, channel/network specific values).

Drives src/registry.py, src/conf.py, src/utils/gen.py and the Config plugin
(through a real in-process bot) over many edge cases, records every observable
result (return values, exceptions and their messages, messages the bot sends,
bytes of the files written, calls of registry.exception/registry.error,
warnings issued) and compares the SHA-256 of that transcript with the one
recorded on the unmodified tree.

  python _mutants/cN/demo.py            -> PASS / FAIL
  python _mutants/cN/demo.py --dump F   -> also writes the transcript to F
"""
import os
import sys

EXPECTED = '9cc41c8ab4794a3f7559364a056c01bf8941d16f508d92f22c7fc3df6cd5610d'

if os.environ.get('PYTHONHASHSEED') != '0':
    # set iteration order must be the same in every run
    os.environ['PYTHONHASHSEED'] = '0'
    os.execv(sys.executable, [sys.executable] + sys.argv)

sys.path.insert(0, os.getcwd())

import re
import shutil
import hashlib
import tempfile
import warnings
import traceback

SCRATCH = tempfile.mkdtemp(prefix='c15demo')
OBS = []


def clean(s):
    s = s.replace(SCRATCH, '<S>')
    s = re.sub(r' at 0x[0-9a-f]+', ' at 0x?', s)
    return s


def obs(label, value):
    if not isinstance(value, str):
        value = repr(value)
    OBS.append(clean('%s = %s' % (label, value)))


def sstr(v):
    try:
        return str(v)
    except BaseException as e:
        return 'RAISED %s: %s' % (e.__class__.__name__, e)


def attempt(label, f, *args, **kwargs):
    """Records the result of f(*args) or the exception it raises."""
    try:
        r = f(*args, **kwargs)
    except BaseException as e:
        extra = ''
        if e.__context__ is not None and not e.__suppress_context__:
            extra = ' <ctx %s>' % e.__context__.__class__.__name__
        if e.__cause__ is not None:
            extra += ' <cause %s>' % e.__cause__.__class__.__name__
        for attr in ('value', 'channel'):
            if hasattr(e, attr):
                v = getattr(e, attr)
                extra += ' <%s %s>' % (attr, getattr(v, '_name', v))
        obs(label, 'RAISED %s: %s%s' % (e.__class__.__name__, e, extra))
        return None
    obs(label, 'OK %r' % (r,))
    return r


def main():
    for d in ('conf', 'data', 'logs', 'backup', 'data/tmp', 'plugins'):
        os.makedirs(os.path.join(SCRATCH, d))
    regfile = os.path.join(SCRATCH, 'conf', 'test.conf')
    with open(regfile, 'w') as fd:
        fd.write("""
supybot.directories.data: %(b)s/data
supybot.directories.conf: %(b)s/conf
supybot.directories.log: %(b)s/logs
supybot.directories.backup: %(b)s/backup
supybot.reply.whenNotCommand: True
supybot.log.stdout: False
supybot.log.stdout.level: CRITICAL
supybot.log.level: DEBUG
supybot.log.format: %%(levelname)s %%(message)s
supybot.log.plugins.individualLogfiles: False
supybot.protocols.irc.throttleTime: 0
supybot.reply.whenAddressedBy.chars: @
supybot.networks.test.server: should.not.need.this
supybot.networks.testnet2.server: should.not.need.this
supybot.nick: test
supybot.abuse.flood.command: False
supybot.abuse.flood.command.invalid: False
supybot.reply.mores.length.#Preset: 300
supybot.reply.mores.length.:testnet2: 250
supybot.reply.mores.length.:testnet2.#preset2: 260
supybot.reply.mores.length.:testnet2.notachannel: 270
supybot.reply.mores.length.notachannel: 280
supybot.reply.withNotice.:testnet2: True
supybot.reply.withNotice.#other: True
supybot.commands.quotes.#q: `
""" % {'b': SCRATCH})

    import supybot
    import supybot.registry as registry
    registry.open_registry(regfile)
    import supybot.log as log
    import supybot.conf as conf
    conf.supybot.flush.setValue(False)
    import supybot.utils as utils
    import supybot.world as world
    import supybot.ircdb as ircdb
    import supybot.irclib as irclib
    import supybot.ircmsgs as ircmsgs
    import supybot.ircutils as ircutils
    import supybot.plugin as plugin
    import supybot.callbacks as callbacks
    world.registryFilename = regfile

    # every call of the registry's logging hooks is an observable
    def hook(name):
        def f(*args, **kwargs):
            ei = sys.exc_info()
            obs('LOG registry.%s' % name, (args, kwargs,
                getattr(ei[0], '__name__', None), str(ei[1])))
        return f
    registry.exception = hook('exception')
    registry.error = hook('error')
    logged = []
    origLogException = log.exception
    def logException(*args, **kwargs):
        logged.append(args)
        ei = sys.exc_info()
        obs('LOG log.exception', (args[:1], getattr(ei[0], '__name__', None),
                                  str(ei[1])))
    log.exception = logException

    ######################################################################
    # 1. names: escape / unescape / split / join / isValidRegistryName
    ######################################################################
    names = ['a', 'a.b', 'a:b', 'a\\', 'a\\.b', '#foo\\', '#chan.nel', ':net',
             'x\ty', 'caf\xe9', '\u20ac', '', '.', '..', 'a..b', '\\\\', 'a\\:b',
             '#a:b.c\\', ' sp ', 'a b', '_x', 'x_', '\x01\x7f', 'a\nb']
    for n in names:
        e = attempt('escape(%r)' % n, registry.escape, n)
        if e is not None:
            attempt('unescape(escape(%r))' % n, registry.unescape, e)
        attempt('split(%r)' % n, registry.split, n)
        attempt('isValidRegistryName(%r)' % n, registry.isValidRegistryName, n)
        for sub in ('.', ': ', ':'):
            attempt('_unescapedFind(%r,%r)' % (n, sub),
                    registry._unescapedFind, n, sub)
            attempt('_unescapedFind(%r,%r,1)' % (n, sub),
                    registry._unescapedFind, n, sub, 1)
    for i in range(len(names) - 2):
        L = names[i:i+3]
        j = attempt('join(%r)' % L, registry.join, L)
        if j is not None:
            attempt('split(join(%r))' % L, registry.split, j)

    ######################################################################
    # 2. utils.gen: safeEval, InsensitivePreservingDict, sortBy, exnToString
    ######################################################################
    exprs = ['1', '"a"', "'a'", 'b"a"', '[1, "a", (2, 3)]', '{"a": 1}',
             '{"a": [1, {2: 3}]}', '{f(): 1}', '{1: f()}', 'True', 'None',
             'False', 'foo', 'foo.bar', '__import__("os")', '1+1', '-1', '',
             '(', '"a" "b"', '"\\x00"', '"\\', 'lambda: 1', '[x for x in y]',
             '1.5', '1j', '...', '(1,)', '[]', '{}', '()', '[foo]', '(None, True)',
             '"caf\xe9"', "'it''s'", '"""x"""', 'u"x"', 'f"x"', '{1, 2}',
             '`1`', '1 if 2 else 3', 'a\nb', '"a\nb"', ' 1', '1 ', '\t"x"']
    for e in exprs:
        for ns in (None, {}, {'foo': 1, 'True': 2}, ['foo']):
            with warnings.catch_warnings(record=True) as w:
                warnings.simplefilter('always')
                attempt('safeEval(%r,%r)' % (e, ns), utils.safeEval, e, ns)
            obs('  warnings', sorted((x.category.__name__, str(x.message))
                                     for x in w))
    D = utils.InsensitivePreservingDict
    d = D({'Foo': 1, 'BAR': 2})
    d['foo'] = 3
    d['Baz'] = 4
    obs('ipd repr', repr(d))
    obs('ipd iter', list(d))
    obs('ipd keys', d.keys())
    obs('ipd items', list(d.items()))
    obs('ipd values', list(d.values()))
    obs('ipd len', len(d))
    obs('ipd in', ('FOO' in d, 'nope' in d, d['BAZ'], d.get('x', 7)))
    del d['BAR']
    attempt('ipd del missing', d.__delitem__, 'bar')
    attempt('ipd get missing', d.__getitem__, 'bar')
    obs('ipd keys2', d.keys())
    obs('ipd keys type', type(d.keys()).__name__)
    obs('ipd reduce', d.__reduce__()[1])
    obs('ipd fromkeys', repr(D.fromkeys(['A', 'a', 'B'], 5)))
    obs('ipd pop', (d.pop('FOO'), d.keys(), d.setdefault('Q', 1), d.keys()))
    attempt('ipd key=', D, {'a': 1}, key=str.upper)
    d.clear()
    obs('ipd cleared', (len(d), d.keys(), list(d.items())))
    obs('ipd eq', (D({'A': 1}) == D({'a': 1}), D({'A': 1}) == {'a': 1}))
    for L in (['b', 'A', 'c', 'a', 'B'], [], ['x'], ['#b', ':a', '@C', 'c']):
        L2 = L[:]
        attempt('sortBy(lower,%r)' % L, utils.sortBy, str.lower, L2)
        obs('  sorted', L2)
    for e in (ValueError(), ValueError('x'), KeyError('k'), OSError(2, 'm')):
        obs('exnToString', utils.exnToString(e))

    ######################################################################
    # 3. open_registry on hand-written files
    ######################################################################
    files = {
        'plain': 'a.b: 1\nc: two words\n',
        'comment_blank': '# c\n\n   \na: 1\n#b: 2\n \t \nc: 3\n',
        'crlf': 'a: 1\r\nb: x y \r\n',
        'cont_odd': 'a: one \\\n   two\nb: 3\n',
        'cont_even': 'a: one \\\\\nb: 3\n',
        'cont_three': 'a: one \\\\\\\n two \\\n  three\nb: 3\n',
        'cont_comment': 'a: one \\\n# not a comment?\n two\nb: 1\n',
        'cont_eof': 'a: one \\\n',
        'nosep': 'a: 1\njunk\n',
        'nosep_first': 'junk\na: 1\n',
        'colon_nospace': 'a:1\n',
        'escaped_sep': 'a\\: b: c: d\n',
        'esc_backslash_sep': 'a\\\\: b: c\n',
        'bad_escape': 'a: \\x\n',
        'bad_escape2': 'ok: 1\na: \\N{nope}\nlater: 2\n',
        'unicode_escape': 'a: caf\\xe9 \\u20ac \\n \\t \\\\ end\n',
        'raw_unicode': 'a: caf\xe9\n',
        'spaces': '  a  :   padded  \n',
        'empty_value': 'a: \nb:  \n',
        'dup': 'a: 1\nA: 2\nb: 3\n',
        'trailing_bs_name': 'supybot.x.#foo\\\\: 1\n',
        'only_sep': ': \n',
        'tab_value': 'a: \tx\t\n',
    }
    for (name, text) in sorted(files.items()):
        p = os.path.join(SCRATCH, 'reg_' + name)
        with open(p, 'w', encoding='utf8', newline='') as fd:
            fd.write(text)
        registry._cache.clear()
        registry._cache['pre'] = 'existing'
        before = registry._lastModified
        attempt('open_registry(%s)' % name, registry.open_registry, p)
        obs('  cache', list(registry._cache.items()))
        obs('  lastModified moved', registry._lastModified != before)
        attempt('open_registry(%s, clear)' % name, registry.open_registry, p,
                clear=True)
        obs('  cache', list(registry._cache.items()))
    attempt('open_registry(missing)', registry.open_registry,
            os.path.join(SCRATCH, 'nope'), True)
    obs('  cache', list(registry._cache.items()))
    registry.open_registry(regfile, clear=True)

    ######################################################################
    # 4. Group API
    ######################################################################
    root = registry.Group(help='root   help\n here')
    root.setName('demo')
    attempt('group call', root)
    attempt('group str attr', getattr, root, '_nope')
    attempt('group missing', getattr, root, 'missing')
    attempt('group get missing', root.get, 'missing')
    attempt('group hasattr', hasattr, root, 'missing')
    attempt('register bad name', root.register, 'a b')
    attempt('register bad name2', root.register, '_x')
    attempt('register bad name3', root.register, '')
    g1 = root.register('Sub')
    g2 = root.register('sub', registry.Group(help='new help'))
    obs('reregister same', (g1 is g2, g1._help, g1._name))
    g3 = root.register('SUB', registry.Group())
    obs('reregister no help', (g1 is g3, g1._help))
    root.register('zeta', registry.Integer(1, 'z help'))
    root.register('Alpha', registry.String('a', 'a help'))
    root.register('beta', registry.Boolean(True, 'b help', private=True))
    root.register('we.ird', registry.String('w', 'dotted'))
    root.register('co:lon', registry.String('c', ''))
    root.register('bs\\', registry.String('b', 'backslash name'))
    root.Sub.register('inner', registry.Float(1.5, 'inner'))
    priv = root.register('Priv', registry.Group(private=True))
    priv.register('child', registry.String('secret', 'inherits private'))
    obs('private inherited', priv.child._private)
    unordered = root.register('unord', registry.Group(orderAlphabetically=False))
    for n in ('b', 'C', 'a'):
        unordered.register(n, registry.Integer(1, n))
    for gc in (False, True):
        for fn in (False, True):
            obs('getValues(%s,%s)' % (gc, fn),
                [(n, v.__class__.__name__) for (n, v) in
                 root.getValues(getChildren=gc, fullNames=fn)])
    obs('_added', root._added)
    obs('unord._added', unordered._added)
    obs('children', list(root._children.keys()))
    obs('__hasattr__', (root.__hasattr__('ALPHA'), root.__hasattr__('nope')))
    node = attempt('unregister', root.unregister, 'ALPHA')
    obs('after unregister', (root._added, list(root._children.keys())))
    attempt('unregister again', root.unregister, 'alpha')
    attempt('rename', root.rename, 'zeta', 'Omega')
    obs('after rename', (root._added, root.Omega._name, root.Omega()))
    attempt('rename missing', root.rename, 'zeta', 'x')
    registry._cache['demo.cached'] = '42'
    registry._cache['demo.unreg'] = '43'
    c = root.register('cached', registry.Integer(0, 'from cache'))
    obs('cached value', c())
    u = root.register('unreg', registry.Integer(0, 'x'))
    root.unregister('UNREG')
    obs('cache after unregister', 'demo.unreg' in registry._cache)
    obs('help', (root.help(), root.zeta.help() if root.__hasattr__('zeta')
                 else None, root.Omega.help()))

    ######################################################################
    # 5. every value class x nasty strings: set / setValue / str / serialize
    ######################################################################
    nasty = ['', ' ', 'plain', ' lead', 'trail ', '  both  ', '"quoted"',
             "'single'", '"unbalanced', "it's", 'a: b', 'key: value # c',
             '#hash', 'back\\slash', 'trailing\\', 'dbl\\\\', 'tab\there',
             'nl\nhere', 'cr\rhere', '\x00nul', '\x01\x02ctl', '\x7f',
             'caf\xe9', '\u20ac\u4e2d', '\U0001f600', 'a,b', 'a, b', ' , ',
             'a b', 'True', 'off', 'toggle', 'TOGGLE ', '1', '0', '-1', '007',
             '1.5', '-0.0', '1e3', 'nan', 'inf', '0.5', '1.0', '2', ' 3 ',
             'm/foo/', '/foo/i', 'm/(/', 's/a/b/', 'foo', 'm#a#', '[1, 2]',
             '{"a": 1}', '"str"', 'null', '{bad', '$text', '${text}x',
             '$textual', 'x $text y', '"', "'", '""', "''", '\'"', '`', '"`\'',
             '\\n', '\\x41', 'a\\', ' "x" ', '"x" ', '\t', '"\\', "'a\\'",
             '" "', '[]', '<>', '{}', '()', '[ ]', 'EXACT', 'nick HOST',
             'exact nope', 'Plain', 'PLAIN', 'default', 'SOCKET']
    class Brackets(registry.OnlySomeStrings):
        validStrings = ('', '[]', '<>', '{}', '()', 'Plain')
    class Templ(registry.TemplatedString):
        requiredTemplates = ['text']
    class Templ2(registry.TemplatedString):
        requiredTemplates = ['a', 'text']
    class SpaceInts(registry.SpaceSeparatedListOf):
        Value = registry.Integer
    class SortedSet(registry.SpaceSeparatedSetOfStrings):
        sorted = True
    classes = [
        ('String', registry.String, 'dflt'),
        ('Boolean', registry.Boolean, False),
        ('Integer', registry.Integer, 5),
        ('NonNegativeInteger', registry.NonNegativeInteger, 5),
        ('PositiveInteger', registry.PositiveInteger, 5),
        ('Float', registry.Float, 2.5),
        ('PositiveFloat', registry.PositiveFloat, 2.5),
        ('Probability', registry.Probability, 0.25),
        ('Brackets', Brackets, '[]'),
        ('NormalizedString', registry.NormalizedString, ' d  flt '),
        ('StringSurroundedBySpaces', registry.StringSurroundedBySpaces, 'd'),
        ('StringWithSpaceOnRight', registry.StringWithSpaceOnRight, 'd'),
        ('Regexp', registry.Regexp, ''),
        ('RegexpD', registry.Regexp, 'm/d/i'),
        ('SpaceSeparatedListOfStrings',
            registry.SpaceSeparatedListOfStrings, ['d', 'e']),
        ('SpaceSeparatedSetOfStrings',
            registry.SpaceSeparatedSetOfStrings, ['d']),
        ('SortedSet', SortedSet, ['z', 'd']),
        ('SpaceInts', SpaceInts, [1, 2]),
        ('CommaSeparatedListOfStrings',
            registry.CommaSeparatedListOfStrings, ['d', 'e f']),
        ('CommaSeparatedSetOfStrings',
            registry.CommaSeparatedSetOfStrings, ['d']),
        ('Templ', Templ, '$text'),
        ('Templ2', Templ2, '$a ${text}'),
        ('Json', registry.Json, {'k': [1, None]}),
        ('ValidNick', conf.ValidNick, 'nick'),
        ('ValidNickOrEmpty', conf.ValidNickOrEmpty, ''),
        ('ValidNicks', conf.ValidNicks, ['n1', 'n2']),
        ('ValidNickAllowingPercentS', conf.ValidNickAllowingPercentS, '%s_'),
        ('ValidNicksAllowingPercentS',
            conf.ValidNicksAllowingPercentS, ['%s`']),
        ('ValidChannel', conf.ValidChannel, '#d'),
        ('ValidHostmask', conf.ValidHostmask, 'a!b@c'),
        ('VersionIfEmpty', conf.VersionIfEmpty, ''),
        ('Networks', conf.Networks, []),
        ('Servers', conf.Servers, []),
        ('SocksProxy', conf.SocksProxy, 'h:1'),
        ('SpaceSeparatedSetOfChannels',
            conf.SpaceSeparatedSetOfChannels, ['#b', '#a']),
        ('ValidSaslMechanism', conf.ValidSaslMechanism, 'plain'),
        ('SpaceSeparatedListOfSaslMechanisms',
            conf.SpaceSeparatedListOfSaslMechanisms, ['plain']),
        ('ValidPrefixChars', conf.ValidPrefixChars, '@'),
        ('DatabaseRecordTemplatedString',
            conf.DatabaseRecordTemplatedString, '$text'),
        ('ValidQuotes', conf.ValidQuotes, '"'),
        ('ValidBrackets', conf.ValidBrackets, '[]'),
        ('ValidDriverModule', conf.ValidDriverModule, 'default'),
        ('Databases', conf.Databases, []),
        ('ChannelSpecific', conf.ChannelSpecific, True),
        ('Banmask', conf.Banmask, ['host']),
        ('HttpProxy', conf.HttpProxy, ''),
        ('HttpRequestLanguage', conf.HttpRequestLanguage, ''),
        ('HttpUserAgents', conf.HttpUserAgents, []),
        ('IP', conf.IP, ''),
        ('ListOfIPs', conf.ListOfIPs, ['::1']),
        ('SocketTimeout', conf.SocketTimeout, 10),
    ]
    extras = ['a!b@c', '*!*@*', '#chan', '#chan,key', '#a,b,c', '&x', 'h:80',
              'h:x', '[::1]:6667', 'irc.example.org', '127.0.0.1', '::1',
              '1.2.3', 'nick`', '%s`', '%s%s', 'n1 n2', '@!', '@a',
              'host:8080', 'plain external', 'PLAIN', 'scram-sha-256 nope',
              'exact', 'nick user', 'sqlite3 flat', '10', '0', '1']
    vals = registry.Group()
    vals.setName('vals')
    made = {}
    for (cname, cls, default) in classes:
        v = attempt('construct %s' % cname, cls, default, 'help for %s' % cname)
        if v is None:
            continue
        vals.register(cname, v)
        made[cname] = v
        attempt('  initial', lambda: (v.value, str(v), v.serialize(),
                                      v._wasSet))
        attempt('  initial()', v)
        for s in nasty + extras:
            old = v.value
            oldstr = sstr(v)
            ok = True
            try:
                r = v.set(s)
                res = 'OK %r' % (r,)
            except BaseException as e:
                ok = False
                res = 'RAISED %s: %s' % (e.__class__.__name__, e)
                if hasattr(e, 'value'):
                    res += ' <value %s>' % e.value._name
                if hasattr(e, 'channel'):
                    res += ' <channel %r>' % (e.channel,)
            try:
                after = (repr(v.value), str(v), v.serialize())
            except BaseException as e:
                after = 'RAISED %s: %s' % (e.__class__.__name__, e)
            obs('%s.set(%r)' % (cname, s), '%s -> %r unchanged=%s' % (
                res, after, (v.value == old and sstr(v) == oldstr)))
            if ok:
                # what is written to the file gives the same value back
                w = cls(default, '')
                try:
                    w.set(registry.decoder(v.serialize())[0])
                    same = (w.value == v.value, str(w) == str(v))
                except BaseException as e:
                    same = 'RAISED %s: %s' % (e.__class__.__name__, e)
                obs('  reparse', same)
            attempt('  call', v)
    # setValue with python objects
    pyvals = [None, 0, 1, -1, 2.5, -2.5, True, 'x', '', ' x ', [], ['a'],
              ['a b'], ['a', ''], [' a'], ['a,b'], ('a', 'b'), {'a'}, {'k': 1},
              ('m/x/', re.compile('x')), ('a', 'b', 'c'), b'bytes', 'nan',
              float('inf'), 10**20, ['exact'], ['HOST', 'nick'], ['#a', '#A'],
              '#x,k', ['#x,k'], [1, 2], 'a\nb']
    for (cname, cls, default) in classes:
        v = made.get(cname)
        if v is None:
            continue
        for pv in pyvals:
            try:
                v.set(sstr(v))  # known state
            except BaseException:
                pass
            old = repr(v.value)
            try:
                r = v.setValue(pv)
                res = 'OK %r' % (r,)
            except BaseException as e:
                res = 'RAISED %s: %s' % (e.__class__.__name__, e)
            try:
                after = (repr(v.value), str(v))
            except BaseException as e:
                after = 'RAISED %s: %s' % (e.__class__.__name__, e)
            obs('%s.setValue(%r)' % (cname, pv),
                '%s -> %r unchanged=%s' % (res, after, repr(v.value) == old))
    # error() variants
    class NoDoc(registry.Value):
        __doc__ = None
    nd = NoDoc(1, 'h')
    nd.setName('vals.nodoc')
    attempt('error no doc', nd.error)
    attempt('error no doc value', nd.error, 3)
    attempt('Value.error', made['String'].error)
    attempt('Value.error v', made['String'].error, (1, 2))
    attempt('Integer.error tuple', made['Integer'].error, (1, 2))
    attempt('Regexp.error', made['Regexp'].error, 'boom')
    attempt('Brackets help', made['Brackets'].help)
    attempt('Banmask help', made['Banmask'].help)
    attempt('Brackets doc', getattr, made['Brackets'], '__doc__')
    attempt('Brackets normalize', made['Brackets'].normalize, 'PLAIN')
    attempt('Brackets normalize2', made['Brackets'].normalize, 'nope')
    attempt('Banmask normalize', made['Banmask'].normalize, 'HoSt')
    attempt('Banmask normalize2', made['Banmask'].normalize, 'nope')
    attempt('OnlySomeStrings no valid', registry.OnlySomeStrings, '', '')
    attempt('TemplatedString no templates', registry.TemplatedString, '', '')
    attempt('Servers convert', lambda: [
        (s.hostname, s.port) for s in
        (made['Servers'].set('a b:1 [::1]:2') or made['Servers']())])
    attempt('Servers bad port', lambda: (made['Servers'].set('a:b'),
                                         made['Servers']()))
    made['Servers'].set('a')
    attempt('Servers append', made['Servers'].append, 'c:3')
    obs('Servers str', str(made['Servers']))
    attempt('Databases call', lambda: (made['Databases'].set(' '),
                                       made['Databases']()[-5:]))
    attempt('Databases set', lambda: (made['Databases'].set('flat  cdb'),
                                      made['Databases'](),
                                      made['Databases'].serialize()))
    attempt('VersionIfEmpty', lambda: (made['VersionIfEmpty'].set(''),
                                       made['VersionIfEmpty']()))
    attempt('Json editable', lambda: made['Json'].set('{"a": 1}'))
    with made['Json'].editable() as dd:
        dd['b'] = [2]
    obs('Json after editable', (made['Json'](), str(made['Json'])))
    # context manager and callbacks
    s = made['String']
    s.set('before')
    calls = []
    def cb(*a, **k):
        calls.append((a, k, s.value))
    s.addCallback(cb, 1, x=2)
    s.addCallback(cb, 3)
    ctx = s.context('within')
    obs('context enter', (ctx.__enter__(), s.value, ctx._old_value))
    obs('context exit', (ctx.__exit__(None, None, None), s.value))
    try:
        with s.context('again'):
            obs('context with', s())
            raise KeyError('x')
    except KeyError:
        obs('context after raise', s())
    p = made['PositiveInteger']
    p.set('7')
    attempt('context bad value', lambda: p.context(-1).__enter__())
    obs('context bad left', p())
    obs('callbacks', calls)
    s.removeCallback(cb)
    s.set('after')
    obs('callbacks after remove', (len(calls), s._callbacks))
    attempt('directory dirize', lambda: [
        conf.supybot.directories.data.dirize(x) for x in
        ('f.db', os.path.join(SCRATCH, 'data', 'g.db'), '/abs/h.db',
         os.path.join(SCRATCH, 'other', 'i.db'))])
    cwd = os.getcwd()
    os.chdir(SCRATCH)
    try:
        rel = conf.Directory('reldir', 'a relative directory')
        attempt('relative dirize', lambda: [rel.dirize(x) for x in (
            'f.db', 'reldir/g.db', 'reldirx/h.db', 'other/reldir/i.db',
            os.path.join(SCRATCH, 'reldir', 'j.db'), '/abs/k.db', '')])
        obs('relative dir made', os.path.isdir(os.path.join(SCRATCH,
                                                            'reldir')))
    finally:
        os.chdir(cwd)
    attempt('data tmp', conf.supybot.directories.data.tmp)
    attempt('data web', conf.supybot.directories.data.web)

    ######################################################################
    # 6. save / load round trips of the whole lot
    ######################################################################
    logcalls = len(OBS)
    def dumpfile(label, path):
        with open(path, 'rb') as fd:
            data = fd.read()
        obs(label + ' sha', hashlib.sha256(
            clean(data.decode('utf8', 'replace')).encode('utf8')).hexdigest())
        obs(label + ' text', data.decode('utf8', 'replace'))
    settings = [
        ('String', ' lead'), ('String', 'a: b # c'), ('String', '"q"'),
        ('String', 'caf\xe9 \u20ac'), ('String', 'tab\t nl\n bs\\ '),
        ('String', '\x01 x'), ('String', ''), ('String', "'"),
        ('NormalizedString', 'word ' * 40),
        ('NormalizedString', 'x' * 100 + ' y-z ' + 'w' * 90),
        ('NormalizedString', ''),
        ('StringSurroundedBySpaces', 'x'), ('StringWithSpaceOnRight', ''),
        ('Regexp', 'm/a b\\/c/i'), ('Regexp', ''),
        ('SpaceSeparatedSetOfStrings', 'c a b'),
        ('CommaSeparatedListOfStrings', 'a b,  c ,d'),
        ('CommaSeparatedListOfStrings', ''),
        ('Json', '{"a": "caf\\u00e9 \\" \\\\", "b": [1, 2.5, null]}'),
        ('Boolean', 'toggle'), ('Float', '1e-7'), ('Probability', '1'),
        ('Banmask', 'host nick'), ('ValidQuotes', '"`'),
        ('SpaceSeparatedSetOfChannels', '#b #a,key #C'),
        ('Templ', 'x ${text} \\ y'),
    ]
    out = os.path.join(SCRATCH, 'out.conf')
    for (i, (cname, text)) in enumerate(settings):
        attempt('save-set %s %r' % (cname, text), made[cname].set, text)
        if i % 5 == 4 or i == len(settings) - 1:
            attempt('close vals', registry.close, vals, out)
            dumpfile('vals file %d' % i, out)
            want = dict((n, (repr(v.value), sstr(v))) for (n, v) in made.items())
            attempt('reopen vals', registry.open_registry, out, clear=True)
            obs('cache', sorted(registry._cache.items()))
            got = {}
            for (n, v) in made.items():
                try:
                    v()
                    got[n] = (repr(v.value), sstr(v))
                except BaseException as e:
                    got[n] = 'RAISED %s: %s' % (e.__class__.__name__, e)
            obs('roundtrip differences', sorted(
                (n, want[n], got[n]) for n in want if want[n] != got[n]))
    attempt('close vals public', registry.close, vals, out, private=False)
    dumpfile('vals public', out)
    attempt('close demo root', registry.close, root, out, False)
    dumpfile('demo root public', out)
    attempt('close demo root private', registry.close, root, out)
    dumpfile('demo root private', out)
    # a value whose serialize() fails, one whose default cannot be built
    class Broken(registry.String):
        def serialize(self):
            raise RuntimeError('cannot serialize')
    class PickyInit(registry.String):
        count = [0]
        def __init__(self, *args, **kwargs):
            self.count[0] += 1
            if self.count[0] > 1:
                raise RuntimeError('no second instance')
            registry.String.__init__(self, *args, **kwargs)
    class Unencodable(registry.String):
        def serialize(self):
            return '\udcff'
    odd = registry.Group()
    odd.setName('odd')
    odd.register('a', registry.String('first', 'help a'))
    odd.register('b', Broken('x', 'help b'))
    odd.register('c', PickyInit('y', 'help c'))
    odd.register('d', registry.Integer(3, ''))
    odd.register('e', registry.String('hidden', 'no default shown',
                                      showDefault=False, private=True))
    odd.register('grp', registry.Group(help='a group with help'))
    odd.grp.register('x', registry.String('v', 'x' * 200))
    attempt('close odd', registry.close, odd, out)
    dumpfile('odd', out)
    attempt('close odd public', registry.close, odd, out, private=False)
    dumpfile('odd public', out)
    odd.register('f', Unencodable('z', 'help f'))
    with open(out, 'w') as fd:
        fd.write('sentinel: 1\n')
    attempt('close odd unencodable', registry.close, odd, out)
    dumpfile('odd after failed write', out)
    obs('leftovers', sorted(x.split('.')[0] for x in
                            os.listdir(os.path.join(SCRATCH, 'data', 'tmp'))))
    attempt('close to missing dir', registry.close, odd,
            os.path.join(SCRATCH, 'nodir', 'x.conf'))
    registry.open_registry(regfile, clear=True)

    ######################################################################
    # 7. channel / network specific values (registry + conf level)
    ######################################################################
    irc = irclib.Irc('test')
    irc2 = irclib.Irc('testnet2')
    for i in (irc, irc2):
        while i.takeMsg():
            pass
    obs('preloaded children', sorted(
        n for (n, v) in conf.supybot.reply.mores.length.getValues(
            getChildren=True)))
    obs('preloaded withNotice', sorted(
        n for (n, v) in conf.supybot.reply.withNotice.getValues(
            getChildren=True)))
    L = conf.supybot.reply.mores.length
    def spec(v, network=None, channel=None, check=True):
        try:
            g = v.getSpecific(network=network, channel=channel, check=check)
            return (g._name, g(), g._wasSet)
        except BaseException as e:
            return 'RAISED %s: %s' % (e.__class__.__name__, e)
    def allspec(label, v):
        for net in (None, 'test', 'testnet2', 'nonet', ''):
            for chan in (None, '#preset', '#Preset2', '#new', 'notachan', ''):
                for check in (True, False):
                    obs('%s getSpecific(%r,%r,%s)' % (label, net, chan, check),
                        spec(v, net, chan, check))
    allspec('length', L)
    allspec('nick(global)', conf.supybot.nick)
    allspec('networks.test.channels(network?)',
            conf.supybot.networks.test.channels)
    attempt('conf.get', conf.get, L, '#preset', 'testnet2')
    attempt('conf.get2', conf.get, L)
    attempt('conf.get3', conf.get, conf.supybot.nick, '#x')
    # inheritance: unset specific values follow the general one
    attempt('L.set 100', L.set, '100')
    obs('follow', [spec(L, n, c) for (n, c) in
                   ((None, None), (None, '#new'), ('test', None),
                    ('test', '#new'), ('testnet2', None), (None, '#preset'),
                    ('testnet2', '#preset2'), ('testnet2', '#new'))])
    attempt('L.#new.set', L.get('#new').set, '111')
    attempt('L.:test.set', L.get(':test').set, '122')
    attempt('L.set 133', L.setValue, 133)
    obs('follow2', [spec(L, n, c) for (n, c) in
                    ((None, None), (None, '#new'), ('test', None),
                     ('test', '#new'), ('test', '#other'), ('testnet2', None),
                     ('testnet2', '#new'), ('testnet2', '#other'))])
    attempt('L.#new bad', L.get('#new').set, 'abc')
    attempt('L.:test bad', L.get(':test').set, '-5')
    attempt('L bad', L.set, '')
    obs('after bad', [spec(L, n, c) for (n, c) in
                      ((None, None), (None, '#new'), ('test', None))])
    L.get('#new')._setValue(L.value, inherited=True)
    L.set('144')
    obs('after reset', [spec(L, n, c) for (n, c) in
                        ((None, None), (None, '#new'), ('test', '#new'))])
    attempt('makeChild group', registry.Group()._makeChild, 'a', 'b')
    # registerChannelValue / registerNetworkValue picking names from the cache
    registry._cache['supybot.demo.chanval.#A'] = '2'
    registry._cache['supybot.demo.chanval.:Net'] = '3'
    registry._cache['supybot.demo.chanval.:Net.#B'] = '4'
    registry._cache['supybot.demo.chanval.:Net.nochan'] = '5'
    registry._cache['supybot.demo.chanval.nochan'] = '6'
    registry._cache['supybot.demo.chanbad.#ok'] = '2'
    registry._cache['supybot.demo.chanbad.#bad'] = 'x'
    registry._cache['supybot.demo.chanbad.#ok2'] = '3'
    registry._cache['supybot.demo.chanval.sub'] = '7'
    registry._cache['supybot.demo.chanval.sub.#C'] = '8'
    registry._cache['supybot.demo.chanvalue.#Z'] = '9'
    registry._cache['supybot.demo.chanvalue'] = '10'
    registry._cache['SUPYBOT.DEMO.CHANVAL.#UP'] = '11'
    registry._cache['supybot.demo.chanval.#d\\.e'] = '12'
    registry._cache['supybot.demo.chanval.#f\\\\'] = '13'
    registry._cache['supybot.demo.netval.:N1'] = 'on'
    registry._cache['supybot.demo.netval.:N1.#c'] = 'on'
    registry._cache['supybot.demo.netval.#c'] = 'on'
    registry._cache['supybot.demo.netbad.:ok'] = 'on'
    registry._cache['supybot.demo.netbad.:bad'] = 'maybe'
    registry._cache['supybot.demo.netbad.:ok2'] = 'on'
    registry._cache['supybot.demo.netvalue.:N2'] = 'on'
    registry._cache['supybot.demo.globval.#c'] = '5'
    demo = conf.registerGroup(conf.supybot, 'demo')
    obs('registerGroup kwargs', conf.registerGroup(
        conf.supybot.demo, 'kw', help='kw help', private=True)._private)
    cv = attempt('registerChannelValue', conf.registerChannelValue, demo,
                 'chanval', registry.Integer(1, 'a channel value'))
    conf.registerGlobalValue(cv, 'sub', registry.Integer(0, 'sub value'))
    cv2 = attempt('registerChannelValue2', conf.registerChannelValue, demo,
                  'chanvalue', registry.Integer(1, 'another', private=True),
                  opSettable=False)
    nv = attempt('registerNetworkValue', conf.registerNetworkValue, demo,
                 'netval', registry.Boolean(False, 'a network value'))
    nv2 = attempt('registerNetworkValue2', conf.registerNetworkValue, demo,
                  'netvalue', registry.Boolean(False, 'another'))
    attempt('registerChannelValue bad cache', conf.registerChannelValue, demo,
            'chanbad', registry.Integer(1, 'bad cache'))
    attempt('registerNetworkValue bad cache', conf.registerNetworkValue, demo,
            'netbad', registry.Boolean(False, 'bad cache'))
    gv = attempt('registerGlobalValue', conf.registerGlobalValue, demo,
                 'globval', registry.Integer(1, 'a global value'))
    obs('flags', [(v._name, v._supplyDefault, v._networkValue, v._channelValue,
                   getattr(v, '_opSettable', None)) for v in (cv, cv2, nv, nv2,
                                                              gv)])
    obs('demo values', [(n, sstr(v), v._wasSet, v._supplyDefault,
                         getattr(v, '_networkValue', None),
                         getattr(v, '_channelValue', None), v._help)
                        for (n, v) in demo.getValues(getChildren=True)])
    attempt('registerUserValue', conf.registerUserValue, conf.users.plugins,
            'demoUV', registry.String('', 'user value'))
    attempt('registerUserValue bad', conf.registerUserValue, conf.supybot,
            'demoUV', registry.String('', 'user value'))
    attempt('registerPlugin', lambda: conf.registerPlugin(
        'DemoPlugin', True, public=False)._name)
    obs('plugin registered', (conf.supybot.plugins.DemoPlugin(),
                              conf.supybot.plugins.DemoPlugin.public(),
                              'DemoPlugin' in conf.supybot.plugins()))
    attempt('registerNetwork', lambda: conf.registerNetwork(
        'DemoNet', password='p w', ssl=False)._name)
    conf.supybot.networks.DemoNet.channels.set('#x,key #y')
    conf.supybot.networks.DemoNet.channels.key.get('#y').set('ykey')
    attempt('channels joins', lambda: [str(m) for m in
            conf.supybot.networks.DemoNet.channels.joins()])
    attempt('channels join', lambda: str(
        conf.supybot.networks.DemoNet.channels.join('#y')))
    attempt('channels join nokey', lambda: str(
        conf.supybot.networks.DemoNet.channels.join('#z')))
    conf.supybot.networks.DemoNet.channels.set('')
    attempt('channels joins empty',
            conf.supybot.networks.DemoNet.channels.joins)
    conf.supybot.networks.DemoNet.channels.set(
        ' '.join('#longchannelname%03d,k%d' % (i, i) if i % 3 == 0
                 else '#longchannelname%03d' % i for i in range(60)))
    attempt('channels joins many', lambda: [str(m) for m in
            conf.supybot.networks.DemoNet.channels.joins()])
    conf.supybot.networks.DemoNet.channels.set('#x,key #y')
    out2 = os.path.join(SCRATCH, 'conf', 'full.conf')
    attempt('close supybot', registry.close, conf.supybot, out2)
    with open(out2, encoding='utf8') as fd:
        text = fd.read()
    obs('full conf sha', hashlib.sha256(clean(text).encode()).hexdigest())
    obs('full conf demo lines', [l for l in clean(text).splitlines()
                                 if 'demo' in l.lower() or 'mores.length' in l
                                 or l.startswith('supybot.directories')])
    want = dict((n, str(v)) for (n, v) in
                conf.supybot.getValues(getChildren=True) if hasattr(v, 'value'))
    attempt('reopen full', registry.open_registry, out2, clear=True)
    diffs = []
    for (n, v) in conf.supybot.getValues(getChildren=True):
        if hasattr(v, 'value'):
            v()
            if str(v) != want.get(n):
                diffs.append((n, want.get(n), str(v)))
    obs('full roundtrip differences', diffs)
    attempt('close supybot again', registry.close, conf.supybot, out2)
    with open(out2, encoding='utf8') as fd:
        text2 = fd.read()
    obs('full conf stable', text == text2)

    ######################################################################
    # 8. the Config plugin through a live bot
    ######################################################################
    world.registryFilename = out2
    ircdb.users.reload()
    ircdb.ignores.reload()
    ircdb.channels.reload()
    owner = ircdb.users.newUser()
    owner.name = 'owner'
    owner.addCapability('owner')
    owner.addHostmask('own!er@host')
    ircdb.users.setUser(owner)
    joe = ircdb.users.newUser()
    joe.name = 'joe'
    joe.addHostmask('joe!j@host')
    joe.addCapability('#chan,op')
    ircdb.users.setUser(joe)
    for name in ('Misc', 'Owner', 'Config', 'Utilities'):
        module = plugin.loadPluginModule(name)
        plugin.loadPluginClass(irc, module)
    for cb in irc.callbacks:
        if cb not in irc2.callbacks:
            irc2.addCallback(cb)
    for i in (irc, irc2):
        i.feedMsg(ircmsgs.join('#chan', prefix=i.prefix))
        i.feedMsg(ircmsgs.join('#other', prefix=i.prefix))
        while i.takeMsg():
            pass
    Config = sys.modules['Config'].plugin
    def say(text, frm='own!er@host', to='#chan', on=irc):
        del logged[:]
        on.feedMsg(ircmsgs.privmsg(to, text, prefix=frm))
        replies = []
        while True:
            m = on.takeMsg()
            if m is None:
                break
            replies.append((m.command, m.args))
        obs('%s %s>%s %r' % (on.network, frm.split('!')[0], to, text), replies)
    # module-level helpers
    class FakeIrc:
        def isChannel(self, s):
            return ircutils.isChannel(s)
    for n in ('supybot', 'supybot.nick', 'supybot.NICK', 'users', 'nick',
              'supybot.nope', 'supybot.nick.nope', 'other.nick', '',
              'supybot.reply.mores.length.#new',
              'supybot.reply.mores.length.#never',
              'supybot.reply.mores.length.:test.#new',
              'supybot.demo.chanval.#d\\.e', 'supybot.demo.chanval.#f\\\\',
              'users.plugins', 'supybot.plugins.Config', 'supybot..nick'):
        attempt('getWrapper(%r)' % n, lambda: Config.getWrapper(n)._name)
    for n in ('supybot.nick', 'nick', 'users.plugins',
              'supybot.reply.mores.length', 'supybot.reply.mores.length.#new',
              'reply.mores.length.:test.#new', 'supybot.demo.chanvalue',
              'supybot.demo.chanvalue.#Z', 'supybot.demo.chanval.#A',
              'supybot.demo.chanval.sub', 'supybot.nope',
              'supybot.networks.test.channels.key.#k'):
        attempt('getCapability(%r)' % n, Config.getCapability, FakeIrc(), n)
    for allow in (True, False):
        conf.supybot.commands.allowShell.setValue(allow)
        for n in ('supybot.commands.allowShell', 'commands.allowshell',
                  'SUPYBOT.COMMANDS.ALLOWSHELL', 'supybot.directories',
                  'directories.data', 'supybot.directories.data.tmp',
                  'supybot.nick', 'nick', 'supybot.commands.allowShell.x',
                  'supybot.commands', 'users.directories'):
            attempt('isReadOnly(%r) allow=%s' % (n, allow),
                    Config.isReadOnly, n)
    cfg = [cb for cb in irc.callbacks if cb.name() == 'Config'][0]
    for g in (conf.supybot, conf.supybot.reply, conf.supybot.reply.mores,
              conf.supybot.reply.mores.length, conf.supybot.networks,
              conf.supybot.demo, conf.supybot.demo.chanval,
              conf.supybot.plugins, conf.supybot.nick, conf.users):
        attempt('_list(%s)' % g._name, cfg._list, FakeIrc(), g)
    cmds = [
        'config nick', 'config supybot.nick', 'config conf.supybot.nick',
        'config nick newnick', 'config nick', 'config nick "bad nick"',
        'config nick', 'config nope', 'config supybot.reply', 'config users',
        'config reply.mores.length', 'config reply.mores.length abc',
        'config reply.mores.length 0', 'config reply.mores.length',
        'config reply.mores.length 155', 'config reply.mores.length',
        'echo [config reply.mores.length]',
        'config demo.netval', 'config demo.netval toggle', 'config demo.netval',
        'config demo.chanvalue', 'config demo.chanvalue 5',
        'config demo.globval', 'config demo.globval 7',
        'config networks.test.password', 'config networks.test.password s3 cr3t',
        'config networks.test.password',
        'config channel reply.mores.length',
        'config channel reply.mores.length 166',
        'config channel reply.mores.length',
        'config channel #other reply.mores.length',
        'config channel #chan,#other reply.mores.length',
        'config channel #other,#third reply.mores.length 177',
        'config channel #chan,#other,#third reply.mores.length',
        'config channel * #star reply.mores.length 188',
        'config channel * #star reply.mores.length',
        'config channel testnet2 #chan reply.mores.length 199',
        'config channel testnet2 #chan reply.mores.length',
        'config channel nonet #chan reply.mores.length',
        'config channel reply.mores.length -3',
        'config channel reply.mores.length',
        'config channel nick', 'config channel nick x',
        'config channel demo.netval', 'config channel demo.chanvalue 3',
        'config channel demo.chanvalue',
        'config reply.mores.length',
        'config network reply.mores.length',
        'config network reply.mores.length 211',
        'config network reply.mores.length',
        'config network testnet2 reply.mores.length',
        'config network testnet2 reply.mores.length 222',
        'config network testnet2 reply.mores.length bad',
        'config network testnet2 reply.mores.length',
        'config network nick', 'config network demo.netval on',
        'config network demo.netval', 'config demo.netval',
        'config network nonet demo.netval',
        'config reply.mores.length 233',
        'config channel #fresh reply.mores.length',
        'config channel testnet2 #fresh reply.mores.length',
        'config reset channel reply.mores.length',
        'config channel reply.mores.length',
        'config reset channel #other reply.mores.length',
        'config reset channel testnet2 #chan reply.mores.length',
        'config reset channel * #star reply.mores.length',
        'config reset channel nick',
        'config reset network reply.mores.length',
        'config reset network testnet2 reply.mores.length',
        'config reset network nick',
        'config reply.mores.length 244',
        'config channel #chan,#other,#star,#third reply.mores.length',
        'config network reply.mores.length',
        'config network testnet2 reply.mores.length',
        'config channel testnet2 #chan reply.mores.length',
        'config list supybot', 'config list supybot.reply.mores',
        'config list reply.mores.length', 'config list demo',
        'config list demo.chanval', 'config list nick.alternates',
        'config list nope', 'config list users', 'config list networks.test',
        'config search MORES', 'config search zzzz', 'config search chanval',
        'config search demo',
        'config searchhelp "A CHANNEL value"', 'config searchhelp zzzzqq',
        'config searchvalues 244', 'config searchvalues NEWNICK',
        'config searchvalues zzzzqq', 'config searchvalues s3',
        'config help nick', 'config help reply.mores.length',
        'config help reply.mores', 'config help supybot.reply',
        'config help networks.test.password', 'config help demo.chanvalue',
        'config help demo.chanval', 'config help nope',
        'config help demo.kw', 'config help users.plugins',
        'config default nick', 'config default reply.mores.length',
        'config default supybot.reply', 'config default commands.quotes',
        'config default directories.plugins', 'config default demo.netval',
        'config setdefault nick', 'config nick',
        'config setdefault reply.mores.length', 'config reply.mores.length',
        'config setdefault supybot.reply',
        'config commands.quotes', 'config commands.quotes \'"`\'',
        'config commands.quotes',
        'config commands.quotes abc', 'config commands.quotes',
        'config commands.nested.brackets <>', 'config commands.nested.brackets',
        'config commands.nested.brackets ><',
        'config commands.nested.brackets "[]"',
        'config reply.whenAddressedBy.chars "@!"',
        'config reply.whenAddressedBy.chars',
        'config reply.whenAddressedBy.chars "@a"',
        'config reply.whenAddressedBy.chars',
        'config directories.data /tmp/x', 'config commands.allowShell True',
        'config commands.allowShell False', 'config commands.allowShell',
        'config export ' + os.path.join(SCRATCH, 'export.conf'),
    ]
    for c in cmds:
        say('@' + c)
    # the same as a user who is only #chan,op, and as a stranger
    for frm in ('joe!j@host', 'who!x@host'):
        for c in ('config nick', 'config nick hax', 'config nick',
                  'config networks.test.password',
                  'config channel reply.mores.length 255',
                  'config channel reply.mores.length',
                  'config channel #other reply.mores.length 256',
                  'config channel * #chan reply.mores.length 257',
                  'config channel demo.chanvalue 9',
                  'config channel demo.chanvalue',
                  'config network reply.mores.length 258',
                  'config reset channel reply.mores.length',
                  'config reset channel #other reply.mores.length',
                  'config reset network reply.mores.length',
                  'config setdefault nick', 'config reload',
                  'config export /tmp/nope', 'config list supybot.reply.mores',
                  'config help networks.test.password',
                  'config reply.mores.length.#chan 259',
                  'config reply.mores.length.#chan'):
            say('@' + c, frm=frm)
    say('@config reply.mores.length', to='test')
    say('@config channel reply.mores.length', to='test')
    say('@config channel #chan reply.mores.length', to='test')
    say('@config reply.mores.length', on=irc2)
    say('@config channel reply.mores.length', on=irc2)
    say('@config network reply.mores.length', on=irc2)
    say('@config channel test #chan reply.mores.length 261', on=irc2)
    say('@config channel test #chan reply.mores.length', on=irc2)
    say('@config help reply.mores.length', on=irc2)
    say('@config help reply.mores.length', to='#other')
    # export / flush / reload
    conf.supybot.commands.allowShell.setValue(True)
    say('@config export ' + os.path.join(SCRATCH, 'export.conf'))
    with open(os.path.join(SCRATCH, 'export.conf'), encoding='utf8') as fd:
        text = clean(fd.read())
    obs('export sha', hashlib.sha256(text.encode()).hexdigest())
    obs('export interesting', [l for l in text.splitlines()
                               if 'password' in l or 'mores.length' in l
                               or 'demo' in l])
    conf.supybot.commands.allowShell.setValue(False)
    attempt('close for reload', registry.close, conf.supybot, out2)
    with open(out2, encoding='utf8') as fd:
        saved = fd.read()
    obs('saved sha', hashlib.sha256(clean(saved).encode()).hexdigest())
    # edit the file by hand, then reload
    edited = saved.replace('supybot.reply.mores.length: 244',
                           'supybot.reply.mores.length: 271')
    edited += 'supybot.reply.mores.length.#byhand: 272\n'
    edited += 'supybot.demo.globval: notanint\n'
    with open(out2, 'w', encoding='utf8') as fd:
        fd.write(edited)
    say('@config reload')
    say('@config reply.mores.length')
    say('@config channel #byhand reply.mores.length')
    say('@config channel #other,#third,#star reply.mores.length')
    say('@config demo.globval')
    obs('globval after bad reload', spec(conf.supybot.demo.globval))
    with open(out2, 'w', encoding='utf8') as fd:
        fd.write(saved + 'garbage line\n')
    say('@config reload')
    say('@config reply.mores.length')
    with open(out2, 'w', encoding='utf8') as fd:
        fd.write(saved)
    say('@config reload')
    say('@config reply.mores.length')
    attempt('final close', registry.close, conf.supybot, out2)
    with open(out2, encoding='utf8') as fd:
        obs('final equals saved', fd.read() == saved)


def finish():
    text = '\n'.join(OBS) + '\n'
    digest = hashlib.sha256(text.encode('utf8', 'backslashreplace')).hexdigest()
    if '--dump' in sys.argv:
        with open(sys.argv[sys.argv.index('--dump') + 1], 'w',
                  encoding='utf8', errors='backslashreplace') as fd:
            fd.write(text)
    shutil.rmtree(SCRATCH, ignore_errors=True)
    if '--record' in sys.argv:
        print(digest)
        return 0
    if digest == EXPECTED:
        print('PASS (%d observations, digest %s)' % (len(OBS), digest[:16]))
        return 0
    print('FAIL: digest %s != expected %s (%d observations)' % (
        digest, EXPECTED, len(OBS)))
    return 1


if __name__ == '__main__':
    code = 1
    try:
        main()
        code = finish()
    except BaseException:
        traceback.print_exc()
        print('FAIL: demo crashed')
        if '--dump' in sys.argv:
            with open(sys.argv[sys.argv.index('--dump') + 1], 'w',
                      encoding='utf8', errors='backslashreplace') as fd:
                fd.write('\n'.join(OBS) + '\n')
        code = 1
    sys.stdout.flush()
    sys.stderr.flush()
    os._exit(code)
