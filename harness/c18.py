"""C18 — scheduled events fire exactly once, not early, in time order, with their arguments;
removed events never run; rescheduled events run once at the new time; a raising event does not
stop the others; periodic events keep recurring.
Correspondence of lean/LimnoriaModel/C18/Model.lean with the real `supybot.schedule.Schedule`
(virtual clock, instrumented event functions that schedule/remove/reschedule while running, a
recording proxy for `heapq.heappop`), plus the property statement evaluated on the implementation."""
import json, os, sys, time, collections
from vlib import wire, rng, leanbuild, verdict, bot
from vlib.verdict import Case
import c18_plugin
import c18_threads

PROPERTY = 'C18'
MANIFEST = {
 'level_text': 'Lean 4 theorems, kernel-checked, in two layers. (0) CPython heapq as used by the scheduler: heappush and heapify establish/keep the heap invariant, heappop returns an entry of minimal due time and leaves a heap that with it is a permutation of the old one, hence the choice of the heap is always a pick the scheduler model accepts. (1) A model of supybot.schedule.Schedule, for every sequence of addEvent/addPeriodicEvent/removeEvent/rescheduleEvent/run/reset calls and clock advances, every program of event functions that themselves add, remove, reschedule, add periodic events or raise while running, and every way the heap resolves ties: the name invariant (heap names = keys of events, no name twice) holds in every reachable state and therefore run() never raises; registrations = fired + removed + discarded + still scheduled as multisets with pairwise distinct registration ids (each event fires at most once, a removed event never fires, everything that fired was registered); nothing fires before its due time has passed, each iteration fires an entry of minimal due time, and when run() returns nothing due is left; a fired event carries the function and arguments of its registration, also after rescheduleEvent (repaired: it dropped them), which moves exactly that entry; a raising function ends only its own body; a periodic wrapper with occurrences left re-registers itself whether or not its function raised; threads: the placement of the lock is extracted and for every interleaving of critical sections (addEvent, removeEvent, iterations of run(), reset, by any threads) the invariant holds at every lock release, run() never raises and never fires early, registrations stay exactly-once (after three repairs of the lock placement). The driver loop: drivers.run() removes a driver whose run() raises; over every history of API calls and rounds of drivers.run() the Schedule driver is never removed and each round leaves nothing due. (2) A model of the Scheduler plugin on top (event table with its str(id)/name keys and the int-vs-str naming discipline, add/remind/remove/repeat/list, _flush and the pickle, die — repaired: it now takes the saved events out of the schedule —, _restoreEvents with kept ids and the already-scheduled test, load/unload/reload/restart, other plugins scheduling, run): an invariant of every reachable state and the whole-history law added = ran + removed + pending, each added never removed one-shot command runs exactly once (every scheduled closure belongs to the live instance and has its table entry, every table entry has its closure scheduled under int(key) or the name, ids ascending and below the counter, the pickle well formed), hence no command runs for a dead instance or misses its entry; reload with events pending leaves the table unchanged and schedules exactly one entry per pending event. The id discipline is explicit: integer names and table ids are below schedule.counter in every reachable state, also right after _restoreEvents in a fresh process, hence an anonymous schedule.addEvent by any component never fails (ids_below_counter, anonymous_add_never_fails). The heap model also directs the search: HeapShapes.lean enumerates every insertion order of up to 8 distinct due times and removed position on which a removeEvent that restores the heap downwards only would break it; all of them (a seeded sample in the quick tier), and larger random heaps of that kind, are replayed on the real scheduler (removeEvent and rescheduleEvent) under the due-time-order oracle. Event functions raise exceptions of many kinds (OSError with an errno, KeyError(5), no / None / bytes / non-string arguments, multi-line and %-laden messages) with the production logging path running. The two layers are linked by a theorem (plugin_refines_core): the schedule inside the plugin model is the core scheduler driven through its API — every history of plugin operations corresponds to a sequence of core calls (addEvent, removeEvent, valid picks of run(), clock ticks, a new process at a restart) reaching a core state with the same due times, names, counter and clock, where the core invariant holds. Repeating events: _getNextRunIn puts a restored event strictly in the future on first_run + k * period (nextRunIn_on_grid); a running one is NOT kept on that grid, the periodic wrapper re-schedules from the moment it ran (recorded finding C18-repeat-drifts, witnessed on the live bot on every run). The oracles judge behaviour only: what a periodic wrapper is for is known from the addPeriodicEvent call the harness made and from what the wrapper does when it runs (an occurrence one period later under its name, the probe function called with the same arguments, nothing more once the count ran out), not from the shape of its closure; the lock table follows private helper methods. Scheduler remove is checked by what leaves the schedule (exactly the event named; repeating events called #x next to x, 08 — repaired: remove ran int() over the name of a repeating event). Both layers are tied to /repo by differential runs: seeded programs/operation sequences on the real Schedule object, and seeded command sequences (scheduler add/remind/remove/repeat/list, reload/unload/load Scheduler by an owner over IRC, restarts, clock advances) on a live bot with the virtual clock; the heap\'s choices are fed to the models, which check each is a minimum; the property statement is evaluated directly on the implementation (for the plugin: through the replies — every added, never removed command runs exactly once) to produce replays.',
 'level_note': 'Trusted: Lean kernel; axioms propext/Classical.choice/Quot.sound only; heapq is modelled twice: as written in Lib/heapq.py (HeapHole.lean: _siftdown/_siftup moving a hole) and in swap form (Heap.lean), the two proved to compute the same lists (heapq_as_written); the literal transcription is compared after every call with the C module the bot uses and proved to keep the heap invariant and to pop a minimum, so the picks fed to the scheduler model are valid by theorem (heap_choice_is_valid_pick) and additionally checked per pop; str(int)/int(str) round trip for event ids (keys are modelled as Key.id n / Key.name s); the plugin model works on the abstract schedule justified by name_invariant (heap and events dict merged); the correspondence harnesses (generator quality bounds what they see); integer-valued virtual clock frozen during run(). Modelled: schedule.py completely except the lock; plugins/Scheduler/plugin.py: add, remind (as add), remove, repeat (--delay), list, _flush, die, _restoreEvents (incl. _getNextRunIn), the command/periodic closures with the instance that made them. Not modelled: unreadable or foreign pickles, old-format pickles without first_run/network, the text of the commands being replayed (C13/C14), non-Exception exceptions, event functions calling addPeriodicEvent(now=True) from inside a running event.',
 'technique': 'Lean 4 proof (induction over operation sequences and heap choices with invariants) + differential correspondence',
 'design_ref': 'DESIGN.md §6 C18',
}
THEOREMS = ['C18.name_invariant', 'C18.run_never_raises', 'C18.conservation', 'C18.registrations_distinct',
            'C18.exactly_once', 'C18.removed_never_run', 'C18.fired_at_most_once', 'C18.fired_were_registered',
            'C18.run_not_early_and_complete', 'C18.run_fires_minimum', 'C18.raise_ends_only_its_body',
            'C18.periodic_recurs', 'C18.args_preserved', 'C18.scheduled_match_registration',
            'C18.reschedule_moves_entry', 'C18.plugin_invariant', 'C18.plugin_no_stale_runs',
            'C18.reload_keeps_events', 'C18.reload_each_exactly_once', 'C18.load_restores_invariant',
            'C18.lock_placement_ok', 'C18.threads_safe', 'C18.plugin_conservation', 'C18.plugin_exactly_once',
            'C18.heap_push_ok', 'C18.heap_heapify_ok', 'C18.heap_pop_ok', 'C18.heap_choice_is_valid_pick',
            'C18.schedule_driver_stays', 'C18.drivers_round_completes',
            'C18.ids_below_counter', 'C18.anonymous_add_never_fails', 'C18.nextRunIn_on_grid', 'C18.heapq_as_written',
            'C18.plugin_refines_core', 'C18.plugin_names_unique_by_refinement']
TRUSTED = ['Lean 4.33.0 kernel; axioms ⊆ {propext, Classical.choice, Quot.sound}',
           'CPython heapq.heappop returns an entry with minimal due time (mytuple compares due times only); checked on every pop of the run',
           'harness/c18.py generators, instrumentation (virtual clock, recording heapq proxy, recording addEvent/removeEvent wrappers, instrumented event functions), canonicalisation; hex line protocol']
RULE = ('seeded programs of event functions (bodies that add / remove / reschedule / add periodic events or raise) and operation '
        'sequences (add/remove/resched/periodic/run/tick/reset) with ties, past due times, name reuse; every sequence runs on a real '
        'schedule.Schedule and on the Lean model (fed the heap\'s choices) and per-operation observations are diffed. '
        'non-trivial = at least one tag; distinct = distinct (program, ops).')
ASSUMPTIONS = ['Python asserts enabled', 'integer-valued clock that does not advance inside run()',
               'event functions raise only Exception subclasses (of any kind and with any arguments: the production logging path runs)', 'single-threaded use of the schedule']

# ------------------------------------------------------------------------------------------
# encodings shared with lean/LimnoriaModel/C18/Drive.lean
# ------------------------------------------------------------------------------------------
def enc_name(n):
    if n is None: return '~'
    if isinstance(n, int): return 'N%d' % n
    return 'S' + wire.enc(n)

def enc_time(t):
    return '%s%d' % (t[0], t[1])       # ('A', n) absolute, ('R', d) relative to now

def enc_optnat(c):
    return '~' if c is None else str(c)

def enc_act(a):
    k = a[0]
    if k == 'add': return 'a:%d:%s:%s:%s' % (a[1], enc_time(a[2]), enc_name(a[3]), wire.enc_list(a[4]))
    if k == 'remove': return 'r:%s' % enc_name(a[1])
    if k == 'resched': return 's:%s:%s' % (enc_name(a[1]), enc_time(a[2]))
    if k == 'periodic': return 'p:%d:%d:%s:%s:%s' % (a[1], a[2], enc_name(a[3]), wire.enc_list(a[4]), enc_optnat(a[5]))
    if k == 'raise': return 'x'
    raise ValueError(a)

def enc_prog(P):
    return ';'.join(('|'.join(enc_act(a) for a in b) or '-') for b in P) or '-'

def split_args(canon):
    """canonical arg list -> (args, kwargs)"""
    args = [a for a in canon if not a.startswith('**')]
    kwargs = dict(a[2:].split('=', 1) for a in canon if a.startswith('**'))
    return args, kwargs

def canon_args(args, kwargs):
    return [str(a) for a in args] + ['**%s=%s' % (k, kwargs[k]) for k in sorted(kwargs)]

# ------------------------------------------------------------------------------------------
# implementation side
# ------------------------------------------------------------------------------------------
_env = None
class Clock(object):
    t = 1000

def env():
    global _env
    if _env is None:
        # the live bot first (the registry must be opened before supybot.conf is imported)
        bot.full(plugins=('Owner', 'Misc', 'User', 'Utilities', 'Scheduler'))
        from supybot import schedule, drivers
        # Schedule.run reports a raising event function with log.exception: let the production logging
        # path run (records are formatted and go to the scratch log file), as in harness/c07.py
        import logging
        from supybot import conf as _conf, log as _log
        logging.disable(logging.NOTSET)
        _conf.supybot.log.stdout.setValue(False)
        _conf.supybot.log.level.setValue('INFO')
        assert _log.testing is False
        clk = Clock()
        clk.real = time.time; clk.virtual = lambda: float(clk.t)
        clk.real_sleep = time.sleep
        _env = (schedule, drivers, clk)
    return _env

class HeapProxy(object):
    """stands in for the `heapq` module inside supybot.schedule; records what heappop hands out"""
    def __init__(self, impl):
        import heapq
        self.h = heapq; self.impl = impl
    def __getattr__(self, name):       # anything else of the module (heapq._siftup, …) is the real thing
        return getattr(self.h, name)
    def heappush(self, heap, item):
        return self.h.heappush(heap, item)
    def heapify(self, heap):
        return self.h.heapify(heap)
    def heappop(self, heap):
        item = self.h.heappop(heap)
        self.impl.on_pop(item, heap)
        return item

class VtOddError(Exception):
    """an exception whose arguments are not strings"""
    def __init__(self):
        Exception.__init__(self, {'code': 7}, ['x'], 3.5)

def _missing():
    os.stat('/nonexistent/directory/of/the/harness')

# what event functions raise (only Exception subclasses: a BaseException is meant to end the process)
RAISES = [('RuntimeError', lambda: RuntimeError('event function raises')),
          ('OSError-errno', lambda: OSError(2, 'No such file or directory')),
          ('KeyError-int', lambda: KeyError(5)),
          ('Exception-noargs', lambda: Exception()),
          ('Exception-None', lambda: Exception(None)),
          ('Exception-bytes', lambda: Exception(b'x\xff')),
          ('custom-nonstr-args', lambda: VtOddError()),
          ('FileNotFoundError-real', _missing),
          ('ValueError-multiline', lambda: ValueError('first line\nsecond line\n')),
          ('UnicodeDecodeError', lambda: b'\xff'.decode('utf-8')),
          ('Exception-empty-str', lambda: Exception('')),
          ('AssertionError-tuple', lambda: AssertionError((1, 2))),
          ('StopIteration', lambda: StopIteration()),
          ('Exception-percent', lambda: Exception('100%s %d %r'))]

class Reg(object):
    __slots__ = ('t', 'name', 'args', 'fn', 'state', 'n', 'fobj')

class Impl(object):
    def __init__(self, P):
        self.mod, self.drivers, self.clk = env()
        time.time = self.clk.virtual
        time.sleep = lambda s: None
        self.P = P
        self.S = None
        self.log = []            # (now, fn idx, canonical args) of every call of an event function
        self.picks = []
        self.fails = []
        self.tags = set()
        self.opi = -1
        self.regs = {}           # name -> live Reg
        self.nreg = 0
        self.pending_call = None
        self.in_resched = None
        self.wspec = {}          # id(wrapper) -> what periodic event it is an occurrence of
        self.wobjs = []
        self.creating = []       # addPeriodicEvent calls in progress
        self.running = None      # the periodic wrapper that is running
        self.pops = 0
        self.nraise = sum(len(b) for b in P) * 7 + len(P)
        self.F = [self.make_fn(i) for i in range(len(P))]
        self.fn_idx = dict((id(f), i) for i, f in enumerate(self.F))
        self.saved_heapq = self.mod.heapq
        self.mod.heapq = HeapProxy(self)

    def close(self):
        self.mod.heapq = self.saved_heapq
        time.time = self.clk.real
        time.sleep = self.clk.real_sleep
        nd = self.drivers._newDrivers
        keep = [x for x in nd if x[1] is not self.S]
        nd.clear(); nd.extend(keep)      # list or deque: no slice assignment

    def fail(self, msg):
        self.fails.append((self.opi, msg))

    # ---- event functions
    def make_fn(self, idx):
        def f(*a, **k):
            got = canon_args(a, k)
            self.log.append((self.clk.t, idx, got))
            pc = self.pending_call
            self.pending_call = None
            if pc is not None:
                want_idx, want_args, what = pc
                if want_idx != idx or want_args != got:
                    self.fail('%s: function #%d called with %r, registered as function #%d with %r'
                              % (what, idx, got, want_idx, want_args))
            for act in self.P[idx]:
                self.perform(act)
        f.__name__ = 'evfn%d' % idx
        return f

    def when(self, t):
        return t[1] if t[0] == 'A' else self.clk.t + t[1]

    def perform(self, act):
        k = act[0]
        S = self.S
        if k == 'add':
            a, kw = split_args(act[4])
            return S.addEvent(self.F[act[1]], self.when(act[2]), act[3], args=a, kwargs=kw)
        if k == 'remove':
            return S.removeEvent(act[1])
        if k == 'resched':
            return self.resched(act[1], self.when(act[2]))
        if k == 'periodic':
            a, kw = split_args(act[4])
            self.creating.append({'idx': act[1], 'period': act[2], 'name': act[3], 'args': canon_args(a, kw),
                                  'count': act[5], 'now': False, 'claimed': False})
            try:
                return S.addPeriodicEvent(self.F[act[1]], act[2], act[3], now=False, args=a, kwargs=kw, count=act[5])
            finally:
                self.creating.pop()
        if k == 'raise':
            self.tags.add('body-raises')
            self.nraise += 1
            kind, mk = RAISES[self.nraise % len(RAISES)]
            self.tags.add('raises-' + kind)
            try:
                e = mk()
            except Exception as e2:        # e.g. os.stat of a missing file: the real OSError
                e = e2
            e._vt = True
            raise e

    def resched(self, name, t):
        old = self.regs.get(name)
        self.in_resched = (name, old)
        try:
            return self.S.rescheduleEvent(name, t)
        finally:
            self.in_resched = None

    # ---- recording wrappers around the real methods (instance attributes)
    def wrap_methods(self):
        S = self.S
        real_add, real_remove = S.addEvent, S.removeEvent
        def addEvent(f, t, name=None, args=[], kwargs={}):
            r = real_add(f, t, name, args, kwargs)      # AssertionError propagates
            self.on_registered(r, f, t, args, kwargs)
            return r
        def removeEvent(name):
            f = real_remove(name)                        # KeyError propagates
            reg = self.regs.pop(name, None)
            if reg is None:
                self.fail('removeEvent(%r) succeeded for an event the harness does not know as scheduled' % (name,))
            elif not (self.in_resched and self.in_resched[0] == name):
                reg.state = 'removed'
                self.tags.add('removed')
            return f
        S.addEvent = addEvent
        S.removeEvent = removeEvent

    def describe_fn(self, f):
        """-> ('P', idx) for a probe function, ('W', idx, period, name, canonical args, count left) for a
        periodic wrapper the harness has seen being created (addPeriodicEvent is only ever called by the
        harness: what the wrapper is for is known from that call and from what it does afterwards, not from
        the private shape of its closure), ('?', ...) for anything else"""
        i = self.fn_idx.get(id(f))
        if i is not None:
            return ('P', i)
        w = self.wspec.get(id(f))
        if w is not None:
            return ('W', w['idx'], w['period'], w['name'], w['args'], w['left'])
        return ('?', repr(f))

    def attribute(self, name, f, t):
        """a function that is no probe was registered: which periodic event is it an occurrence of?"""
        if id(f) in self.wspec and self.in_resched and self.in_resched[0] == name:
            return                                  # rescheduleEvent re-adds the same function
        cr = self.creating[-1] if self.creating else None
        if cr is not None and not cr['claimed'] and not cr['now']:
            # addPeriodicEvent(now=False): the first occurrence
            cr['claimed'] = True
            self.wspec[id(f)] = {'idx': cr['idx'], 'period': cr['period'], 'name': cr['name'], 'args': cr['args'],
                                 'left': cr['count']}
            self.wobjs.append(f)
            return
        ctx = self.running
        if ctx is not None and (id(f) not in self.wspec or ctx['fobj'] is None or ctx['fobj'] is f):
            # registered while a periodic wrapper runs (and by none of the above): its next occurrence
            self.wspec[id(f)] = {'idx': ctx['idx'], 'period': ctx['period'], 'name': ctx['name'], 'args': ctx['args'],
                                 'left': ctx['left_after']}
            self.wobjs.append(f)
            ctx['regs'].append((name, int(t)))

    def start_wrapper_run(self, spec, what, fobj):
        """a periodic wrapper is about to run (popped by run(), or called by addPeriodicEvent(now=True))"""
        self.finish_wrapper_run()
        _, idx, period, name, args, count = spec
        left_after = None if count is None else count - 1
        self.running = {'idx': idx, 'period': period, 'name': name, 'args': args, 'left_after': left_after,
                        'again': count is None or left_after > 0, 'when': self.clk.t, 'what': what, 'fobj': fobj,
                        'regs': []}

    def finish_wrapper_run(self):
        """the wrapper has returned: judge what it did — one more occurrence, one period later, under its name
        (any counter name when it has none), unless its count ran out"""
        ctx, self.running = self.running, None
        if ctx is None:
            return
        due = ctx['when'] + ctx['period']
        good = [(n, t) for n, t in ctx['regs'] if t == due and (n == ctx['name'] if ctx['name'] is not None else isinstance(n, int))]
        if ctx['again']:
            if good:
                self.tags.add('periodic-recurs')
            elif ctx['regs']:
                self.fail('%s re-scheduled itself as %r, not for %d under %r' % (ctx['what'], ctx['regs'], due, ctx['name']))
            elif ctx['name'] is not None and ctx['name'] in self.regs:
                self.tags.add('periodic-name-taken')      # its name was taken meanwhile: addEvent refused
            else:
                self.fail('%s (count left %r) did not re-schedule itself for %d' % (ctx['what'], ctx['left_after'], due))
        else:
            self.tags.add('periodic-count-exhausted')
            if ctx['regs']:
                self.fail('%s re-scheduled itself although its count ran out' % ctx['what'])

    def on_registered(self, name, f, t, args, kwargs):
        if id(f) not in self.fn_idx:
            self.attribute(name, f, t)
        reg = Reg()
        reg.t = int(t); reg.name = name; reg.args = canon_args(args, kwargs); reg.fn = self.describe_fn(f)
        reg.state = 'live'; self.nreg += 1; reg.n = self.nreg; reg.fobj = f
        if name in self.regs:
            self.fail('addEvent accepted the name %r which is already scheduled' % (name,))
        if self.in_resched and self.in_resched[0] == name and self.in_resched[1] is not None:
            old = self.in_resched[1]
            self.tags.add('rescheduled')
            if old.args != reg.args:
                self.fail('rescheduleEvent(%r): the event was registered with arguments %r and is now scheduled with %r'
                          % (name, old.args, reg.args))
            if old.fn != reg.fn:
                self.fail('rescheduleEvent(%r): the event function changed' % (name,))
        self.regs[name] = reg
        if isinstance(name, int): self.tags.add('counter-name')
        if reg.fn[0] == 'W': self.tags.add('periodic-registered')

    def on_pop(self, item, heap):
        self.pops += 1
        if self.pops > 3000:
            raise RuntimeError('run() does not terminate')
        t, name = item[0], item[1]
        self.picks.append(name)
        now = self.clk.t
        self.finish_wrapper_run()
        reg = self.regs.pop(name, None)
        if reg is None:
            self.fail('run() fired %r which is not a scheduled event (removed or already fired)' % (name,))
            return
        if reg.t != t or canon_args(item[2], item[3]) != reg.args:
            self.fail('run() fired %r with due time/arguments (%r, %r), registered with (%r, %r)'
                      % (name, t, canon_args(item[2], item[3]), reg.t, reg.args))
        if now < t:
            self.fail('event %r fired at %d, before its due time %d' % (name, now, t))
        others = [r.t for r in self.regs.values()]
        if others and min(others) < t:
            self.fail('event %r (due %d) fired while an event due earlier (%d) is scheduled' % (name, t, min(others)))
        if others and min(others) == t:
            self.tags.add('tie')
        reg.state = 'fired'
        self.tags.add('fired')
        if t < now - 50: self.tags.add('fired-long-overdue')
        if reg.fn[0] == 'P':
            self.pending_call = (reg.fn[1], reg.args, 'event %r' % (name,))
        elif reg.fn[0] == 'W':
            self.pending_call = (reg.fn[1], reg.fn[4], 'periodic event %r' % (name,))
            self.start_wrapper_run(reg.fn, 'periodic event %r' % (name,), reg.fobj)

    # ---- state dump
    def state(self):
        S = self.S
        ents = sorted('%d/%s/%s' % (x[0], enc_name(x[1]), wire.enc_list(canon_args(x[2], x[3]))) for x in S.schedule)
        evs = []
        for n, f in S.events.items():
            d = self.describe_fn(f)
            if d[0] == 'P':
                evs.append('%s=P%d' % (enc_name(n), d[1]))
            elif d[0] == 'W':
                evs.append('%s=W%d/%d/%s/%s/%s' % (enc_name(n), d[1], d[2], enc_name(d[3]), wire.enc_list(d[4]), enc_optnat(d[5])))
            else:
                evs.append('%s=?' % enc_name(n))
        return '%d|%d\t%s\t%s' % (self.clk.t, S.counter, ';'.join(ents) or '-', ';'.join(sorted(evs)) or '-')

    def consistency(self):
        S = self.S
        live = dict((n, (r.t, r.args)) for n, r in self.regs.items())
        heap = collections.Counter((x[1], x[0], tuple(canon_args(x[2], x[3]))) for x in S.schedule)
        want = collections.Counter((n, t, tuple(a)) for n, (t, a) in live.items())
        if heap != want:
            self.fail('the schedule does not hold exactly the events that were registered and neither fired nor removed')
        if set(S.events.keys()) != set(live.keys()):
            self.fail('events dict keys %r differ from the scheduled names %r' % (sorted(map(repr, S.events)), sorted(map(repr, live))))


# ---- operations (method of Impl)
def _do(self, op):
    self.opi += 1
    k = op[0]
    if k == 'new':
        self.clk.t = op[1]
        self.S = self.mod.Schedule()
        self.wrap_methods()
        return 'ok\t-\t' + self.state()
    S = self.S
    del self.log[:]
    self.running = None
    del self.creating[:]
    self.pending_call = None
    nreg0 = self.nreg
    self.all_new_regs = []
    self.names_at_start = set(self.regs.keys())
    seen_before = set(id(r) for r in self.regs.values())
    ret = 'ok'
    # collect every registration made during this op (also those that fire or vanish within it)
    orig_on_registered = self.on_registered
    def collecting(name, f, t, args, kwargs):
        orig_on_registered(name, f, t, args, kwargs)
        self.all_new_regs.append(self.regs[name])
    self.on_registered = collecting
    try:
        try:
            if k == 'add':
                a, kw = split_args(op[4])
                r = S.addEvent(self.F[op[1]], self.when(op[2]), op[3], args=a, kwargs=kw)
                ret = 'ok:' + enc_name(r)
                self.tags.add('add-past' if self.when(op[2]) < self.clk.t else 'add')
            elif k == 'remove':
                S.removeEvent(op[1])
            elif k == 'resched':
                self.resched(op[1], self.when(op[2]))
            elif k == 'periodic':
                fn, period, name, now_flag, canon, count = op[1:7]
                a, kw = split_args(canon)
                if now_flag:
                    self.tags.add('periodic-now')
                    self.pending_call = (fn, canon_args(a, kw), 'addPeriodicEvent(now=True)')
                    self.start_wrapper_run(('W', fn, period, name, canon_args(a, kw), count), 'addPeriodicEvent(now=True)', None)
                self.creating.append({'idx': fn, 'period': period, 'name': name, 'args': canon_args(a, kw),
                                      'count': count, 'now': bool(now_flag), 'claimed': False})
                try:
                    r = S.addPeriodicEvent(self.F[fn], period, name, now=bool(now_flag), args=a, kwargs=kw, count=count)
                finally:
                    self.creating.pop()
                ret = 'ok:' + enc_name(r)
            elif k == 'run':
                del self.picks[:]
                self.pops = 0
                if len(op) > 1 and op[1]:
                    # through the real drivers.run(), with this Schedule as the 'Schedule' driver
                    d = self.drivers
                    sv = (dict(d._drivers), set(d._deadDrivers), list(d._newDrivers))
                    d._drivers.clear(); d._drivers['Schedule'] = S; d._deadDrivers.clear(); d._newDrivers.clear()
                    try:
                        d.run()
                        alive = d._drivers.get('Schedule') is S and 'Schedule' not in d._deadDrivers
                    finally:
                        d._drivers.clear(); d._drivers.update(sv[0])
                        d._deadDrivers.clear(); d._deadDrivers.update(sv[1])
                        d._newDrivers.clear(); d._newDrivers.extend(sv[2])
                    self.tags.add('via-drivers.run')
                    if not alive:
                        ret = 'dead'
                        self.fail('drivers.run() removed the Schedule driver: Schedule.run() raised; nothing scheduled runs any more')
                else:
                  try:
                    S.run()
                  except Exception as e:
                    self.fail('run() raised %s: %s (drivers.run would remove the Schedule driver for good)' % (type(e).__name__, e))
                    raise
                late = [(n, r.t) for n, r in self.regs.items() if r.t < self.clk.t]
                if late:
                    self.fail('run() returned at %d with due events left: %r' % (self.clk.t, late))
                self.tags.add('run-fired-%d' % min(len(self.picks), 3))
            elif k == 'tick':
                self.clk.t += op[1]
            elif k == 'reset':
                S.reset()
                for r in self.regs.values():
                    r.state = 'discarded'
                self.regs.clear()
                self.tags.add('reset')
        except Exception as e:
            if getattr(e, '_vt', False) or isinstance(e, RuntimeError):
                ret = 'E:raised'; self.tags.add('exc-raised')
            elif isinstance(e, AssertionError):
                ret = 'E:assertion'; self.tags.add('exc-assertion')
            elif isinstance(e, KeyError):
                ret = 'E:keyError'; self.tags.add('exc-keyerror')
            else:
                ret = 'E:' + type(e).__name__
                if not any(f[0] == self.opi for f in self.fails):
                    self.fail('%s raised %s: %s' % (k, type(e).__name__, e))
    finally:
        self.on_registered = orig_on_registered
    self.finish_wrapper_run()
    self.consistency()
    logs = ';'.join('%d/%d/%s' % (t, i, wire.enc_list(a)) for t, i, a in self.log) or '-'
    return '%s\t%s\t%s' % (ret, logs, self.state())

Impl.do = _do


# ------------------------------------------------------------------------------------------
# model side
# ------------------------------------------------------------------------------------------
def model_line(op, picks=None):
    k = op[0]
    if k == 'new': return 'new\t%d' % op[1]
    if k == 'add': return 'add\t%d\t%s\t%s\t%s' % (op[1], enc_time(op[2]), enc_name(op[3]), wire.enc_list(op[4]))
    if k == 'remove': return 'remove\t%s' % enc_name(op[1])
    if k == 'resched': return 'resched\t%s\t%s' % (enc_name(op[1]), enc_time(op[2]))
    if k == 'periodic': return 'periodic\t%d\t%d\t%s\t%d\t%s\t%s' % (op[1], op[2], enc_name(op[3]), 1 if op[4] else 0,
                                                                  wire.enc_list(op[5]), enc_optnat(op[6]))
    if k == 'run': return '%s\t%s' % ('drun' if len(op) > 1 and op[1] else 'run', ','.join(enc_name(p) for p in picks) or '-')
    if k == 'tick': return 'tick\t%d' % op[1]
    if k == 'reset': return 'reset'
    raise ValueError(op)

def canon_model(line):
    """sort the schedule entries and the events of a model output line"""
    f = line.split('\t')
    if len(f) != 5:
        return line
    f[3] = ';'.join(sorted(f[3].split(';'))) if f[3] != '-' else '-'
    f[4] = ';'.join(sorted(f[4].split(';'))) if f[4] != '-' else '-'
    return '\t'.join(f)

# ------------------------------------------------------------------------------------------
# generators
# ------------------------------------------------------------------------------------------
# names are arbitrary strings: '%' directives, braces and quotes included (they end up in log messages)
STR_NAMES = ['a', 'b', '100%sure', '%(k)s {0} %d\'"']
NAMES = STR_NAMES + [None, None]
ARGS = [[], ['x'], ['x', 'y'], ['1', '**k=v'], ['é'], ['**a=1', '**b=2']]

def gen_time(r, allow_past=True):
    x = r.random()
    if x < 0.55: return ('R', r.choice([0, 1, 1, 2, 3, 5, 5, 10, 20]))
    if x < 0.75 or not allow_past: return ('A', 1000 + r.choice([5, 10, 10, 15, 20, 40]))
    return ('A', r.choice([0, 500, 990, 999, 1000, 1001]))

def gen_act(r, idx, nfn):
    """bodies only call *later* functions, so that the events a function spawns form a finite tree
    (a function re-adding itself, directly or through a partner, multiplies without bound — in
    Python as in the model — and only exhausts the run)"""
    x = r.random()
    later = list(range(idx + 1, nfn))
    if x < 0.40 and later:
        return ['add', r.choice(later), gen_time(r), r.choice(NAMES), r.choice(ARGS)]
    if x < 0.55: return ['remove', r.choice(STR_NAMES + [0, 1, 2])]
    if x < 0.72:
        # inside a body only towards the future
        return ['resched', r.choice(STR_NAMES + [0, 1]), ('R', r.choice([0, 1, 2, 5, 10]))]
    if x < 0.85 and later:
        return ['periodic', r.choice(later), r.choice([0, 1, 3, 5, 10]), r.choice(NAMES), r.choice(ARGS), r.choice([None, 0, 1, 2, 3])]
    return ['raise']

def gen_prog(r):
    nfn = r.randint(2, 6)
    P = []
    for i in range(nfn):
        k = r.choice([0, 0, 0, 1, 1, 2, 3])
        body = [gen_act(r, i, nfn) for _ in range(k)]
        # `raise` anywhere but mostly last
        P.append(body)
    return P

def gen_ops(r, P, maxlen=40):
    nfn = len(P)
    ops = [['new', 1000 + r.randint(0, 5)]]
    for _ in range(r.randint(3, maxlen)):
        x = r.random()
        if x < 0.34:
            ops.append(['add', r.randrange(nfn), gen_time(r), r.choice(NAMES), r.choice(ARGS)])
        elif x < 0.42:
            ops.append(['remove', r.choice(STR_NAMES + [0, 1, 2, 3])])
        elif x < 0.52:
            ops.append(['resched', r.choice(STR_NAMES + [0, 1, 2]), gen_time(r)])
        elif x < 0.60:
            ops.append(['periodic', r.randrange(nfn), r.choice([0, 1, 3, 5, 10]), r.choice(NAMES), r.random() < 0.5,
                        r.choice(ARGS), r.choice([None, None, 0, 1, 2, 3])])
        elif x < 0.80:
            ops.append(['run', 1] if r.random() < 0.5 else ['run'])
        elif x < 0.99:
            ops.append(['tick', r.choice([0, 1, 1, 2, 3, 5, 10, 30])])
        else:
            ops.append(['reset'])
    ops.append(['tick', 25]); ops.append(['run', 1])
    return ops

# ------------------------------------------------------------------------------------------
def run_case(P, ops, kind):
    im = Impl(P)
    obs = []; lines = ['prog\t' + enc_prog(P)]
    try:
        for op in ops:
            o = im.do(op)
            obs.append(o)
            lines.append(model_line(op, list(im.picks) if op[0] == 'run' else None))
    finally:
        im.close()
    ok = not im.fails
    msg = '' if ok else 'op #%d %r: %s' % (im.fails[0][0], ops[im.fails[0][0]], im.fails[0][1])
    c = Case({'prog': P, 'ops': ops}, impl='\n'.join(obs), oracle_ok=ok, oracle_msg=msg,
             tags=tuple(sorted(im.tags)), kind=kind)
    return c, lines

def run_plugin_case(ops, kind):
    mod, drivers, clk = env()
    saved = mod.heapq
    def install(im):
        mod.heapq = HeapProxy(im)
    try:
        return c18_plugin.run_case(ops, kind, clk, install)
    finally:
        mod.heapq = saved

def gen_heap_ops(r):
    ops = []
    nid = 0
    for _ in range(r.randint(2, 40)):
        x = r.random()
        if x < 0.5:
            ops.append(['hpush', r.choice([0, 1, 2, 3, 3, 5, 8, 8, 13]), nid]); nid += 1
        elif x < 0.8:
            ops.append(['hpop'])
        elif x < 0.9:
            ops.append(['hremove'])          # removeEvent: filter one name out, then heapify
        else:
            ops.append(['hshuffle', r.randint(0, 10 ** 6)])   # any list, then heapify
    return ops

def run_heap_case(ops, kind):
    """the real heapq (the module supybot.schedule uses) with schedule.mytuple against Heap.lean"""
    import random
    mod, drivers, clk = env()
    hq = mod.heapq
    T = mod.mytuple
    h = []
    obs = []; lines = ['hset\t-']
    obs.append('-')
    fails = []; tags = set()
    enc = lambda l: ';'.join('%d/%d' % (x[0], x[1]) for x in l) or '-'
    def is_heap(l):
        return all(not (l[j][0] < l[(j - 1) >> 1][0]) for j in range(1, len(l)))
    for i, op in enumerate(ops):
        k = op[0]
        if k == 'hpush':
            hq.heappush(h, T((op[1], op[2], [], {})))
            lines.append('hpush\t%d/%d' % (op[1], op[2])); obs.append(enc(h)); tags.add('h-push')
        elif k == 'hpop':
            if h:
                least = min(x[0] for x in h)
                e = hq.heappop(h)
                if e[0] != least:
                    fails.append((i, 'heappop returned an entry due %d while one due %d was in the heap' % (e[0], least)))
                obs.append('%d/%d|%s' % (e[0], e[1], enc(h))); tags.add('h-pop')
            else:
                obs.append('E'); tags.add('h-pop-empty')
            lines.append('hpop')
        else:
            if k == 'hremove' and h:
                victim = h[len(h) // 2][1]
                h = [x for x in h if x[1] != victim]; tags.add('h-remove')
            else:
                random.Random(op[1] if len(op) > 1 else 0).shuffle(h); tags.add('h-shuffle')
            lines.append('hset\t' + enc(h)); obs.append(enc(h))
            hq.heapify(h)
            lines.append('hify'); obs.append(enc(h))
        if not is_heap(h):
            fails.append((i, 'after %s the list is not a heap: %s' % (k, enc(h))))
    ok = not fails
    msg = '' if ok else 'op #%d %r: %s' % (fails[0][0], ops[fails[0][0]], fails[0][1])
    c = Case({'heap_ops': ops}, impl='\n'.join(obs), oracle_ok=ok, oracle_msg=msg, tags=tuple(sorted(tags)), kind=kind)
    return c, lines

def run_thread_case(ops, kind):
    mod, drivers, clk = env()
    saved = mod.heapq
    def install(im):
        mod.heapq = HeapProxy(im)
    try:
        return c18_threads.run_case(ops, kind, mod, clk, install)
    finally:
        mod.heapq = saved

def directed_heap_inputs(r, per_n, n_big):
    """heap shapes computed from the Lean heap model (HeapShapes.lean: every insertion order of up to 8
    distinct due times and removed position on which restoring the heap downwards only would break it),
    plus larger random heaps with an interior entry removed whose replacement (the last entry) is smaller
    than the parent of the hole.  -> list of (insertion order of due ranks, removed rank)"""
    import heapq
    req = ['hfragile\t%d\t%d\t%d' % (k, per_n.get(k, 0), r.randint(0, 10 ** 6)) for k in (6, 7, 8)]
    shapes = []
    for o in wire.run_driver(PROPERTY, req):
        body = o.split('|', 1)[1]
        for item in body.split(';'):
            if item:
                order, rem = item.split('/')
                shapes.append(([int(x) for x in order.split(',')], int(rem)))
    for _ in range(n_big):
        k = r.randint(9, 40)
        order = list(range(k)); r.shuffle(order)
        h = []
        for d in order: heapq.heappush(h, d)
        cand = [i for i in range(1, k - 1) if h[-1] < h[(i - 1) >> 1]]
        if cand:
            shapes.append((order, h[r.choice(cand)]))
    return shapes

def directed_heap_ops(r, order, rem):
    ops = [['new', 1000]]
    for d in order:
        ops.append(['add', 0, ('R', 1 + d), 'e%d' % d, []])
    x = r.random()
    if x < 0.6:
        ops.append(['remove', 'e%d' % rem])
    elif x < 0.8:
        ops.append(['resched', 'e%d' % rem, ('R', 2 + len(order))])      # removeEvent + addEvent
    else:
        ops.append(['resched', 'e%d' % rem, ('R', 0)])
    ops += [['tick', 3 + len(order)], ['run', 1] if r.random() < 0.5 else ['run']]
    return [[]], ops

def explore(stream, n, maxlen, corpus=(), budget=75.0, n_plugin=0, plugin_corpus=(), n_thread=0, thread_corpus=(), n_heap=0,
            heap_directed=None):
    r = rng.make(stream)
    cases = []; lines = []; spans = []
    if heap_directed is not None:
        rd = rng.make(stream + '-heap-directed')
        for order, rem in directed_heap_inputs(rd, heap_directed[0], heap_directed[1]):
            P, ops = directed_heap_ops(rd, order, rem)
            c, ml = run_case(P, ops, 'heap-directed')
            spans.append((c, len(lines), len(ml), 1))
            lines.extend(ml); cases.append(c)
            if len([x for x in cases if x.oracle_ok is False and x.finding is None]) >= 10:
                break
    rh = rng.make(stream + '-heap')
    for i in range(n_heap):
        c, ml = run_heap_case(gen_heap_ops(rh), 'heap')
        spans.append((c, len(lines), len(ml), 0))
        lines.extend(ml); cases.append(c)
    rt = rng.make(stream + '-threads')
    for i in range(len(thread_corpus) + n_thread):
        ops = thread_corpus[i] if i < len(thread_corpus) else c18_threads.gen_ops(rt)
        c, ml = run_thread_case(ops, 'threads-corpus' if i < len(thread_corpus) else 'threads')
        spans.append((c, len(lines), len(ml), 1))
        lines.extend(ml); cases.append(c)
        if len([x for x in cases if x.oracle_ok is False and x.finding is None]) >= 10:
            break
    rp = rng.make(stream + '-plugin')
    tp = time.time()
    t_all = tp
    for i in range(len(plugin_corpus) + n_plugin):
        ops = plugin_corpus[i] if i < len(plugin_corpus) else c18_plugin.gen_ops(rp)
        c, ml = run_plugin_case(ops, 'plugin-corpus' if i < len(plugin_corpus) else 'plugin')
        spans.append((c, len(lines), len(ml), 0))
        lines.extend(ml); cases.append(c)
        if time.time() - tp > budget * 0.4 or len([x for x in cases if x.oracle_ok is False and x.finding is None]) >= 10:
            break
    def add(P, ops, kind):
        c, ml = run_case(P, ops, kind)
        spans.append((c, len(lines), len(ml), 1))
        lines.extend(ml); cases.append(c)
    for P, ops in corpus:
        add(P, ops, 'corpus')
    t0 = time.time()
    bad = 0
    for _ in range(n):
        P = gen_prog(r)
        add(P, gen_ops(r, P, maxlen), 'gen')
        if cases[-1].oracle_ok is False:
            bad += 1
        # a broken scheduler can make every case slow: a few failing inputs are enough
        if bad >= 25 or time.time() - t_all > budget:
            break
    return cases, lines, spans

def fill_model(cases, lines, spans):
    outs = wire.run_driver(PROPERTY, lines)
    for c, start, ln, skip in spans:
        o = outs[start + skip:start + ln]          # skip the `prog` line of a core case
        if 'plugin_ops' in c.input:
            c.model = '\n'.join(c18_plugin.canon_model(x) for x in o)
            continue
        if 'heap_ops' in c.input:
            c.model = '\n'.join(o)
            continue
        c.model = '\n'.join(canon_model(x) for x in o)
        if any(x == 'invalid' for x in o):
            c.tags = tuple(sorted(set(c.tags) | {'m-invalid-picks'}))
    return cases

def first_diff(c):
    a = (c.impl or '').split('\n'); b = (c.model or '').split('\n')
    for i, (x, y) in enumerate(zip(a, b)):
        if x != y:
            return i, x, y
    return min(len(a), len(b)), None, None

def load_corpus():
    d = os.path.join(os.path.dirname(os.path.dirname(os.path.abspath(__file__))), 'corpus', 'C18')
    out = []
    try:
        for f in sorted(os.listdir(d)):
            if f.endswith('.json'):
                j = json.load(open(os.path.join(d, f)))
                if 'prog' in j:
                    out.append((j['prog'], j['ops']))
    except OSError:
        pass
    return out

def fails_unlisted(P, ops):
    try:
        c, _ = run_case(P, ops, 'shrink')
    except Exception:
        return False
    return c.oracle_ok is False

def shrink(P, ops, budget=300):
    head, body = ops[:1], ops[1:]
    n = 0
    chunk = max(1, len(body) // 2)
    while chunk >= 1 and n < budget:
        i = 0; changed = False
        while i < len(body) and n < budget:
            cand = body[:i] + body[i + chunk:]
            n += 1
            if fails_unlisted(P, head + cand):
                body = cand; changed = True
            else:
                i += chunk
        if not changed or chunk == 1:
            chunk //= 2
    # bodies: try emptying each
    P = [list(b) for b in P]
    for i in range(len(P)):
        for j in range(len(P[i]) - 1, -1, -1):
            cand = [list(b) for b in P]
            del cand[i][j]
            n += 1
            if n < budget + 100 and fails_unlisted(cand, head + body):
                P = cand
    return P, head + body

def load_thread_corpus():
    d = os.path.join(os.path.dirname(os.path.dirname(os.path.abspath(__file__))), 'corpus', 'C18')
    out = []
    try:
        for f in sorted(os.listdir(d)):
            if f.endswith('.json'):
                j = json.load(open(os.path.join(d, f)))
                if 'thread_ops' in j:
                    out.append(j['thread_ops'])
    except OSError:
        pass
    return out

def load_plugin_corpus():
    d = os.path.join(os.path.dirname(os.path.dirname(os.path.abspath(__file__))), 'corpus', 'C18')
    out = []
    try:
        for f in sorted(os.listdir(d)):
            if f.endswith('.json'):
                j = json.load(open(os.path.join(d, f)))
                if 'plugin_ops' in j:
                    out.append(j['plugin_ops'])
    except OSError:
        pass
    return out

def _msg_kind(m):
    import re
    return re.sub(r'\d+', '#', (m or '').split(': ', 1)[-1])[:60]

def shrink_plugin_case(c, budget=150):
    """delta debugging on the middle of the op list (the closing phase stays), keeping the same kind of failure"""
    ops = c.input['plugin_ops']
    ntail = 9 if ops and ops[-1] == ['pfinal'] and len(ops) > 10 else 0
    head, body, tail = ops[:1], ops[1:len(ops) - ntail], ops[len(ops) - ntail:]
    want = _msg_kind(c.oracle_msg)
    def bad(o):
        try:
            c2 = run_plugin_case(o, 'shrink')[0]
            return c2.oracle_ok is False and _msg_kind(c2.oracle_msg) == want
        except Exception:
            return False
    n = 0
    chunk = max(1, len(body) // 2)
    while chunk >= 1 and n < budget:
        i = 0; changed = False
        while i < len(body) and n < budget:
            cand = body[:i] + body[i + chunk:]
            n += 1
            if bad(head + cand + tail):
                body = cand; changed = True
            else:
                i += chunk
        if not changed or chunk == 1:
            chunk //= 2
    c2, _ = run_plugin_case(head + body + tail, c.kind + '-shrunk')
    if c2.oracle_ok is False:
        c2.input['unshrunk'] = ops
        return c2
    return c

def shrink_thread_case(c, budget=200):
    ops = c.input['thread_ops']
    head, body = ops[:1], ops[1:]
    want = _msg_kind(c.oracle_msg)
    def bad(o):
        try:
            c2 = run_thread_case(o, 'shrink')[0]
            return c2.oracle_ok is False and _msg_kind(c2.oracle_msg) == want
        except Exception:
            return False
    n = 0
    chunk = max(1, len(body) // 2)
    while chunk >= 1 and n < budget:
        i = 0; changed = False
        while i < len(body) and n < budget:
            cand = body[:i] + body[i + chunk:]
            n += 1
            if bad(head + cand):
                body = cand; changed = True
            else:
                i += chunk
        if not changed or chunk == 1:
            chunk //= 2
    c2, _ = run_thread_case(head + body, c.kind + '-shrunk')
    if c2.oracle_ok is False:
        c2.input['unshrunk'] = ops
        return c2
    return c

def shrink_case(c):
    if 'heap_ops' in c.input:
        return c
    if 'thread_ops' in c.input:
        return shrink_thread_case(c)
    if 'plugin_ops' in c.input:
        return shrink_plugin_case(c)
    P, ops = shrink(c.input['prog'], c.input['ops'])
    c2, _ = run_case(P, ops, c.kind + '-shrunk')
    if c2.oracle_ok is False:
        c2.input['unshrunk'] = {'prog': c.input['prog'], 'ops': c.input['ops']}
        return c2
    return c

def run(ctx):
    build = leanbuild.ensure(PROPERTY, THEOREMS, thorough=ctx.thorough, extractors=['SchedLock'])
    n, maxlen = (80000, 60) if ctx.thorough else (4000, 40)
    cases, lines, spans = explore('c18', n, maxlen, load_corpus(), budget=(600.0 if ctx.thorough else 60.0),
                                  n_plugin=(2500 if ctx.thorough else 220), plugin_corpus=load_plugin_corpus(),
                                  n_thread=(20000 if ctx.thorough else 1500), thread_corpus=load_thread_corpus(),
                                  n_heap=(20000 if ctx.thorough else 1500),
                                  heap_directed=(({6: 0, 7: 0, 8: 0}, 3000) if ctx.thorough else ({6: 0, 7: 400, 8: 250}, 150)))
    if build.driver_ok:
        fill_model(cases, lines, spans)
    for i, c in enumerate(cases):
        if c.oracle_ok is False and c.finding is None:
            c2 = shrink_case(c)
            c2.model = None
            cases[i] = c2
            break
    def search(disagreements, broken):
        os.environ['VERIF_SEED'] = str(ctx.seed + 7919)
        try:
            more, _, _ = explore('c18-search', 8000, 50, [(d.input['prog'], d.input['ops']) for d in disagreements[:50] if 'prog' in d.input],
                                 n_thread=3000, n_plugin=600, plugin_corpus=[d.input['plugin_ops'] for d in disagreements[:20] if 'plugin_ops' in d.input])
        finally:
            os.environ['VERIF_SEED'] = str(ctx.seed)
        bad = [c for c in more if c.oracle_ok is False and c.finding is None]
        if bad:
            return [shrink_case(bad[0])] + bad
        return bad
    extra = {}
    dis = [c for c in cases if c.disagrees()]
    if dis:
        i, x, y = first_diff(dis[0])
        extra['first_disagreement_line'] = {'index': i, 'impl': x, 'model': y}
    return verdict.conclude(PROPERTY, ctx.tier, ctx.seed, build, cases, search=search, rule=RULE,
                            trusted_base=TRUSTED, assumptions=ASSUMPTIONS, extra=extra, t0=ctx.t0)

def replay(ctx, path):
    d = json.load(open(path))
    c = d.get('case') or d.get('first_disagreement')
    if not c:
        print(json.dumps(d, indent=1)[:3000]); return 0
    if 'heap_ops' in c['input']:
        case, _ = run_heap_case(c['input']['heap_ops'], 'replay')
        print(json.dumps(c['input']['heap_ops']))
        print('recorded oracle message:', c.get('oracle_msg'))
        print('implementation now: oracle_ok=%s %s' % (case.oracle_ok, case.oracle_msg))
        return 0 if case.oracle_ok else 1
    if 'thread_ops' in c['input']:
        ops = c['input']['thread_ops']
        case, _ = run_thread_case(ops, 'replay')
        print('operations on a real Schedule; ["race", A, B] = thread B gets the lock at the moment thread A asks for it:')
        for i, op in enumerate(ops):
            print('  #%d %s' % (i, json.dumps(op)))
        print('recorded oracle message:', c.get('oracle_msg'))
        print('implementation now: oracle_ok=%s %s' % (case.oracle_ok, case.oracle_msg))
        return 0 if case.oracle_ok else 1
    if 'plugin_ops' in c['input']:
        ops = c['input']['plugin_ops']
        case, _ = run_plugin_case(ops, 'replay')
        print('operations on the live bot (padd = scheduler add/remind <seconds> "echo c<N>", premove = scheduler remove,')
        print('prepeat = scheduler repeat, preload/punload/pload = owner commands, prestart = stop and start the bot,')
        print('ptick = the clock advances, prun = schedule.run()):')
        for i, op in enumerate(ops):
            print('  #%d %s' % (i, json.dumps(op)))
        print('recorded oracle message:', c.get('oracle_msg'))
        print('implementation now: oracle_ok=%s %s' % (case.oracle_ok, case.oracle_msg))
        for l in (case.impl or '').split('\n'):
            print('  ' + l)
        return 0 if case.oracle_ok else 1
    P, ops = c['input']['prog'], c['input']['ops']
    case, _ = run_case(P, ops, 'replay')
    print('program (bodies of the event functions):')
    for i, b in enumerate(P):
        print('  fn#%d: %s' % (i, json.dumps(b)))
    print('ops:')
    for i, op in enumerate(ops):
        print('  #%d %s' % (i, json.dumps(op)))
    print('recorded oracle message:', c.get('oracle_msg'))
    print('implementation now: oracle_ok=%s %s' % (case.oracle_ok, case.oracle_msg))
    for l in (case.impl or '').split('\n'):
        print('  ' + l)
    return 0 if case.oracle_ok else 1
