"""Extractors: /repo sources -> lean/LimnoriaModel/Gen/*.lean.  Run on every check.
Each extractor is small, `ast`-based, and raises ExtractionError when the source no
longer has the expected shape."""
from vlib.extractlib import (extractor, parse, find_assign, find_func, literal, lchar, lstr,
                             lstring, llist, write_if_changed, ExtractionError)

@extractor('IrcMsgs')
def gen_ircmsgs():
    tree = parse('src/ircmsgs.py')
    tab = literal(find_assign(tree, 'SERVER_TAG_ESCAPE'), 'SERVER_TAG_ESCAPE')
    if not (isinstance(tab, list) and all(isinstance(p, tuple) and len(p) == 2 and
            isinstance(p[0], str) and len(p[0]) == 1 and isinstance(p[1], str) for p in tab)):
        raise ExtractionError('SERVER_TAG_ESCAPE: expected a list of (char, str) pairs')
    body = ('import LimnoriaModel.Py.Basic\nnamespace Gen\n\n/-- ircmsgs.SERVER_TAG_ESCAPE -/\n'
            'def serverTagEscape : List (Char × Py.Str) :=\n  %s\n\nend Gen\n'
            % llist('(%s, %s)' % (lchar(k), lstr(v)) for k, v in tab))
    write_if_changed('IrcMsgs.lean', body, 'src/ircmsgs.py')

if __name__ == '__main__':
    import sys
    from vlib import extractlib
    fails = extractlib.run_all()
    for f in fails:
        print('EXTRACTION FAILURE', f)
    sys.exit(1 if fails else 0)
