"""Extractors: /repo sources -> lean/LimnoriaModel/Gen/*.lean.  Run on every check.
The extractors themselves live in harness/extractors/*.py (one module per table family);
each is small, `ast`-based, and raises ExtractionError when the source no longer has the
expected shape (fail closed)."""
import extractors  # noqa: F401  (registers everything)

if __name__ == '__main__':
    import sys
    from vlib import extractlib
    fails = extractlib.run_all()
    for f in fails:
        print('EXTRACTION FAILURE', f)
    sys.exit(1 if fails else 0)
