"""Entry point: ./check Cxx [--tier quick|thorough] [--replay file]"""
import sys, os, argparse, importlib, time, traceback
sys.path.insert(0, os.path.dirname(os.path.abspath(__file__)))
from vlib import rng

class Ctx(object):
    pass

def main():
    ap = argparse.ArgumentParser()
    ap.add_argument('prop')
    ap.add_argument('--tier', default=os.environ.get('VERIF_TIER') or 'quick', choices=['quick', 'thorough'])
    ap.add_argument('--replay', default=None)
    a = ap.parse_args()
    ctx = Ctx()
    ctx.prop = a.prop.upper()
    ctx.tier = a.tier
    ctx.thorough = (a.tier == 'thorough')
    ctx.seed = rng.seed()
    ctx.replay = a.replay
    ctx.t0 = time.time()
    try:
        mod = importlib.import_module(ctx.prop.lower())
    except ImportError as e:
        sys.stderr.write('no check for %s: %s\n' % (ctx.prop, e))
        return 2
    try:
        if a.replay:
            return mod.replay(ctx, a.replay)
        return mod.run(ctx)
    except Exception:
        traceback.print_exc()
        sys.stderr.write('infrastructure failure in check %s\n' % ctx.prop)
        return 2

if __name__ == '__main__':
    rc = main()
    sys.stdout.flush(); sys.stderr.flush()
    os._exit(rc if isinstance(rc, int) else 2)
