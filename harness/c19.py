"""C19 — outgoing messages: no loss, no duplication, priority, throttling, quit drains, filters
cannot stall.  Correspondence of lean/LimnoriaModel/C19/Model.lean with the real `irclib.Irc` /
`IrcMsgQueue` (virtual clock, stub driver, instrumented outFilter callbacks), plus the property
statement evaluated on the implementation alone (the oracle that yields replays)."""
import json, os, sys, time, collections
from vlib import wire, rng, leanbuild, verdict, bot
from vlib.verdict import Case
from c18_threads import LockHeld

PROPERTY = 'C19'
MANIFEST = {
 'level_text': 'Lean 4 theorems, kernel-checked, about a model of Irc.queueMsg/sendMsg/takeMsg/die/reset and IrcMsgQueue, for every interleaving of those calls with clock ticks, MOTD end, PONG, echo-message (un)acknowledgement and configuration changes, and for every chain of outFilters (arbitrary functions): multiset conservation (accepted = handed to the driver + dropped by a filter + lost + discarded by reset + still queued; refusal is an explicit False with no effect), fast queue first then the most urgent non-empty class and its head, per-class FIFO as list equations over whole histories (a rate-limited JOIN only moves to the back), a trace checker for throttle and JOIN-rate gaps that every trace passes plus its meaning spelled out, the driver is killed only with both queues empty once connected (after the repair of takeMsg), takeMsg satisfies the recursive equation of the code and a filter returning None consumes exactly its message, progress (clock past the limits => a take consumes a message) and a quitting bot drains in at most as many takes as messages wait and then closes; after the repair of the echo emulation (the echo is now a tagged copy; a re-queued IrcMsg object used to be swallowed by the assertion) nothing is lost and the conservation law holds in full (no_loss, conservation_full: for callers handing over any objects any number of times and filters returning their argument or a new message); the tagged objects are only the echo copies made by the bot. Server tags are part of message equality (duplicate refusal). The labeled-response label is in the model as the first link of the chain (same object, one more server tag, never drops; delivered_is_labeled), so every theorem about arbitrary filter chains covers it. takeMsg is a loop since a repair prompted here (it called itself once per dropped message: some hundreds of messages dropped in a row hit the recursion limit, the firewall swallowed the RecursionError and a message no filter had dropped was lost; witness in KNOWN_FINDINGS, replayed at a shallow stack on every run); its bound, one round per message waiting at entry plus one, is the fuel of the model. OutFilters that call irc.sendMsg / irc.queueMsg themselves are modelled (Reentrant.lean): with filters that queue nothing the re-entrant model is the verified one (rtakeMsg_plain), conservation holds with everything the filters send counted as accepted (rtakeMsg_conserves), what they send goes behind what is waiting, and a run of dropped messages, whatever is queued meanwhile, cannot keep the first message the chain lets through from leaving in the same call (rtakeMsg_no_stall); the differential runs include such filters (drop-and-send, drop-and-queue, pass-and-send). The ping time-out path is spelled out (ping_timeout_reconnects: nothing is returned, the driver reconnects, reset() clears both queues, forgets the unanswered PING and leaves exactly the registration messages, as new objects, in the fast queue; reset_starts_clean: the ping machinery is idle until the next end of MOTD, so a reconnect cannot trigger another; a dying bot queues nothing). The ping machinery over whole histories (take_ping_cases, ping_history): a takeMsg either leaves the ping state alone, or emits exactly one PING — with both queues empty, after the MOTD, the interval elapsed, none outstanding —, or with a PING outstanding that long reconnects exactly once; over a life, reconnects + outstanding <= PINGs <= reconnects + PONGs/resets + outstanding (never two time-outs for one PING, at most one PING outstanding). A ping time-out discards nothing (timeout_discards_nothing; on the implementation: a reconnect for an unanswered PING with messages waiting is an oracle failure). A call into the Irc object that does not return is a judged failure (watchdog), and queueMsg is also handed things that are no IrcMsg. Threads: Irc.queueMsg from other threads is modelled at statement granularity (the test for an equal queued message and the append as separate steps of a thread): conservation holds for every interleaving (trun_conserves), the refusal of duplicates did not (unlocked_duplicates; found on the real code by the two-thread stream, repaired with a lock in IrcMsgQueue.enqueue whose placement is extracted, enqueue_is_locked; under it the two steps are one queueMsg, locked_pair). Priority tables, the rate-limited command and the echo-emulated commands are re-extracted from /repo on every run and pinned by table lemmas. The model is tied to src/irclib.py by a differential run of seeded operation sequences on a real Irc object (return values, driver calls, filter log, discarded messages and the full queue/state dump after every operation), which also evaluates the property statement directly on the implementation to produce replays; a second stream drives the same Irc through the real drivers.Socket.SocketDriver on a fake socket (every takeMsg call the driver makes is compared with the model; the bytes on each connection must be exactly the messages takeMsg returned, each line at most 512 bytes and cut on a character boundary, every new connection starting with the registration) — which exposed and led to the repair of SocketDriver._sendIfMsgs (a message taken while the previous one was still buffered overwrote it).',
 'level_note': 'Trusted: Lean kernel; axioms propext/Classical.choice/Quot.sound only; harness/extractors/ircqueue.py; the correspondence harness (generator quality bounds what it sees); integer-valued virtual clock; stub driver whose reconnect() calls irc.reset() as SocketDriver.reconnect does; a second Irc stays registered so that _reallyDie does not clear the shared callback list. Modelled: IrcMsgQueue.enqueue/dequeue/__contains__/reset, Irc.queueMsg/sendMsg/takeMsg (fast queue, throttle, ping emission and ping time-out reconnect, outFilter chain with recursion on None, firewall on a raising filter, echo emulation tag/assert, zombie branch)/die/reset/_queueConnectMessages/_reallyDie (driver part), object identity of messages, server tags in message equality. the labeled-response label (makeLabel() is random: the model uses the fresh number of the link; only the presence of such a label is compared). Not modelled: _truncateMsg as a function (it rewrites only the cached wire text, not prefix/command/arguments; its 512-byte bound is proved in C12 and checked here on the socket of the real driver with over-long ASCII and multi-byte messages); the label written into an object that is queued twice at the same moment (aliasing: the model labels each queue entry separately); state.addMsg of outgoing messages (only under world.testing; the harness runs with world.testing False); a filter chain that keeps re-sending what it drops (an endless source of messages: takeMsg gives up after one round per message waiting at entry plus one and returns None; nothing is lost, but such a chain starves the regular queue by its own doing), the callbacks of real plugins (the Irc under test carries harness filter callbacks only), non-ASCII command upper-casing, negative or fractional rates, messages sent with sendMsg are outside the throttle/JOIN-rate claims (by design of the fast queue). Stated precondition of quit_drains: die() before the end of MOTD (afterConnect False) closes the connection at once by design.',
 'technique': 'Lean 4 proof (induction over operation sequences with invariants) + table extraction + differential correspondence',
 'design_ref': 'DESIGN.md §6 C19',
}
THEOREMS = ['C19.tables_ok', 'C19.classes_ok', 'C19.conservation', 'C19.conservation_life', 'C19.conservation_partial',
            'C19.no_loss', 'C19.conservation_full', 'C19.queueMsg_refused_iff', 'C19.queueMsg_refused_state',
            'C19.queueMsg_accepted', 'C19.priority', 'C19.fast_first', 'C19.fifo', 'C19.fifo_run',
            'C19.rates', 'C19.throttle_join_rate', 'C19.throttle_join_rate_fixed', 'C19.quit_drains',
            'C19.takeMsg_recursive', 'C19.filter_no_stall_fast', 'C19.filter_no_stall_queue',
            'C19.lost_only_tagged', 'C19.tagged_are_echo_copies', 'C19.no_stall', 'C19.quit_completes',
            'C19.ping_timeout_reconnects', 'C19.reset_starts_clean', 'C19.reset_zombie',
            'C19.label_step', 'C19.delivered_is_labeled',
            'C19.rtakeMsg_plain', 'C19.rtakeMsg_conserves', 'C19.rtakeMsg_no_stall',
            'C19.take_ping_cases', 'C19.pong_clears', 'C19.ping_history', 'C19.timeout_discards_nothing',
            'C19.trun_conserves', 'C19.locked_pair', 'C19.unlocked_duplicates', 'C19.locked_refuses', 'C19.enqueue_is_locked']
TRUSTED = ['Lean 4.33.0 kernel; axioms ⊆ {propext, Classical.choice, Quot.sound}',
           'harness/extractors/ircqueue.py (_high, _low, rate-limited command, echo-emulated commands → Gen/IrcQueue.lean)',
           'harness/c19.py generators, instrumentation (virtual clock, stub driver, recording outFilter callbacks), canonicalisation; hex line protocol',
           'stub driver: reconnect() calls irc.reset() (as drivers.Socket.SocketDriver.reconnect(reset=True)); die() only records',
           'a second Irc object stays registered in world.ircs so that _reallyDie does not clear the shared callback list']
RULE = ('seeded operation sequences (queue/send/take/tick/die/reset/connected/pong/capecho/caplabel/cfg/filters) over all three priority '
        'classes, duplicates on/off, throttle and JOIN limits, dropping/raising/rewriting filters, followed by a drain phase; '
        'every sequence is run on a real irclib.Irc and on the Lean model and the per-operation observations are diffed. '
        'A case is non-trivial when it exercised at least one non-default branch (tags); distinct = distinct op sequence.')
ASSUMPTIONS = ['Python asserts enabled', 'integer-valued clock, non-negative integer throttleTime / rateLimit.join',
               'no object is in the queue twice while labeled-response is negotiated', 'only the driver thread calls takeMsg / reset (single consumer); other threads call queueMsg / sendMsg',
               'die() before afterConnect closes at once (by design; stated as hypothesis of quit_drains)']

FINDING_REUSED = 'C19-reused-object-lost'     # repaired in /repo b0e0eea; kept as a class name only

def enc_tags(d):
    """server tags as the model's sorted association list"""
    if not d:
        return '-'
    # labels drawn by makeLabel() (patched to 'auto<n>') are random: only their presence is compared
    canon = lambda k, v: 'auto' if k == 'label' and isinstance(v, str) and AUTO_RE.match(v) else v
    return '+'.join(wire.enc(k) + '=' + wire.enc_opt(canon(k, d[k])) for k in sorted(d))
import re as _re
AUTO_RE = _re.compile(r'^auto[0-9]+$')
URGENT = ('PONG', 'MODE', 'KICK', 'NICK', 'PASS')
BULK = ('PRIVMSG', 'NOTICE', 'JOIN', 'WHO', 'PING')
PLAIN = ('QUIT', 'PART', 'TOPIC', 'CAP')

# ------------------------------------------------------------------------------------------
# implementation side
# ------------------------------------------------------------------------------------------
_env = None

class Clock(object):
    t = 1000

def env():
    """live modules + virtual clock (once per process)"""
    global _env
    if _env is None:
        b = bot.full(plugins=())
        clk = Clock()
        clk.real = time.time
        clk.virtual = lambda: float(clk.t)
        _env = (b, clk)
    return _env


def make_callbacks(b, rules, log, enq=None):
    irclib, ircmsgs = b.irclib, b.ircmsgs

    class EntryRec(irclib.IrcCallback):
        def outFilter(self, irc, msg):
            log.append([msg, None, False])
            return msg

    class ExitRec(irclib.IrcCallback):
        def outFilter(self, irc, msg):
            log[-1][1] = msg
            log[-1][2] = msg.tagged('emulatedEcho') is not None
            return msg

    class RuleCb(irclib.IrcCallback):
        def __init__(self, kind, cmd, newcmd):
            self.kind = kind; self.cmd = cmd; self.newcmd = newcmd
        def name(self):
            return 'RuleCb'
        def outFilter(self, irc, msg):
            if self.kind == 'raise':
                raise ValueError('filter raises')
            if msg.command != self.cmd or self.kind == 'same':
                return msg
            if self.kind == 'drop':
                return None
            if self.kind == 'rewrite':
                return ircmsgs.IrcMsg(prefix=msg.prefix, command=self.newcmd, args=msg.args,
                                      server_tags=dict(msg.server_tags))
            if self.kind in ('resend', 'requeue', 'sendalso'):
                # re-entrant filters: they call irc.sendMsg / irc.queueMsg themselves
                new = ircmsgs.IrcMsg(prefix=msg.prefix, command=self.newcmd, args=msg.args,
                                     server_tags=dict(msg.server_tags))
                fast = self.kind != 'requeue'
                ret = irc.sendMsg(new) if fast else irc.queueMsg(new)
                if enq is not None:
                    accepted = (not irc.zombie) if fast else bool(ret)
                    enq.append((len(log), fast, new, accepted))
                return msg if self.kind == 'sendalso' else None
            return msg

    # applied in reversed(callbacks) order: EntryRec, rules…, ExitRec
    return [ExitRec()] + [RuleCb(*r) for r in reversed(rules)] + [EntryRec()]


class StubDriver(object):
    def __init__(self, impl):
        self.impl = impl
    def die(self):
        self.impl.on_driver_die()
    def reconnect(self, wait=False, reset=True, server=None):
        self.impl.on_driver_reconnect()
        if reset:
            self.impl.irc.reset()


class Hang(Exception):
    """a call into the Irc object did not return"""

def guarded(fn, seconds=5.0):
    """run fn(); a call that does not return within `seconds` of wall time is a judged outcome (Hang), not a
    stuck check (a blocked lock.acquire() is interrupted by the signal)"""
    import signal
    def on_alarm(sig, frame):
        raise Hang()
    old = signal.signal(signal.SIGALRM, on_alarm)
    signal.setitimer(signal.ITIMER_REAL, seconds)
    try:
        return fn()
    finally:
        signal.setitimer(signal.ITIMER_REAL, 0)
        signal.signal(signal.SIGALRM, old)

BAD_ARGS = {'none': None, 'str': 'PRIVMSG #a :x', 'int': 7, 'bytes': b'PRIVMSG #a :x', 'tuple': ('PRIVMSG', '#a')}

class Impl(object):
    """one real Irc object driven by an op sequence; produces the canonical observation lines
    and evaluates the property statement (oracle) on what it sees"""
    def __init__(self):
        self.b, self.clk = env()
        time.time = self.clk.virtual       # virtual clock while a case runs (restored in close())
        iu = self.b.irclib.ircutils
        self._real_makeLabel = iu.makeLabel
        self._nlabel = 0
        def makeLabel():
            self._nlabel += 1
            return 'auto%d' % self._nlabel
        iu.makeLabel = makeLabel
        self.irc = None
        self.rules = []
        self.cfg = (0, 0, False, True, 120)
        self.serial = {}          # id(obj) -> caller serial
        self.objs = {}            # serial -> obj (keeps objects alive)
        self.known = {}           # id(obj) -> obj for every object ever seen in a queue
        self.fails = []           # oracle failures: (op index, message, finding class or None)
        self.tags = set()
        self.opi = -1
        # oracle bookkeeping
        self.acc_seq = collections.defaultdict(list)   # id -> acceptance sequence numbers still pending
        self.seq = 0
        self.last_qtake = None    # time of last non-fast release since reset
        self.last_join = None
        self.delivered_ids = set()
        self.cur_op = None
        self.died = False
        self.hung = False
        self.take_fn = lambda: self.irc.takeMsg()
        self.last_taken = None

    # ---- helpers
    def ser(self, m):
        s = self.serial.get(id(m))
        return ('~' if s is None else str(s)) + '/' + wire.enc(m.prefix) + '/' + wire.enc(m.command) + '/' + wire.enc_list(m.args) + '/' + enc_tags(m.server_tags)

    def sers(self, ms):
        ms = list(ms)
        return '-' if not ms else ';'.join(self.ser(m) for m in ms)

    def queues(self):
        irc = self.irc
        return (list(irc.fastqueue), list(irc.queue.highpriority), list(irc.queue.normal), list(irc.queue.lowpriority))

    def pending(self):
        f, h, n, l = self.queues()
        return f + h + n + l

    def state(self):
        irc = self.irc
        f, h, n, l = self.queues()
        bits = ''.join('1' if x else '0' for x in (irc.zombie, irc.afterConnect, irc.outstandingPing,
                                                   'echo-message' in irc.state.capabilities_ack,
                                                   'labeled-response' in irc.state.capabilities_ack))
        return '%d|%d|%d|%d|%s\t%s\t%s\t%s\t%s' % (self.clk.t, int(irc.lastTake), int(irc.queue.lastJoin), int(irc.lastping),
                                                    bits, self.sers(f), self.sers(h), self.sers(n), self.sers(l))

    def fail(self, msg, finding=None):
        self.fails.append((self.opi, msg, finding))

    def klass_impl(self, m):
        irclib = self.b.irclib
        return 0 if m.command in irclib._high else (2 if m.command in irclib._low else 1)

    def klass(self, m):
        # the statement's own notion for the core commands, the implementation's tables otherwise
        if m.command in URGENT: return 0
        if m.command in BULK: return 2
        if m.command in PLAIN: return 1
        irclib = self.b.irclib
        return 0 if m.command in irclib._high else (2 if m.command in irclib._low else 1)

    # ---- driver callbacks (oracle: zombie drains)
    def on_driver_die(self):
        self.drv.append('d')
        irc = self.irc
        if len(irc.fastqueue) or len(irc.queue):
            if self.cur_op == 'die' and not self.ac_before:
                self.tags.add('die-before-connect-nonempty')
            else:
                self.fail('driver.die() called with %d fast / %d queued messages still pending: %s'
                          % (len(irc.fastqueue), len(irc.queue), self.sers(self.pending())))
        self.died = True

    def on_driver_reconnect(self):
        self.drv.append('r')
        self.disc = self.pending()

    # ---- conservation bookkeeping
    def note_accept(self, m):
        self.seq += 1
        self.acc_seq[id(m)].append(self.seq)
        self.known[id(m)] = m

    def note_gone(self, m):
        l = self.acc_seq.get(id(m))
        if l:
            l.pop(0)

    def first_seq(self, m):
        l = self.acc_seq.get(id(m))
        return l[0] if l else None

    # ---- operations
    def apply_cfg(self):
        conf = self.b.conf
        th, jl, dup, ping, iv = self.cfg
        conf.supybot.protocols.irc.throttleTime.setValue(float(th))
        conf.supybot.protocols.irc.queuing.rateLimit.join.setValue(float(jl))
        conf.supybot.protocols.irc.queuing.duplicates.setValue(bool(dup))
        conf.supybot.protocols.irc.ping.setValue(bool(ping))
        conf.supybot.protocols.irc.ping.interval.setValue(int(iv))

    def new(self, t):
        self.clk.t = t
        self.apply_cfg()
        self.chain = []
        self.enq = []
        self.cbs = make_callbacks(self.b, self.rules, self.chain, self.enq)
        self.irc = self.b.irclib.Irc('test', callbacks=self.cbs)
        self.irc.driver = StubDriver(self)
        for m in self.pending():
            self.note_accept(m)

    def close(self):
        time.time = self.clk.real
        self.b.irclib.ircutils.makeLabel = self._real_makeLabel
        w = self.b.world
        if self.irc is not None and self.irc in w.ircs:
            w.ircs.remove(self.irc)

    def msg(self, serial, content):
        if serial in self.objs:
            self.tags.add('reused-object')
            return self.objs[serial]
        pfx, cmd, args = content[:3]
        tags = dict(content[3]) if len(content) > 3 and content[3] else None
        m = self.b.ircmsgs.IrcMsg(prefix=pfx, command=cmd, args=tuple(args), server_tags=tags)
        self.objs[serial] = m
        self.serial[id(m)] = serial
        return m

    def qrace(self, op):
        """['qrace', sA, cA, sB, cB]: thread A calls irc.queueMsg(A); a second thread's whole irc.queueMsg(B)
        is injected at the first point where CPython could run it: when A asks for the queue's lock (since
        the repair), or — without a lock — between A's `msg in self` test and its append.
        -> (observation lines, equivalent sequential ops) in the order the critical sections ran"""
        try:
            return guarded(lambda: self._qrace(op), 8.0)
        except (Hang, LockHeld):
            self.hung = True
            self.fail('two threads in irc.queueMsg: a call does not return (it waits for ever for the lock of the queue)')
            return [], []

    def _qrace(self, op):
        from c18_threads import HookLock
        self.opi += 1
        self.cur_op = 'queue'
        irc = self.irc
        self.drv = []; self.disc = None
        mA = self.msg(op[1], op[2]); mB = self.msg(op[3], op[4])
        before = collections.Counter(id(m) for m in self.pending())
        q = irc.queue
        done = {}
        def other():
            done['ret'] = irc.queueMsg(mB)
            done['state'] = self.state()
        cls = type(q)
        if hasattr(q, 'lock'):
            real_lock = q.lock
            hl = HookLock(); hl.hook = other
            q.lock = hl
            try:
                rA = irc.queueMsg(mA)
            finally:
                q.lock = real_lock
            pending_hook = hl.hook is not None
            self.tags.add('race-at-lock')
        else:
            orig = cls.__contains__
            state = {'hook': other}
            def contains(self_, msg):
                r = orig(self_, msg)
                h, state['hook'] = state['hook'], None
                if h is not None and self_ is q:
                    h()
                return r
            cls.__contains__ = contains
            try:
                rA = irc.queueMsg(mA)
            finally:
                cls.__contains__ = orig
            pending_hook = state['hook'] is not None
            self.tags.add('race-no-lock')
        stateA = self.state()
        if pending_hook:                 # A never reached the queue (quitting bot): B simply runs afterwards
            other()
            order = [(op[1], op[2], rA, stateA, mA), (op[3], op[4], done['ret'], done['state'], mB)]
        else:
            order = [(op[3], op[4], done['ret'], done['state'], mB), (op[1], op[2], rA, stateA, mA)]
        after = collections.Counter(id(m) for m in self.pending())
        want = collections.Counter(before)
        for _, _, r, _, m in order:
            if r is True:
                want[id(m)] += 1
                self.note_accept(m)
        if after != want:
            self.fail('two threads in queueMsg: the queues did not gain exactly the accepted messages')
        if self.cfg[2] and mA == mB and rA is True and done['ret'] is True:
            self.fail('two threads queued equal messages at the same time and both were accepted although '
                      'supybot.protocols.irc.queuing.duplicates refuses duplicates: %s is queued twice' % self.ser(mA))
        self.tags.add('two-threads-equal' if mA == mB else 'two-threads-different')
        lines = ['%s\t-\t-\t~\t%s' % ('T' if r else 'F', st) for _, _, r, st, _ in order]
        return lines, [['queue', s_, c_] for s_, c_, _, _, _ in order]

    def do(self, op):
        """run one op; return the observation line"""
        self.opi += 1
        k = op[0]
        self.cur_op = k
        irc = self.irc
        self.drv = []; self.disc = None
        ret = 'N'
        chain_s = '-'
        if k == 'cfg':
            self.cfg = tuple(op[1:6])
            self.apply_cfg()
            if irc is None:
                return None
        elif k == 'filters':
            self.rules = [tuple(r) for r in op[1]]
            if irc is None:
                return None
            self.cbs[:] = make_callbacks(self.b, self.rules, self.chain, self.enq)
        elif k == 'new':
            self.new(op[1])
            return 'N\t-\t-\t~\t' + self.state()
        before = collections.Counter(id(m) for m in self.pending())
        bq = self.queues()
        self.ac_before = irc.afterConnect
        zombie_before = irc.zombie
        if k == 'queue':
            m = self.msg(op[1], op[2])
            dup_present = any(x == m for x in bq[1] + bq[2] + bq[3])
            try:
                r = guarded(lambda: irc.queueMsg(m))
            except (Hang, LockHeld):
                self.hung = True
                self.fail('irc.queueMsg(%s) does not return (it waits for ever for the lock of the queue): nothing can be '
                          'queued any more' % self.ser(m))
                return 'HANG'
            ret = 'T' if r else 'F'
            after = collections.Counter(id(x) for x in self.pending())
            if r is True:
                self.tags.add('accepted')
                if dup_present and self.cfg[2] and not zombie_before:
                    twin = [x for x in bq[1] + bq[2] + bq[3] if x == m][0]
                    self.fail('queueMsg(%s) returned True although an equal message (%s) is waiting in the queue and '
                              'supybot.protocols.irc.queuing.duplicates refuses duplicates: it will be sent twice'
                              % (self.ser(m), self.ser(twin)))
                want = before + collections.Counter([id(m)])
                if after != want:
                    self.fail('queueMsg(%s) returned True but the queues did not gain exactly that message' % self.ser(m))
                self.note_accept(m)
                if self.klass(m) == 0: self.tags.add('class-high')
                elif self.klass(m) == 1: self.tags.add('class-normal')
                else: self.tags.add('class-low')
            elif r is False:
                self.tags.add('refused-zombie' if zombie_before else 'refused-duplicate')
                if after != before:
                    self.fail('queueMsg(%s) returned False but the queues changed' % self.ser(m))
                if not zombie_before and not (self.cfg[2] and dup_present):
                    self.fail('queueMsg(%s) refused although the bot is not quitting and no equal message is queued with duplicate refusal on' % self.ser(m))
            else:
                self.fail('queueMsg(%s) returned %r, neither True nor False' % (self.ser(m), r))
        elif k == 'send':
            m = self.msg(op[1], op[2])
            try:
                guarded(lambda: irc.sendMsg(m))
            except (Hang, LockHeld):
                self.hung = True
                self.fail('irc.sendMsg(%s) does not return' % self.ser(m))
                return 'HANG'
            after = collections.Counter(id(x) for x in self.pending())
            if zombie_before:
                self.tags.add('send-refused')
                if after != before:
                    self.fail('sendMsg on a quitting bot changed the queues')
            else:
                self.tags.add('send')
                if after != before + collections.Counter([id(m)]):
                    self.fail('sendMsg(%s) did not add exactly that message' % self.ser(m))
                self.note_accept(m)
        elif k == 'queuebad':
            # a plugin hands queueMsg something that is no IrcMsg: the caller gets an exception, nothing else happens
            arg = BAD_ARGS[op[1]]
            try:
                r = guarded(lambda: irc.queueMsg(arg))
                if r is not False and not zombie_before:
                    self.fail('irc.queueMsg(%r) returned %r' % (arg, r))
            except (Hang, LockHeld):
                self.hung = True
                self.fail('irc.queueMsg(%r) does not return' % (arg,))
                return 'HANG'
            except Exception as e:
                self.tags.add('queue-non-message-%s' % type(e).__name__)
            after = collections.Counter(id(x) for x in self.pending())
            if after != before:
                self.fail('irc.queueMsg(%r) changed the queues' % (arg,))
        elif k == 'take':
            ret, chain_s = self.do_take(before, bq, zombie_before)
        elif k == 'die':
            irc.die()
            self.tags.add('die' if self.ac_before else 'die-before-connect')
        elif k == 'reset':
            self.disc = self.pending()
            irc.reset()
            self.tags.add('reset-zombie' if zombie_before else 'reset')
        elif k == 'tick':
            self.clk.t += op[1]
        elif k == 'connected':
            irc.afterConnect = True
        elif k == 'pong':
            irc.feedMsg(self.b.ircmsgs.IrcMsg(':server PONG server :x'))
        elif k == 'capecho':
            if op[1]:
                irc.state.capabilities_ack.add('echo-message')
            else:
                irc.state.capabilities_ack.discard('echo-message')
        elif k == 'caplabel':
            if op[1]:
                irc.state.capabilities_ack.add('labeled-response')
            else:
                irc.state.capabilities_ack.discard('labeled-response')
            self.tags.add('cap-labeled-response-%s' % ('on' if op[1] else 'off'))
        if k not in ('queue', 'send', 'take'):
            after_l = self.pending()
            after = collections.Counter(id(x) for x in after_l)
            if self.disc is not None:
                # reset: everything that was pending is discarded, only new internal objects remain
                for m in self.disc:
                    self.note_gone(m)
                for m in after_l:
                    if id(m) in before:
                        self.fail('a message pending before reset() is still queued after it: %s' % self.ser(m))
                    self.note_accept(m)
                self.last_qtake = None; self.last_join = None
            elif after != before:
                self.fail('operation %s changed the pending messages' % k)
        disc_s = '~' if self.disc is None else self.sers(self.disc)
        return '%s\t%s\t%s\t%s\t%s' % (ret, ''.join(self.drv) or '-', chain_s, disc_s, self.state())

    def do_take(self, before, bq, zombie_before):
        irc = self.irc
        del self.chain[:]
        del self.enq[:]
        now = self.clk.t
        th, jl = self.cfg[0], self.cfg[1]
        # the label (labeled-response) is written into the dequeued object itself: describe the
        # sources as they were queued
        pre = dict((id(x), self.ser(x)) for q in bq for x in q)
        old_limit = None
        if getattr(self, 'rec_extra', 0):
            # a shallow stack: a takeMsg that uses one level of recursion per dropped message shows
            # with tens, not hundreds, of messages
            depth = 0; fr = sys._getframe()
            while fr is not None:
                depth += 1; fr = fr.f_back
            old_limit = sys.getrecursionlimit()
            sys.setrecursionlimit(depth + self.rec_extra)
            take_fn = self.take_fn
            def limited():
                try:
                    return take_fn()
                finally:
                    sys.setrecursionlimit(old_limit)
            self_take = limited
        else:
            self_take = self.take_fn
        prelabel = dict((id(x), x.server_tags.get('label')) for q in bq for x in q)
        try:
            r = guarded(self_take, 8.0)
        except (Hang, LockHeld):
            self.hung = True
            self.last_taken = None
            self.fail('irc.takeMsg() does not return (its own queueMsg of the PING waits for ever for the lock of the queue): '
                      'the driver is stuck')
            return 'HANG', '-'
        self.last_taken = r
        chain = [list(e) for e in self.chain]
        ret = 'N' if r is None else 'M' + self.ser(r)
        parts = []
        # --- oracle
        f, h, n, l = [list(x) for x in bq]
        reset_happened = self.disc is not None
        enq = list(self.enq)
        incall = collections.Counter()
        for i, (src, out, was_tagged) in enumerate(chain):
            last = (i == len(chain) - 1)
            # what the filters sent / queued while the previous messages of this call were processed
            for pos, efast, em, eacc in enq:
                if pos == i and eacc:
                    (f if efast else (h, n, l)[self.klass_impl(em)]).append(em)
                    self.note_accept(em); incall[id(em)] += 1
                    self.tags.add('filter-sent-in-take' if efast else 'filter-queued-in-take')
            if f:
                if src is not f[0]:
                    self.fail('takeMsg processed %s while %s is at the head of the fast queue' % (self.ser(src), self.ser(f[0])))
                if src in f: f.remove(src)
                fast = True
            else:
                fast = False
                regular = h + n + l
                if not any(src is x for x in regular):
                    self.fail('takeMsg processed %s which was not queued' % self.ser(src))
                else:
                    mine = self.klass(src)
                    more_urgent = [x for x in regular if self.klass(x) < mine]
                    if more_urgent:
                        self.fail('takeMsg released %s (class %d) while a message of a more urgent class is queued: %s'
                                  % (self.ser(src), mine, self.ser(more_urgent[0])))
                    else:
                        myseq = self.first_seq(src)
                        for x in regular:
                            if x is src or self.klass(x) != mine:
                                continue
                            if x.command != 'JOIN' and self.first_seq(x) is not None and myseq is not None and self.first_seq(x) < myseq:
                                self.fail('first-in-first-out broken: %s released before the earlier %s of the same class'
                                          % (self.ser(src), self.ser(x)))
                    for c in (h, n, l):
                        for j, x in enumerate(c):
                            if x is src:
                                del c[j]; break
                        else:
                            continue
                        break
            self.note_gone(src)
            parts.append(('F' if fast else 'Q') + pre.get(id(src), self.ser(src)) + '>' + ('X' if out is None else self.ser(out)))
            if out is not None and 'label' in out.server_tags and AUTO_RE.match(out.server_tags['label'] or ''):
                self.tags.add('label-added')
            if out is src and prelabel.get(id(src)) is not None and out.server_tags.get('label') != prelabel[id(src)]:
                self.fail('the label %r the caller put on %s was replaced by %r (the caller can no longer match the response)'
                          % (prelabel[id(src)], pre.get(id(src)), out.server_tags.get('label')))
            if out is src and out is not None and 'labeled-response' in irc.state.capabilities_ack and not self.rules \
                    and 'label' not in out.server_tags:
                self.fail('labeled-response is negotiated but %s went out without a label' % self.ser(out))
            if out is None:
                self.tags.add('filter-drop-fast' if fast else 'filter-drop-queue')
                if last and r is not None:
                    self.fail('takeMsg returned %s although the last filtered message was dropped' % self.ser(r))
                continue
            if out is not src:
                self.tags.add('filter-rewrite')
            if not last:
                self.fail('takeMsg went on after a filter chain produced %s' % self.ser(out))
                continue
            if r is None:
                self.tags.add('lost')
                self.fail('accepted message %s was removed from the queue but never handed to the driver (takeMsg returned None)'
                          % self.ser(src))
            elif r is not out:
                self.fail('takeMsg returned %s, not the filtered message %s' % (self.ser(r), self.ser(out)))
            else:
                if id(out) in self.delivered_ids:
                    self.tags.add('same-object-sent-again')
                self.delivered_ids.add(id(out))
                self.tags.add('take-fast' if fast else 'take-queue')
                if not fast:
                    if self.last_qtake is not None and now - self.last_qtake < th:
                        self.fail('throttle: queued messages released at %d and %d with throttleTime %d' % (self.last_qtake, now, th))
                    self.last_qtake = now
                    if src.command == 'JOIN':
                        if self.last_join is not None and now - self.last_join < jl:
                            self.fail('JOIN rate: JOINs released at %d and %d with rateLimit.join %d' % (self.last_join, now, jl))
                        self.last_join = now
                        self.tags.add('join-released')
        for pos, efast, em, eacc in enq:
            if pos == len(chain) and eacc:
                self.note_accept(em); incall[id(em)] += 1
                self.tags.add('filter-sent-in-take' if efast else 'filter-queued-in-take')
        before = before + incall
        if r is not None and not chain:
            self.fail('takeMsg returned %s which never went through the filter chain' % self.ser(r))
        # conservation for this call
        after_l = self.pending()
        after = collections.Counter(id(x) for x in after_l)
        consumed = collections.Counter(id(e[0]) for e in chain)
        if reset_happened:
            self.tags.add('ping-timeout-reconnect')
            if self.disc:
                # the ping branch belongs to an idle connection: with messages waiting (throttled, rate-limited)
                # takeMsg hands them out, it does not reconnect and throw them away
                mine = [m for m in self.disc if id(m) in self.serial]
                self.fail('takeMsg gave up the connection for an unanswered PING while %d message(s) were waiting: %s %s '
                          'discarded by the reset (accepted by queueMsg/sendMsg, never handed to the driver)'
                          % (len(self.disc), self.sers((mine or self.disc)[:3]), 'was' if len(self.disc) == 1 else 'were'))
            for m in self.disc:
                self.note_gone(m)
            for m in after_l:
                self.note_accept(m)
            self.last_qtake = None; self.last_join = None
        else:
            new = [m for m in after_l if id(m) not in self.known]
            for m in new:
                self.note_accept(m)
                self.tags.add('ping-sent' if m.command == 'PING' else 'internal-message')
            want = before - consumed + collections.Counter(id(m) for m in new)
            if after != want or (consumed - before):
                self.fail('takeMsg: pending-before minus processed does not equal pending-after (a message vanished or appeared)')
        if not chain and r is None:
            if not bq[0] and (bq[1] or bq[2] or bq[3]):
                self.tags.add('no-message-throttled-or-join-held')
            else:
                self.tags.add('no-message-idle')
        if 'd' in self.drv:
            self.tags.add('zombie-killed')
        return ret, ';'.join(parts) or '-'


_rig = None
def rig():
    """the C11 rig: the real SocketDriver over a fake socket (once per process)"""
    global _rig
    if _rig is None:
        import c11
        _rig = c11.Rig()
    return _rig


class DriverImpl(Impl):
    """the same Irc, but driven by the real drivers.Socket.SocketDriver (fake socket): `drun` is one
    drivers.run(); every Irc.takeMsg call the driver makes is observed like a `take` operation, and the
    bytes on the sockets are checked against what takeMsg returned, connection by connection"""
    def new(self, t):
        R = rig()
        self.clk.t = t
        self.apply_cfg()
        self.chain = []
        self.enq = []
        self.cbs = make_callbacks(self.b, self.rules, self.chain, self.enq)
        self.irc = self.b.irclib.Irc('test', callbacks=self.cbs)
        d, stub, fs, st = R.fresh(irc=self.irc)
        self.driver = d
        self.epochs = [[]]          # str() of the messages takeMsg returned, per connection
        real_take = self.irc.takeMsg
        self._real_take = real_take
        self.take_fn = real_take
        real_die, real_reconnect = d.die, d.reconnect
        def die():
            self.on_driver_die(); return real_die()
        def reconnect(*a, **k):
            self.on_driver_reconnect()
            self.epochs.append([])
            return real_reconnect(*a, **k)
        d.die = die; d.reconnect = reconnect
        self.irc.takeMsg = self.driver_take
        for m in self.pending():
            self.note_accept(m)

    def driver_take(self):
        if getattr(self, '_in_take', False):
            # `return self.takeMsg()` inside takeMsg (an outFilter returned None): part of the same call
            return self._real_take()
        self._in_take = True
        try:
            return self._driver_take()
        finally:
            self._in_take = False

    def _driver_take(self):
        self.drv = []; self.disc = None
        before = collections.Counter(id(m) for m in self.pending())
        bq = self.queues()
        self.ac_before = self.irc.afterConnect
        zb = self.irc.zombie
        ep = len(self.epochs) - 1
        ret, chain_s = self.do_take(before, bq, zb)
        disc_s = '~' if self.disc is None else self.sers(self.disc)
        self.drun_obs.append('%s\t%s\t%s\t%s\t%s' % (ret, ''.join(self.drv) or '-', chain_s, disc_s, self.state()))
        if self.last_taken is not None:
            self.epochs[ep].append(str(self.last_taken).encode('utf-8', 'replace'))
        return self.last_taken

    def drun(self):
        self.opi += 1
        self.cur_op = 'take'
        self.drun_obs = []
        try:
            guarded(rig().drivers.run, 10.0)
        except (Hang, LockHeld):
            self.hung = True
            self.fail('drivers.run() does not return: the driver is stuck inside irc.takeMsg()')
        self.tags.add('driver-run-%d-takes' % min(len(self.drun_obs), 3))
        return list(self.drun_obs)

    def check_bytes(self):
        socks = rig().socks
        for k, s in enumerate(socks):
            if k >= len(self.epochs):
                break
            want = self.epochs[k]
            sent = bytes(s.sent)
            ok = False
            for j in range(len(want) + 1):
                if b''.join(want[:j]) == sent:
                    ok = True; last = (j == len(want))
                    break
            if not ok:
                self.fail('connection %d: the socket received %r, which is not a prefix (by whole messages) of what takeMsg '
                          'returned on that connection %r' % (k, sent[:120], b''.join(want)[:120]))
            elif not last and k == len(socks) - 1 and not self.driver.outbuffer and self.driver.connected and not self.irc.zombie:
                self.fail('connection %d: %d message(s) returned by takeMsg never reached the socket' % (k, len(want) - j))
            for ln in sent.split(b'\r\n'):
                body = ln.split(b' ', 1)[1] if ln.startswith(b'@') and b' ' in ln else ln
                if len(body) + 2 > 512:
                    self.fail('connection %d: a line of %d bytes was written to the socket (limit 512): %r...' % (k, len(body) + 2, ln[:60]))
                if len(body) + 2 == 512: self.tags.add('driver-line-truncated-to-512')
                try:
                    ln.decode('utf-8')
                except UnicodeDecodeError:
                    self.fail('connection %d: a line was cut inside a multi-byte character: %r' % (k, ln[-20:]))
            if k > 0 and sent and not sent.startswith(b'CAP LS'):
                self.fail('connection %d starts with %r, not with the registration (CAP LS ...)' % (k, sent[:60]))
            if k > 0: self.tags.add('driver-reconnected')

    def close(self):
        Impl.close(self)


# ------------------------------------------------------------------------------------------
# model side
# ------------------------------------------------------------------------------------------
def enc_content(serial, content):
    pfx, cmd, args = content[:3]
    tags = dict(content[3]) if len(content) > 3 and content[3] else {}
    return '%s/%s/%s/%s/%s' % (serial, wire.enc(pfx), wire.enc(cmd), wire.enc_list(args), enc_tags(tags))

def model_lines(ops, connect):
    """driver input lines for one case; `connect` = the connect messages of the real Irc"""
    L = []
    for op in ops:
        k = op[0]
        if k == 'cfg':
            L.append('cfg\t%d\t%d\t%d\t%d\t%d' % (op[1], op[2], 1 if op[3] else 0, 1 if op[4] else 0, op[5]))
        elif k == 'filters':
            L.append('filters\t' + (';'.join('%s:%s:%s' % (r[0], wire.enc(r[1]), wire.enc(r[2])) for r in op[1]) or '-'))
        elif k == 'new':
            L.append('connectmsgs\t' + (';'.join(connect) or '-'))
            L.append('new\t%d' % op[1])
        elif k in ('queue', 'send'):
            L.append('%s\t%s' % (k, enc_content(op[1], op[2])))
        elif k == 'tick':
            L.append('tick\t%d' % op[1])
        elif k == 'queuebad':
            L.append('noop')
        elif k in ('capecho', 'caplabel'):
            L.append('%s\t%d' % (k, 1 if op[1] else 0))
        else:
            L.append(k)
    return L

def visible(ops):
    """which driver lines correspond to an observation line of run_impl"""
    seen_new = False
    vis = []
    for op in ops:
        k = op[0]
        if k == 'new':
            vis += [False, True]; seen_new = True
        elif k in ('cfg', 'filters'):
            vis.append(seen_new)
        else:
            vis.append(True)
    return vis


# ------------------------------------------------------------------------------------------
# generators
# ------------------------------------------------------------------------------------------
HIGH = ['MODE', 'KICK', 'PONG', 'NICK']
NORMAL = ['QUIT', 'TOPIC', 'PART', 'AWAY', 'privmsg', 'TAGMSG']
LOW = ['PRIVMSG', 'NOTICE', 'JOIN', 'JOIN', 'WHO', 'PING']
ARGS = [['#a'], ['#a', 'x'], ['#b', 'hello world'], ['#a', 'x'], ['n'], ['#c', 'é'], []]

def gen_content(r):
    x = r.random()
    cmd = r.choice(HIGH) if x < 0.2 else (r.choice(NORMAL) if x < 0.45 else r.choice(LOW))
    args = list(r.choice(ARGS))
    if cmd in ('PRIVMSG', 'NOTICE', 'privmsg', 'TAGMSG') and len(args) < 1:
        args = ['#a', 'x']
    if r.random() < 0.25:
        # client tags: part of message equality (duplicate refusal)
        return ['', cmd, args, r.choice([{'+a': 'x'}, {'+a': 'y'}, {'+b': None}, {'+a': 'x', '+b': None}, {'label': 'L1'}])]
    return ['', cmd, args]

def gen_dropchain(r):
    """runs of every length in a range of messages an outFilter drops, each followed by one it lets through,
    taken with little stack left"""
    ops = [['cfg', 0, 0, False, False, 120], ['filters', [['drop', 'WHO', 'X']]], ['new', 1000], ['reclimit', r.choice([70, 90, 120])]]
    ops += [['take']] * 5
    serial = 0
    lens = list(range(2, 46)); r.shuffle(lens)
    for n in lens[:r.randint(25, 44)]:
        put = 'send'        # (the regular queue: the virtual clock stands still inside takeMsg, the throttle ends the run)
        for _ in range(n):
            ops.append([put, serial, ['', 'WHO', ['#q%d' % serial]]]); serial += 1
        ops.append([put, serial, ['', 'PRIVMSG', ['#loud', 'good %d' % n]]]); serial += 1
        ops.append(['tick', 1])
        ops += [['take'], ['take']]
    ops.append(['drained'])
    return ops

def gen_rules(r):
    k = r.randint(0, 9)
    if k < 4:
        return []
    rules = []
    for _ in range(r.randint(1, 3)):
        kind = r.choice(['drop', 'drop', 'raise', 'rewrite', 'same', 'resend', 'requeue', 'sendalso'])
        cmd = r.choice(HIGH + NORMAL + LOW)
        rules.append([kind, cmd, r.choice(['PRIVMSG', 'NOTICE', 'JOIN', 'MODE', 'XYZ', cmd])])
    # what a re-entrant rule sends must not be matched by a rule again (a filter that keeps re-sending what it
    # drops is an endless source of messages: its own bug, and the real driver would never stop collecting)
    cmds = set(x[1] for x in rules)
    for x in rules:
        if x[0] in ('resend', 'requeue', 'sendalso') and x[2] in cmds:
            x[2] = 'XYZ'
    return rules

def gen_cfg(r):
    return ['cfg', r.choice([0, 0, 1, 2, 5]), r.choice([0, 0, 3, 10]), r.random() < 0.4, r.random() < 0.8, r.choice([5, 30, 120])]

def gen_ops(r, maxlen=60, reuse=False):
    profile = r.choice(['mixed', 'mixed', 'join', 'quit', 'filter', 'ping'])
    cfg = gen_cfg(r)
    rules = gen_rules(r)
    if profile == 'join':
        cfg[2] = r.choice([2, 3, 5, 10]); cfg[1] = r.choice([0, 1, 2])
    elif profile == 'filter':
        rules = gen_rules(r) or [['drop', r.choice(LOW + NORMAL), 'X']]
    elif profile == 'ping':
        cfg[4] = True; cfg[5] = r.choice([5, 30])
    ops = [cfg, ['filters', rules], ['new', 1000 + r.randint(0, 50)]]
    n = r.randint(3, maxlen)
    serial = 0
    nmsgs = 0
    p_die = {'quit': 0.03, 'mixed': 0.012}.get(profile, 0.004)
    if r.random() < 0.9:
        pos = r.randint(0, 4)
    else:
        pos = None
    for i in range(n):
        if pos is not None and i == pos:
            ops.append(['connected'])
        x = r.random()
        if x < 0.40:
            if reuse and serial > 0 and r.random() < 0.3:
                s = r.randrange(serial)
                ops.append(['queue', s, None])
            else:
                c = gen_content(r)
                if profile == 'join' and r.random() < 0.5:
                    c = ['', 'JOIN', [r.choice(['#a', '#b', '#c', '#d'])]]
                ops.append(['queue', serial, c]); serial += 1
            nmsgs += 1
        elif x < 0.47:
            if r.random() < 0.25:
                # two threads in queueMsg at once (plugins with threaded commands do that)
                c = gen_content(r)
                ops.append(['qrace', serial, c, serial + 1, list(c) if r.random() < 0.6 else gen_content(r)])
                serial += 2; nmsgs += 2
            else:
                ops.append(['send', serial, gen_content(r)]); serial += 1; nmsgs += 1
        elif x < 0.72:
            ops.append(['take'])
        elif x < 0.88:
            if profile == 'ping':
                ops.append(['tick', r.choice([1, 3, 6, 11, 31, 40, 130])])
            elif profile == 'join':
                ops.append(['tick', r.choice([0, 1, 1, 2, 2, 3, 4])])
                ops.append(['take'])
            else:
                ops.append(['tick', r.choice([0, 1, 1, 2, 3, 6, 11, r.randint(20, 200)])])
        elif x < 0.88 + p_die:
            ops.append(['die'])
        elif x < 0.915:
            ops.append(['reset'] if r.random() < 0.4 else ['take'])
        elif x < 0.94:
            ops.append(['pong'] if r.random() < 0.6 else ['queuebad', r.choice(sorted(BAD_ARGS))])
        elif x < 0.955:
            ops.append(['capecho', r.random() < 0.5] if reuse or r.random() < 0.5 else ['caplabel', r.random() < 0.7])
        elif x < 0.98:
            ops.append(gen_cfg(r))
        else:
            ops.append(['filters', gen_rules(r)])
    # fill in contents of reused serials
    contents = {}
    for op in ops:
        if op[0] == 'qrace':
            contents[op[1]] = op[2]; contents[op[3]] = op[4]
        if op[0] in ('queue', 'send'):
            if op[2] is None:
                op[2] = contents[op[1]]
            else:
                contents[op[1]] = op[2]
    # drain phase: with the clock moving past every limit each take makes progress
    if r.random() < 0.7:
        th = max([o[1] for o in ops if o[0] == 'cfg'] + [0])
        jl = max([o[2] for o in ops if o[0] == 'cfg'] + [0])
        if r.random() < 0.3 and not any(o[0] == 'die' for o in ops):
            ops.append(['die'])
        reent = any(x[0] in ('resend', 'requeue', 'sendalso') for o in ops if o[0] == 'filters' for x in o[1])
        for _ in range((nmsgs + 8) * (2 if reent else 1)):      # (each message may be re-sent once)
            ops.append(['tick', max(th, jl) + 1])
            ops.append(['take'])
        ops.append(['drained'])
    return ops


# ------------------------------------------------------------------------------------------
# one case
# ------------------------------------------------------------------------------------------
def drained_check(im, ops):
    """after a drain phase nothing that was accepted may still be waiting (filters cannot stall,
    a held-back JOIN is released, a quitting bot really quits)"""
    left = [m for m in im.pending() if id(m) in im.serial]
    if left:
        im.fail('after the drain phase (clock past every limit before each takeMsg) still queued: %s' % im.sers(left))
    irc = im.irc
    if irc.zombie and irc.afterConnect and not im.died and not im.pending():
        im.fail('quitting bot with empty queues never closed its connection')

def run_case(ops, kind):
    """run on the implementation; returns (Case, model driver lines, visibility mask)"""
    with_driver = any(op[0] == 'drun' for op in ops)
    im = DriverImpl() if with_driver else Impl()
    obs = []
    connect = []
    expanded = []
    try:
        for op in ops:
            if with_driver and im.died:
                im.tags.add('driver-gone')       # the real driver left the loop: nothing calls the Irc any more
                break
            if op[0] == 'drained':
                drained_check(im, ops)
                continue
            if op[0] == 'reclimit':
                im.rec_extra = op[1]       # takeMsg runs with this many frames of stack left
                continue
            if op[0] == 'qrace':
                lines_, seq_ = im.qrace(op)
                obs.extend(lines_)
                expanded.extend(seq_)
                if im.hung:
                    break
                continue
            if op[0] == 'drun':
                lines_ = im.drun()
                obs.extend(lines_)
                expanded.extend([['take']] * len(lines_))
                if im.hung:
                    break
                continue
            expanded.append(op)
            o = im.do(op)
            if im.hung:
                expanded.pop()
                break
            if op[0] == 'new':
                connect = [im.ser(m) for m in im.pending()]
            if o is not None:
                obs.append(o)
        if with_driver:
            im.check_bytes()
    except (Hang, LockHeld):
        # the watchdog fired outside the guarded call sites (e.g. inside a callback of the real driver)
        im.hung = True
        im.fail('a call into the Irc object did not return (it waits for ever for the lock of the queue)')
    finally:
        im.close()
    real_ops = expanded
    nonfinding = [f for f in im.fails if f[2] is None]
    finding = None
    ok = True; msg = ''
    if nonfinding:
        ok = False
        plain_ops = [op for op in ops if op[0] not in ('drained', 'reclimit')]
        msg = 'op #%d %r: %s' % (nonfinding[0][0], plain_ops[nonfinding[0][0]] if nonfinding[0][0] < len(plain_ops) else None, nonfinding[0][1])
    elif im.fails:
        ok = False; finding = im.fails[0][2]
        msg = 'op #%d: %s' % (im.fails[0][0], im.fails[0][1])
    c = Case({'ops': ops}, impl='\n'.join(obs), oracle_ok=ok, oracle_msg=msg, tags=tuple(sorted(im.tags)),
             finding=finding, kind=kind)
    return c, model_lines(real_ops, connect), visible(real_ops)


def explore(seed_stream, n, n_reuse, maxlen, corpus=(), budget=80.0, n_driver=0, n_chain=0):
    r = rng.make(seed_stream)
    cases = []; lines = []; spans = []
    def add(ops, kind):
        c, ml, vis = run_case(ops, kind)
        spans.append((c, len(lines), len(ml), vis))
        lines.extend(ml)
        cases.append(c)
    for ops in corpus:
        add(ops, 'corpus')
    t0 = time.time()
    rc = rng.make(seed_stream + '-dropchain')
    for i in range(n_chain):
        add(gen_dropchain(rc), 'dropchain')
    rd = rng.make(seed_stream + '-driver')
    for i in range(n_driver):
        ops = gen_ops(rd, maxlen)
        for op in ops:
            # over-long lines (ASCII and multi-byte): Irc._truncateMsg must cut them to 512 bytes
            if op[0] in ('queue', 'send') and op[2] is not None and op[2][2] and rd.random() < 0.08:
                op[2][2] = list(op[2][2][:-1]) + [rd.choice(['x' * 600, '\u00e9' * 300, 'ab ' * 200 + '\u20ac' * 40])]
        add([(['drun'] if op[0] == 'take' else op) for op in ops], 'driver')
    for i in range(n + n_reuse):
        add(gen_ops(r, maxlen, reuse=(i % (n // max(1, n_reuse) + 1) == 0)), 'gen')
        if time.time() - t0 > budget or len([c for c in cases[-200:] if c.oracle_ok is False and c.finding is None]) >= 25:
            break
    return cases, lines, spans

def fill_model(cases, lines, spans):
    outs = wire.run_driver(PROPERTY, lines)
    for c, start, ln, vis in spans:
        o = outs[start:start + ln]
        keep = []
        notes = set()
        for line, v in zip(o, vis):
            if line == 'bad-op':
                keep.append('bad-op'); continue
            if not v:
                continue
            f = line.split('\t')
            note = f[-1]
            for ch in note.replace('-', ''):
                notes.add({'t': 'm-throttled', 'j': 'm-join-rotated', 'l': 'm-lost'}.get(ch, ch))
            keep.append('\t'.join(f[:-1]))
        c.model = '\n'.join(keep)
        c.tags = tuple(sorted(set(c.tags) | notes))
    return cases

def first_diff(c):
    a = (c.impl or '').split('\n'); b = (c.model or '').split('\n')
    for i, (x, y) in enumerate(zip(a, b)):
        if x != y:
            return i, x, y
    return min(len(a), len(b)), None, None

def load_corpus():
    d = os.path.join(os.path.dirname(os.path.dirname(os.path.abspath(__file__))), 'corpus', 'C19')
    out = []
    try:
        for f in sorted(os.listdir(d)):
            if f.endswith('.json'):
                out.append(json.load(open(os.path.join(d, f)))['ops'])
    except OSError:
        pass
    return out

def shrink(ops, still_fails, budget=400):
    """greedy delta debugging on the op list (keeps the three header ops)"""
    head, body = ops[:3], ops[3:]
    n = 0
    chunk = max(1, len(body) // 2)
    while chunk >= 1 and n < budget:
        i = 0
        changed = False
        while i < len(body) and n < budget:
            cand = body[:i] + body[i + chunk:]
            n += 1
            try:
                bad = still_fails(head + cand)
            except Exception:
                bad = False
            if bad:
                body = cand; changed = True
            else:
                i += chunk
        if not changed or chunk == 1:
            chunk //= 2
    return head + body

def unlisted_failure(ops):
    try:
        c, _, _ = run_case(ops, 'shrink')
    except KeyError:
        return False
    return c.oracle_ok is False and c.finding is None

def reuse_witness_status():
    for f in verdict.load_findings(PROPERTY):
        if f['id'] == FINDING_REUSED:
            c, _, _ = run_case(f['witness']['ops'], 'witness')
            return {FINDING_REUSED: (c.oracle_ok is False and c.finding == FINDING_REUSED, c.oracle_msg and f.get('what_fails'))}, c
    return {}, None

def run(ctx):
    build = leanbuild.ensure(PROPERTY, THEOREMS, thorough=ctx.thorough, extractors=['IrcQueue'])
    if ctx.thorough:
        n, n_reuse, maxlen = 45000, 2500, 90
    else:
        n, n_reuse, maxlen = 4400, 260, 60
    cases, lines, spans = explore('c19', n, n_reuse, maxlen, load_corpus(), budget=(600.0 if ctx.thorough else 50.0),
                                  n_driver=(6000 if ctx.thorough else 500), n_chain=(25 if ctx.thorough else 2))
    status, wcase = reuse_witness_status()
    if build.driver_ok:
        fill_model(cases, lines, spans)
    # shrink an unlisted oracle failure before it becomes the replay
    for c in cases:
        if c.oracle_ok is False and c.finding is None:
            small = shrink(c.input['ops'], unlisted_failure)
            c2, _, _ = run_case(small, c.kind + '-shrunk')
            if c2.oracle_ok is False and c2.finding is None:
                c.input = {'ops': small, 'unshrunk_ops': c.input['ops']}
                c.oracle_msg = c2.oracle_msg
                c.impl = c2.impl; c.model = None
            break
    def search(disagreements, broken):
        os.environ['VERIF_SEED'] = str(ctx.seed + 7919)
        try:
            more, _, _ = explore('c19-search', 6000, 300, 80, [d.input['ops'] for d in disagreements[:50]])
        finally:
            os.environ['VERIF_SEED'] = str(ctx.seed)
        bad = [c for c in more if c.oracle_ok is False and c.finding is None]
        if bad:
            c = bad[0]
            small = shrink(c.input['ops'], unlisted_failure)
            c2, _, _ = run_case(small, 'search-shrunk')
            if c2.oracle_ok is False and c2.finding is None:
                c2.input['unshrunk_ops'] = c.input['ops']
                return [c2] + bad
        return bad
    extra = {}
    dis = [c for c in cases if c.disagrees()]
    if dis:
        i, x, y = first_diff(dis[0])
        extra['first_disagreement_line'] = {'index': i, 'impl': x, 'model': y}
    return verdict.conclude(PROPERTY, ctx.tier, ctx.seed, build, cases, search=search, finding_status=status,
                            rule=RULE, trusted_base=TRUSTED, assumptions=ASSUMPTIONS, extra=extra, t0=ctx.t0)

def replay(ctx, path):
    d = json.load(open(path))
    c = d.get('case') or d.get('first_disagreement')
    if not c:
        print(json.dumps(d, indent=1)[:3000]); return 0
    ops = c['input']['ops']
    case, ml, vis = run_case(ops, 'replay')
    print('ops:')
    for i, op in enumerate([o for o in ops if o[0] != 'drained']):
        print('  #%d %s' % (i, json.dumps(op)))
    print('recorded oracle message:', c.get('oracle_msg'))
    print('implementation now: oracle_ok=%s %s' % (case.oracle_ok, case.oracle_msg))
    print('observations now:')
    for l in (case.impl or '').split('\n'):
        print('  ' + l)
    return 0 if case.oracle_ok else 1
