"""C10 — the bot's view of channels and users equals what the server told it.

Three things are compared on every generated history:
  * the Lean reference server `Srv` (lean/LimnoriaModel/C10/Srv.lean) against an independent Python
    reference server written in this file (`PySrv`): same actions -> same emitted IRC messages and the
    same projected view  (spec vs spec);
  * the Lean bot model (`C10.Bot`) against the real `irclib.Irc` / `IrcState`: the messages are fed
    to a live Irc object and the canonical state dump is compared after EVERY message (model vs code);
  * the property statement itself on the implementation: after every server action the real
    `irc.state` / `irc.nick` must equal the Python reference server's view (the oracle; never goes
    through the Lean model).
A fourth stream feeds hostile / malformed messages of the modelled commands to both the real Irc
and the bot model (exception level and state dump compared)."""
import json, os, sys, time
from vlib import wire, rng, leanbuild, verdict, bot
from vlib.verdict import Case

PROPERTY = 'C10'
MANIFEST = {
 'level_text': 'Lean 4 simulation proof, kernel-checked. A reference IRC server Srv (users, channels, members with op/halfop/voice flags, topic, modes, ban lists, hostmasks; multi-prefix, userhost-in-names, extended-join, chghost, WHOX, batch, RPL_ISUPPORT; rfc1459 case rules) and a model of irclib.IrcState / ChannelState / Irc.feedMsg (nick, prefix, nick setters, RPL_ISUPPORT, the WHO / MODE / MODE +b queries Irc.doJoin sends, IRCv3 batches) are coupled by an invariant proved to hold after EVERY finite run from "just registered" (theorems view_refines_partial and, with batches, view_refines_batched_partial; induction with one simulation lemma per action: JOIN incl. the bot\'s own with topic+NAMES, PART, KICK, QUIT, NICK incl. case-only and the bot\'s own, MODE, TOPIC, PRIVMSG, NAMES, CHGHOST announced or silent, ISUPPORT, reconnect, the replies to the bot\'s queries served in order or sent unsolicited/late, BATCH open/close; multi-target JOIN/PART/KICK). The coupling: own nick and prefix; set of joined channels; per channel users, ops, topic exactly; halfops/voices exactly with multi-prefix and never wrong without it; modes a sub-map and bans a subset of the server\'s until the 324 / ban-list reply arrives, exact afterwards; the hostmask of every user whose current hostmask the server has shown to the bot. No assumption on negotiated capabilities. Corollaries: own PART / KICK / reconnect remove the channel; the bot sends exactly MODE, MODE +b, WHO on its own JOIN. Mode-argument tables, rfc1459 table, nick setters, sigil / mode-letter literals and isChannel defaults are re-extracted from /repo on every run and the proofs rest on table lemmas. The bot model is tied to the real irclib by a differential run comparing the full state dump (and what the bot sends) after every single message, and the property statement is evaluated on the real Irc against an independent Python reference server (itself compared with the Lean Srv message by message).',
 'level_note': 'Trusted: Lean kernel; axioms propext/Classical.choice/Quot.sound only; harness/extractors/chanstate.py; harness/c10.py (generators, canonical dumps, the Python reference server used as oracle). Hypothesis of the theorems: valid configuration (CHANTYPES contains # and &, CHANNELLEN >= 50) and no mode argument that int() rewrites (known finding C10-mode-arg-int, counter-example proved in Lean). Also proved (queries_cover, view_exact_when_quiescent, hostmasks_exact_when_quiescent): every channel of the bot has had modes and bans sent or the bot\'s query is still queued, with chghost every visible user has been shown or a WHO is queued, so when the queue is empty (and multi-prefix) the bot\'s record equals the server\'s; the same is checked on every generated history for the independent Python server. Modelled and proved: IrcState.addMsg (hostmask bookkeeping, batch tag assertion, dispatch) and doJoin/doPart/doKick/doQuit/doNick/doMode/doTopic/do353/do352/do354/do324/do329/do332/do367/doChghost/do005/doBatch, ChannelState.addUser/replaceUser/removeUser/doMode, separateModes, isUserHostmask/splitHostmask, isChannel with CHANTYPES/CHANNELLEN from 005, Irc.feedMsg nick/prefix/nick-setter logic, Irc.doNick, Irc.doChghost, Irc.doJoin (queued queries, in takeMsg order), Irc.reset, the login-following branch of Irc.doNick (supybot.followIdentificationThroughNickChanges with a user database: FBot / followNick; follow_switch_transparent: whatever the switch and the database, no NICK of the server is lost and the view is that of the bot without the switch; identifications compared model vs code as A=). Hard-coded in the code and therefore assumed of the server: rfc1459 casemapping, PREFIX (ohv)@%+, CHANMODES classes b,e,q,I / k / l / flags (proved counter-examples: casemapping_hardcoded, prefix_hardcoded, param_mode_mispaired; known finding C10-param-modes-not-from-isupport). Implementation + oracle only (the Lean Srv keeps # & / 50 and one JOIN per channel): stream ext - a server whose 005 announces other CHANTYPES / a larger CHANNELLEN and uses such names, and which announces a multi-target JOIN of the bot in one message; the bot model is compared with the code on such traffic in the raw stream rawseq. Not modelled: hostmask patterns of registered users, identification timeout, other ISUPPORT tokens, the one-hour expiry of state.batches, int() on non-ASCII digits, plugins / callbacks, irc.server, the bot\'s own host change without chghost.',
 'technique': 'Lean 4 proof (simulation with a coupling invariant, induction over runs) + table extraction + differential correspondence',
 'design_ref': 'DESIGN.md §6 C10',
}
THEOREMS = ['C10.view_refines_partial', 'C10.view_refines_batched_partial', 'C10.step_plain', 'C10.view_step', 'C10.wf_step', 'C10.coupled_step',
            'C10.view_channels', 'C10.view_channel', 'C10.view_channel_full', 'C10.view_channel_gone', 'C10.bot_queries_on_join',
            'C10.queries_cover', 'C10.view_exact_when_quiescent', 'C10.hostmasks_exact_when_quiescent', 'C10.complete_step', 'C10.run_complete',
            'C10.follow_switch_transparent', 'C10.follow_never_loses_nick', 'C10.runF_eq_runB', 'C10.step_nf',
            'C10.own_part_removes', 'C10.own_kick_removes', 'C10.reconnect_clears',
            'C10.view_refines_fails_intarg', 'C10.separateModes_ignores_isupport', 'C10.param_mode_mispaired',
            'C10.recv_isupportEv', 'C10.casemapping_hardcoded', 'C10.prefix_hardcoded',
            'C10.separateModes_render',
            'C10.rfc1459_table_ok', 'C10.sigils_not_in_nicks', 'C10.sigil_table_ok', 'C10.mode_tables_ok',
            'C10.tracked_table_ok', 'C10.chan_table_ok', 'C10.setters_in_ok', 'C10.setters_out_ok']
TRUSTED = ['Lean 4.33.0 kernel; axioms ⊆ {propext, Classical.choice, Quot.sound}',
           'harness/extractors/chanstate.py (mode-argument tables, rfc1459 table, nick setters, sigil / mode-letter literals → Gen/ChanState.lean)',
           'harness/c10.py: generators, canonical state dumps, hex line protocol, the Python reference server PySrv (oracle)',
           'the reference server Srv is the specification of "conformant server": rfc1459 casemapping, CHANMODES classes b,e,q,I / k / l / flags, PREFIX (ohv)@%+']
RULE = ('seeded histories of reference-server actions over 3-9 users and 2-6 channels with case-variant names '
        '(valid stream: mostly enabled actions incl. multi-target JOIN/PART/KICK, sigil stacks, mode strings mixing +/- with and '
        'without parameters, case-only and own nick changes, CHGHOST announced or silent, PRIVMSG, ISUPPORT, batches, reconnect, the '
        'bot\'s queries served in order or replies sent unsolicited / late; near-miss: unknown/invalid subjects the server must ignore; '
        'nomp: without multi-prefix; findings: the two known-finding classes; hostile: raw messages of the modelled commands incl. 005 and '
        'BATCH with wrong arity / odd arguments / stray batch tags fed to bot and bot model; rawseq: directed raw traffic - 005 with usual or unusual CHANTYPES/CHANNELLEN, '
        'the bot\'s own JOIN of 2-3 new channels in one message, then per-channel NAMES/MODE/TOPIC/bans/JOIN/PART/KICK/NICK that make the channels differ; '
        'ext: reference server with announced CHANTYPES/CHANNELLEN names and single-message multi-target JOIN of the bot, oracle only). '
        'Names include non-ASCII pairs differing only in non-ASCII case (distinct under rfc1459). 40% of the configurations have '
        'followIdentificationThroughNickChanges on with 0-3 users identified from hostmasks occurring in the history. '
        'A case is one history; it is non-trivial when at least one message reached the bot; distinct = distinct action list.')

# ------------------------------------------------------------------------------------------
# names and validity (the Python reference server's own definitions)
# ------------------------------------------------------------------------------------------
_LOW = str.maketrans('ABCDEFGHIJKLMNOPQRSTUVWXYZ\\[]~', 'abcdefghijklmnopqrstuvwxyz|{}^')
def low(s):
    return s.translate(_LOW)

_BAD_NICK = set('!@,:#&%+~*?.\x07\x00')
def valid_nick(n):
    return bool(n) and all((not c.isspace()) and c not in _BAD_NICK for c in n)
def valid_word(w):
    return bool(w) and all((not c.isspace()) and c not in '!@\x00' for c in w) and w[0] != ':'
def valid_chan(c):
    return c[:1] in ('#', '&') and all((not x.isspace()) and x not in ',:\x07\x00' for x in c) and len(c) <= 50
def valid_text(t):
    return all(c not in '\r\n\x00' for c in t)
def valid_param(w):
    return bool(w) and all((not c.isspace()) and c != '\x00' for c in w) and w[0] != ':'

PREFIX_MODES = 'ohv'; LIST_MODES = 'beqI'; KEY_MODES = 'k'; LIMIT_MODES = 'l'
def is_flag_mode(c):
    return c not in PREFIX_MODES + LIST_MODES + KEY_MODES + LIMIT_MODES and c.isascii() and c.isalpha()

# ------------------------------------------------------------------------------------------
# Python reference server (users keyed by an immutable id; independent of the Lean text)
# ------------------------------------------------------------------------------------------
class _U(object):
    __slots__ = ('nick', 'ident', 'host')
    def __init__(self, n, i, h): self.nick = n; self.ident = i; self.host = h
    def mask(self): return '%s!%s@%s' % (self.nick, self.ident, self.host)

class _Ch(object):
    __slots__ = ('name', 'members', 'topic', 'modes', 'bans', 'created')
    def __init__(self, name):
        self.name = name; self.members = {}; self.topic = ''; self.modes = {}; self.bans = []; self.created = '0'

class PySrv(object):
    def __init__(self, cfg):
        self.cfg = cfg
        self.users = {}
        self.chans = {}
        self.next = 1
        self.bot = 0
        self.users[0] = _U(cfg['botNick'], cfg['botIdent'], cfg['botHost'])
        self.told = set()           # users whose current hostmask the server has shown to the bot
        self.modes_synced = set()   # channels (lowered) whose 324 / ban list reached the bot since it joined
        self.bans_synced = set()
        self.pending = []           # the bot's unanswered queries, oldest first: ('w'|'m'|'b', channel)
        self.open_batch = None      # reference of the batch the server is currently sending

    # -- lookups
    def uid(self, nick):
        k = low(nick)
        for i, u in self.users.items():
            if low(u.nick) == k:
                return i
        return None
    def chan(self, name): return self.chans.get(low(name))
    def botnick(self): return self.users[self.bot].nick
    def source(self, src):
        if src == '': return self.cfg['server']
        i = self.uid(src)
        return None if i is None else self.users[i].mask()
    def visible(self, i):
        return any(self.bot in c.members and i in c.members for c in self.chans.values())
    def bot_in(self, c): return self.bot in c.members
    def put(self, key, c):
        if not c.members: self.chans.pop(key, None)
        else: self.chans[key] = c
    def drop_everywhere(self, i):
        for k in list(self.chans):
            c = self.chans[k]
            c.members.pop(i, None)
            if not c.members: del self.chans[k]

    # -- replies
    def sigils(self, f):
        s = ('@' if f[0] else '') + ('%' if f[1] else '') + ('+' if f[2] else '')
        return s if self.cfg['multiPrefix'] else s[:1]
    def names_reply(self, c):
        S = self.cfg['server']; me = self.botnick()
        ty = '@' if 's' in c.modes else ('*' if 'p' in c.modes else '=')
        items = [self.sigils(f) + (self.users[i].mask() if self.cfg['uhnames'] else self.users[i].nick) for i, f in c.members.items()]
        n = max(1, self.cfg['namesPerLine'])
        out = [('M', S, '353', [me, ty, c.name, ' '.join(items[j:j + n])]) for j in range(0, len(items), n)]
        return out + [('M', S, '366', [me, c.name, 'End of /NAMES list.'])]
    def who_reply(self, c):
        S = self.cfg['server']; me = self.botnick(); out = []
        for i, f in c.members.items():
            u = self.users[i]; st = 'H' + self.sigils(f)
            if self.cfg['whox']:
                out.append(('M', S, '354', [me, '1', u.ident, '255.255.255.255', u.host, u.nick, st, '0', 'real name']))
            else:
                out.append(('M', S, '352', [me, c.name, u.ident, u.host, S, u.nick, st, '0 real name']))
        return out + [('M', S, '315', [me, c.name, 'End of /WHO list.'])]
    def join_burst(self, c):
        """what a joining client gets without asking: topic (if any) and NAMES"""
        S = self.cfg['server']; me = self.botnick(); out = []
        if c.topic:
            out += [('M', S, '332', [me, c.name, c.topic]), ('M', S, '333', [me, c.name, S, '0'])]
        return out + self.names_reply(c)
    def mode_is(self, c):
        S = self.cfg['server']; me = self.botnick()
        return [('M', S, '324', [me, c.name, '+' + ''.join(c.modes)] + [v for v in c.modes.values() if v is not None]),
                ('M', S, '329', [me, c.name, c.created])]
    def ban_list(self, c):
        S = self.cfg['server']; me = self.botnick()
        return [('M', S, '367', [me, c.name, m, S, '0']) for m in c.bans] + [('M', S, '368', [me, c.name, 'End of channel ban list'])]
    # -- replies to the bot's queries (also usable unsolicited / late)
    def reply_who(self, name):
        sc = self.chan(name)
        if sc is None: return []
        self.told |= set(sc.members)
        return self.who_reply(sc)
    def reply_mode(self, name):
        sc = self.chan(name)
        if sc is None: return []
        if self.bot_in(sc): self.modes_synced.add(low(name))
        return self.mode_is(sc)
    def reply_bans(self, name):
        sc = self.chan(name)
        if sc is None: return []
        if self.bot_in(sc): self.bans_synced.add(low(name))
        return self.ban_list(sc)
    def enqueue(self, sent):
        """the server reads what the bot sent: (command, args) pairs"""
        for cmd, args in sent:
            # ext mode: the bot asks for several channels at once after a multi-target JOIN; this server answers each
            targets = args[0].split(',') if (args and self.cfg.get('ext')) else args[:1]
            for t in targets:
                if cmd == 'WHO' and len(args) >= 1: self.pending.append(('w', t))
                elif cmd == 'MODE' and len(args) == 1: self.pending.append(('m', t))
                elif cmd == 'MODE' and len(args) == 2 and args[1] == '+b': self.pending.append(('b', t))
    def isupport(self):
        return ('M', self.cfg['server'], '005', [self.botnick(), 'CHANTYPES=' + self.cfg.get('chantypes', '#&'),
                'CHANNELLEN=%d' % self.cfg.get('channellen', 50), 'PREFIX=(ohv)@%+', 'CHANMODES=beIq,k,l,imnpstrCR',
                'CASEMAPPING=rfc1459', 'NICKLEN=30', 'are supported by this server'])
    def join_args(self, names):
        return [names, '*', 'real name'] if self.cfg['extJoin'] else [names]

    def valid_chan(self, c):
        """ext mode: what is a channel is what 005 announced (CHANTYPES, CHANNELLEN); otherwise the fixed # & / 50 of the Lean Srv"""
        if not self.cfg.get('ext'): return valid_chan(c)
        return c[:1] != '' and c[:1] in self.cfg['chantypes'] and all((not x.isspace()) and x not in ',:\x07\x00' for x in c) \
            and len(c) <= self.cfg['channellen']
    def enter(self, i, name):
        if not self.valid_chan(name): return None
        c = self.chan(name)
        if c is None:
            c = _Ch(name); c.members[i] = [True, False, False]; self.chans[low(name)] = c
            return name
        if i in c.members: return None
        c.members[i] = [False, False, False]
        return c.name

    def apply_mode(self, c, ch):
        add, m, arg = ch
        if m in PREFIX_MODES:
            if arg is None or not valid_nick(arg): return False
            i = self.uid(arg)
            if i is None or i not in c.members: return False
            c.members[i]['ohv'.index(m)] = add
            return True
        if m in LIST_MODES:
            if arg is None or not valid_param(arg): return False
            if m == 'b':
                present = low(arg) in [low(x) for x in c.bans]
                if add:
                    if present: return False
                    c.bans.append(arg)
                else:
                    if not present: return False
                    c.bans = [x for x in c.bans if low(x) != low(arg)]
            return True
        if m in KEY_MODES:
            if arg is None or not valid_param(arg): return False
            if add: c.modes[m] = arg
            elif m in c.modes: del c.modes[m]
            else: return False
            return True
        if m in LIMIT_MODES or m in self.cfg.get('extraParamModes', ''):
            if add:
                if arg is None or not valid_param(arg): return False
                c.modes[m] = arg
            else:
                if arg is not None or m not in c.modes: return False
                del c.modes[m]
            return True
        if is_flag_mode(m) and m not in self.cfg.get('extraParamModes', ''):
            if arg is not None: return False
            if add: c.modes[m] = None
            elif m in c.modes: del c.modes[m]
            else: return False
            return True
        return False

    # -- transitions: returns the list of events for the bot
    def step(self, a):
        """one action; while a batch is open every message is tagged with its reference: ('T', ref, pfx, cmd, args)"""
        k = a[0]; S = self.cfg['server']
        if k == 'batchopen':
            _, ref, ty, args = a
            if self.cfg.get('batch', True) and self.open_batch is None and valid_param(ref) and valid_param(ty) and all(valid_param(x) for x in args):
                self.open_batch = ref
                return [('M', S, 'BATCH', ['+' + ref, ty] + list(args))]
            return []
        if k == 'batchclose':
            if self.open_batch is None: return []
            ref = self.open_batch; self.open_batch = None
            return [('M', S, 'BATCH', ['-' + ref])]
        ob = self.open_batch
        evs = self.step_plain(a)
        if k == 'reconnect':            # a new connection ends whatever batch was being sent; its welcome is not part of it
            if evs: self.open_batch = None
            return evs
        return [(('T', ob) + tuple(e[1:]) if (ob is not None and e[0] == 'M') else e) for e in evs]

    def step_plain(self, a):
        k = a[0]; S = self.cfg['server']
        if k == 'connect':
            _, n, i, h = a
            if valid_nick(n) and valid_word(i) and valid_word(h) and self.uid(n) is None:
                self.users[self.next] = _U(n, i, h); self.next += 1
            return []
        if k == 'join':
            _, n, cs = a
            i = self.uid(n)
            if i is None: return []
            u = self.users[i]
            if i == self.bot:
                out = []; names = []; bursts = []
                for c in cs:
                    name = self.enter(i, c)
                    if name is None: continue
                    sc = self.chan(c)
                    self.modes_synced.discard(low(c)); self.bans_synced.discard(low(c))
                    self.told.add(i)
                    if self.cfg['uhnames']: self.told |= set(sc.members)
                    if self.cfg.get('ext'):
                        names.append(name); bursts.append(sc)
                    else:
                        out.append(('M', u.mask(), 'JOIN', self.join_args(name)))
                        out += self.join_burst(sc)
                if names:
                    # ext mode: ONE JOIN naming every channel entered, then topic + NAMES of each
                    out.append(('M', u.mask(), 'JOIN', self.join_args(','.join(names))))
                    for sc in bursts:
                        if self.bot_in(sc): out += self.join_burst(sc)
                return out
            vis = []
            for c in cs:
                sc = self.chan(c)
                seen = sc is not None and self.bot_in(sc)
                name = self.enter(i, c)
                if name is not None and seen: vis.append(name)
            if not vis: return []
            self.told.add(i)
            return [('M', u.mask(), 'JOIN', self.join_args(','.join(vis)))]
        if k == 'part':
            _, n, cs, reason = a
            i = self.uid(n)
            if i is None or (reason is not None and not valid_text(reason)): return []
            u = self.users[i]; names = []
            for c in cs:
                sc = self.chan(c)
                if sc is None or i not in sc.members: continue
                seen = self.bot_in(sc)
                del sc.members[i]; self.put(low(c), sc)
                if seen: names.append(sc.name)
            return [('M', u.mask(), 'PART', [','.join(names)] + ([reason] if reason is not None else []))] if names else []
        if k == 'kick':
            _, src, c, targets, reason = a
            pfx = self.source(src); sc = self.chan(c)
            if pfx is None or sc is None or not valid_text(reason) or not all(valid_nick(t) for t in targets): return []
            seen = self.bot_in(sc); kicked = []
            for t in targets:
                i = self.uid(t)
                if i is not None and i in sc.members:
                    del sc.members[i]; kicked.append(t)
            if not kicked: return []
            self.put(low(c), sc)
            return [('M', pfx, 'KICK', [sc.name, ','.join(kicked), reason])] if seen else []
        if k == 'quit':
            _, n, reason = a
            i = self.uid(n)
            if i is None or i == self.bot or not valid_text(reason): return []
            u = self.users[i]; vis = self.visible(i)
            self.drop_everywhere(i); del self.users[i]; self.told.discard(i)
            return [('M', u.mask(), 'QUIT', [reason])] if vis else []
        if k == 'nick':
            _, n, n2 = a
            i = self.uid(n)
            if i is None: return []
            u = self.users[i]
            if not valid_nick(n2) or n2 == u.nick: return []
            j = self.uid(n2)
            if j is not None and j != i: return []
            mask = u.mask(); u.nick = n2
            if i == self.bot or self.visible(i):
                self.told.add(i)
                return [('M', mask, 'NICK', [n2])]
            self.told.discard(i)
            return []
        if k == 'mode':
            _, src, c, changes = a
            pfx = self.source(src); sc = self.chan(c)
            if pfx is None or sc is None: return []
            seen = self.bot_in(sc)
            done = [ch for ch in changes if self.apply_mode(sc, ch)]
            if not done: return []
            ms = ''; last = None
            for add, m, arg in done:
                if last != add: ms += '+' if add else '-'
                ms += m; last = add
            return [('M', pfx, 'MODE', [sc.name, ms] + [arg for _, _, arg in done if arg is not None])] if seen else []
        if k == 'topic':
            _, src, c, text = a
            pfx = self.source(src); sc = self.chan(c)
            if pfx is None or sc is None or not valid_text(text): return []
            sc.topic = text
            return [('M', pfx, 'TOPIC', [sc.name, text])] if self.bot_in(sc) else []
        if k == 'chghost':
            _, n, i2, h2 = a
            i = self.uid(n)
            if i is None or not valid_word(i2) or not valid_word(h2): return []
            u = self.users[i]; mask = u.mask()
            if self.cfg['chghost'] and (i == self.bot or self.visible(i)):
                u.ident = i2; u.host = h2; self.told.add(i)
                return [('M', mask, 'CHGHOST', [i2, h2])]
            if i == self.bot: return []       # without the capability the bot's own host change is not modelled
            u.ident = i2; u.host = h2; self.told.discard(i)      # nobody tells the bot
            return []
        if k == 'say':
            _, n, target, text = a
            i = self.uid(n)
            if i is None or not valid_text(text) or text == '': return []
            sc = self.chan(target)
            if low(target) == low(self.botnick()): to = self.botnick()
            elif sc is not None and self.bot_in(sc): to = sc.name
            else: return []
            self.told.add(i)            # whoever the sender is, his prefix shows his hostmask
            return [('M', self.users[i].mask(), 'PRIVMSG', [to, text])]
        if k == 'isupport':
            return [self.isupport()]
        if k == 'names':
            sc = self.chan(a[1])
            if sc is None or not self.bot_in(sc): return []
            if self.cfg['uhnames']: self.told |= set(sc.members)
            return self.names_reply(sc)
        if k == 'who': return self.reply_who(a[1])          # unsolicited / late
        if k == 'modeis': return self.reply_mode(a[1])
        if k == 'banlist': return self.reply_bans(a[1])
        if k == 'serve':
            if not self.pending: return []
            kind, name = self.pending.pop(0)
            return {'w': self.reply_who, 'm': self.reply_mode, 'b': self.reply_bans}[kind](name)
        if k == 'reconnect':
            n0 = self.cfg['botNick']
            j = self.uid(n0)
            if j is not None and j != self.bot: return []
            self.drop_everywhere(self.bot)
            self.users[self.bot].nick = n0
            self.told = set(); self.modes_synced = set(); self.bans_synced = set(); self.pending = []
            return [('R',), ('M', S, '001', [n0, 'Welcome']), self.isupport()]
        raise ValueError(a)

    # -- the view the bot has to have (structured) and its canonical text (format of C10.dumpSrv)
    def view(self):
        chans = {}
        for k, c in self.chans.items():
            if self.bot not in c.members: continue
            nk = lambda i: low(self.users[i].nick)
            chans[k] = {'u': sorted(nk(i) for i in c.members), 'o': sorted(nk(i) for i, f in c.members.items() if f[0]),
                        'h': sorted(nk(i) for i, f in c.members.items() if f[1]), 'v': sorted(nk(i) for i, f in c.members.items() if f[2]),
                        'b': sorted(set(low(m) for m in c.bans)), 't': c.topic, 'm': dict(c.modes)}
        hosts = {low(u.nick): u.mask() for i, u in self.users.items() if self.visible(i)}
        return {'nick': self.botnick(), 'chans': chans, 'hosts': hosts,
                'told': {low(self.users[i].nick): self.users[i].mask() for i in self.told},
                'modes_synced': set(self.modes_synced), 'bans_synced': set(self.bans_synced), 'pending': list(self.pending),
                'open_batch': self.open_batch,
                'prefix': self.users[self.bot].mask() if any(self.bot in c.members for c in self.chans.values()) else None}
    def spec_gaps(self):
        """completeness of the specification itself: once every query of the bot is answered, every channel of the
        bot is synced and (with chghost negotiated) every visible user's hostmask has been shown to the bot"""
        out = []
        pend = set((k, low(c)) for k, c in self.pending)
        for k, c in self.chans.items():
            if self.bot not in c.members: continue
            if k not in self.modes_synced and ('m', k) not in pend: out.append('modes of %s were never sent and no MODE query of the bot is pending' % k)
            if k not in self.bans_synced and ('b', k) not in pend: out.append('bans of %s were never sent and no MODE +b query of the bot is pending' % k)
        if self.cfg['chghost']:
            for i, u in self.users.items():
                if i in self.told or not self.visible(i): continue
                shared = [k for k, c in self.chans.items() if self.bot in c.members and i in c.members]
                if not all(('w', k) in pend for k in shared):
                    out.append('hostmask of visible %s was never shown to the bot and no WHO query of the bot is pending for a shared channel' % u.nick)
        return out

def enc_set(xs):
    return ','.join(sorted(wire.enc(x) for x in xs))

def view_text(v):
    cs = []
    for k, c in v['chans'].items():
        cs.append(wire.enc(k) + '(u=' + enc_set(c['u']) + ';o=' + enc_set(c['o']) + ';h=' + enc_set(c['h']) + ';v=' + enc_set(c['v']) +
                  ';b=' + enc_set(c['b']) + ';t=' + wire.enc(c['t']) + ';m=' +
                  ','.join(sorted(wire.enc(m) + ':' + wire.enc_opt(x) for m, x in c['m'].items())) + ')')
    return ('N=' + wire.enc(v['nick']) + ' C=' + ' '.join(sorted(cs)) + ' H=' +
            ','.join(sorted(wire.enc(k) + '=' + wire.enc(m) for k, m in v['hosts'].items())) +
            ' T=' + enc_set(v['told']) + ' MS=' + enc_set(v['modes_synced']) + ' BS=' + enc_set(v['bans_synced']) +
            ' Q=' + ','.join(k + wire.enc(c) for k, c in v['pending']) + ' OB=' + wire.enc_opt(v['open_batch']))

def enc_msgs(ms):
    return '-' if not ms else ';'.join(wire.enc(c) + ':' + wire.enc_list(a) for c, a in ms)

# ------------------------------------------------------------------------------------------
# the real bot
# ------------------------------------------------------------------------------------------
class Real(object):
    def __init__(self):
        self.b = bot.full(plugins=())
        self.irc = self.b.irc
        self.b.conf.supybot.followIdentificationThroughNickChanges.setValue(False)
        import supybot.ircdb as ircdb
        self.ircdb = ircdb
        self.wire = []
        self.logged = []
        self.b.log.exception = lambda *a, **k: self.logged.append(a)
        self.b.log.error = lambda *a, **k: None
    def reset(self):
        self.irc.reset()
        self.irc.queue.reset(); self.irc.fastqueue.reset()
    def configure(self, cfg):
        """supybot.followIdentificationThroughNickChanges and the user database (who is identified from where)"""
        import time
        self.b.conf.supybot.followIdentificationThroughNickChanges.setValue(bool(cfg.get('follow', False)))
        db = self.ircdb.users
        db.noFlush = True
        db.users.clear(); db._nameCache.clear(); db._hostmaskCache.clear(); db.nextId = 0
        for name, mask in cfg.get('identified', []):
            u = db.newUser(); u.name = name
            u.auth.append((time.time(), mask))
            db.setUser(u)
    def make(self, pfx, cmd, args, raw=False, tag=None):
        """the IrcMsg the bot gets.  raw: built from its parts.  Otherwise the server's message is written as a line and
        parsed by the code under test, as a driver does; whatever the parser makes of it is what the bot gets, and a parse
        that does not give back prefix / command / arguments / tag is recorded in self.wire (an implementation failure,
        judged by the caller).  Returns None when no message could be built at all."""
        M = self.b.ircmsgs.IrcMsg
        tags = {} if tag is None else {'batch': tag}
        try:
            m = M(prefix=pfx, command=cmd, args=tuple(args), server_tags=tags)
        except Exception as e:
            self.wire.append('IrcMsg(prefix=%r, command=%r, args=%r) raised %s: %s' % (pfx, cmd, list(args), type(e).__name__, e))
            return None
        if raw:
            return m
        try:
            line = str(m)
            m2 = M(line)        # what the driver would parse from the wire
        except Exception as e:
            self.wire.append('the line of %r could not be written / parsed: %s: %s' % ((pfx, cmd, list(args)), type(e).__name__, e))
            return None
        if dict(m2.server_tags) != tags:
            self.wire.append('line %r: tags parsed as %r, sent %r' % (line, dict(m2.server_tags), tags))
        if (m2.prefix, m2.command, tuple(m2.args)) != (pfx, cmd, tuple(args)):
            self.wire.append('line %r parsed as prefix=%r command=%r args=%r, the server sent prefix=%r command=%r args=%r' %
                             (line, m2.prefix, m2.command, list(m2.args), pfx, cmd, list(args)))
        return m2
    def feed(self, ev, raw=False):
        """returns (exception level observed: ok / irc-exc / state-exc / escaped:<type>, what the bot handed to the driver);
        parser trouble is left in self.wire"""
        if ev[0] == 'R':
            self.reset(); return 'ok', []
        del self.logged[:]
        escaped = None
        m = self.make(ev[2], ev[3], ev[4], raw=raw, tag=ev[1]) if ev[0] == 'T' else self.make(ev[1], ev[2], ev[3], raw=raw)
        if m is not None:
            try:
                self.irc.feedMsg(m)
            except Exception as e:      # feedMsg is firewalled: nothing may come out of it
                escaped = 'escaped:' + type(e).__name__
                self.wire.append('feedMsg let %s escape: %s' % (type(e).__name__, e))
        sent = []
        for _ in range(50):
            o = self.irc.takeMsg()
            if o is None: break
            sent.append((o.command, list(o.args)))
        lvl = 'ok'
        for a in self.logged:
            s = (a[0] % a[1:]) if len(a) > 1 else str(a[0])
            if '005 converter' in s: continue        # a failing converter is logged and the token skipped (modelled)
            if 'IrcState' in s: lvl = 'state-exc'
            elif lvl == 'ok': lvl = 'irc-exc'
        if m is None: lvl = 'no-msg'
        if escaped: lvl = escaped
        return lvl, sent
    def state(self):
        irc = self.irc; st = irc.state
        chans = {}
        for name, c in st.channels.items():
            chans[low(name)] = {'u': sorted(low(str(x)) for x in c.users), 'o': sorted(low(str(x)) for x in c.ops),
                                'h': sorted(low(str(x)) for x in c.halfops), 'v': sorted(low(str(x)) for x in c.voices),
                                'b': sorted(low(str(x)) for x in c.bans), 't': c.topic,
                                'm': {k: (None if v is None else str(v)) for k, v in c.modes.items()}, 'c': c.created}
        hosts = {low(k): v for k, v in st.nicksToHostmasks.items()}
        sup = st.supported
        isup = (('s' + wire.enc_opt(sup['chantypes'])) if 'chantypes' in sup else '~') + '/' + \
               (('n' if sup['channellen'] is None else str(sup['channellen'])) if 'channellen' in sup else '~')
        auth = {u.name: [m for _, m in u.auth] for u in self.ircdb.users.users.values()}
        return {'nick': irc.nick, 'prefix': irc.prefix, 'chans': chans, 'hosts': hosts, 'isup': isup,
                'batches': sorted(st.batches.keys()), 'auth': auth}

def dump_text(s):
    """format of C10.dumpBot"""
    cs = []
    for k, c in s['chans'].items():
        cs.append(wire.enc(k) + '(u=' + enc_set(c['u']) + ';o=' + enc_set(c['o']) + ';h=' + enc_set(c['h']) + ';v=' + enc_set(c['v']) +
                  ';b=' + enc_set(c['b']) + ';t=' + wire.enc(c['t']) + ';m=' +
                  ','.join(sorted(wire.enc(m) + ':' + wire.enc_opt(x) for m, x in c['m'].items())) + ';c=' + str(c['c']) + ')')
    return ('N=' + wire.enc(s['nick']) + ' P=' + wire.enc(s['prefix']) + ' C=' + ' '.join(sorted(cs)) + ' H=' +
            ','.join(sorted(wire.enc(k) + '=' + wire.enc(m) for k, m in s['hosts'].items())) + ' I=' + s['isup'] +
            ' B=' + enc_set(s['batches']) +
            ' A=' + ';'.join(sorted(wire.enc(n) + ':' + enc_set(ms) for n, ms in s.get('auth', {}).items())))

class ModeDiff(str):
    """a difference confined to a channel's modes dict (keeps both dicts for the finding classifier)"""
    def __new__(cls, text, botm, srvm):
        x = str.__new__(cls, text); x.botm = botm; x.srvm = srvm
        return x

def oracle(view, st, multi_prefix=True):
    """the property statement, as far as the server has told the bot: returns (list of differences, only_modes).
    * nick, set of channels, users, ops, topic: equal;
    * halfops / voices: equal with multi-prefix, otherwise (NAMES shows one status per member) a subset of the server's;
    * modes: equal once the 324 reply reached the bot since it joined, before that a sub-map of the server's;
      bans: likewise with the ban list;
    * hostmasks: every user whose current hostmask the server has shown to the bot (and not changed silently since)."""
    diffs = []; modes_only = True
    if st['nick'] != view['nick']:
        diffs.append('irc.nick is %r, the server knows the bot as %r' % (st['nick'], view['nick'])); modes_only = False
    if set(st['chans']) != set(view['chans']):
        diffs.append('bot thinks it is in %s, server says %s' % (sorted(st['chans']), sorted(view['chans']))); modes_only = False
    for k, vc in view['chans'].items():
        bc = st['chans'].get(k)
        if bc is None: continue
        for fld, what in (('u', 'users'), ('o', 'ops'), ('h', 'halfops'), ('v', 'voices'), ('t', 'topic')):
            if fld in 'hv' and not multi_prefix and set(bc[fld]) <= set(vc[fld]):
                continue
            if bc[fld] != vc[fld]:
                diffs.append('%s of %s: bot has %r, server has %r' % (what, k, bc[fld], vc[fld])); modes_only = False
        if k in view['bans_synced']:
            if bc['b'] != vc['b']:
                diffs.append('bans of %s: bot has %r, server has %r' % (k, bc['b'], vc['b'])); modes_only = False
        elif not set(bc['b']) <= set(vc['b']):
            diffs.append('bans of %s (list not sent yet): bot has %r, server has %r' % (k, bc['b'], vc['b'])); modes_only = False
        if k in view['modes_synced']:
            if bc['m'] != vc['m']:
                diffs.append(ModeDiff('modes of %s: bot has %r, server has %r' % (k, bc['m'], vc['m']), bc['m'], vc['m']))
        elif any(m not in vc['m'] or vc['m'][m] != x for m, x in bc['m'].items()):
            sub = {m: x for m, x in vc['m'].items() if m in bc['m']}
            diffs.append(ModeDiff('modes of %s (324 not sent yet): bot has %r, server has %r' % (k, bc['m'], vc['m']), bc['m'], sub))
    for k, mask in view['told'].items():
        if st['hosts'].get(k) != mask:
            diffs.append('hostmask of %s (shown to the bot): bot has %r, server has %r' % (k, st['hosts'].get(k), mask)); modes_only = False
    if view['prefix'] is not None and st['prefix'] != view['prefix']:
        diffs.append('irc.prefix is %r, the server knows the bot as %r' % (st['prefix'], view['prefix'])); modes_only = False
    return diffs, modes_only

# ------------------------------------------------------------------------------------------
# wire encoding of actions (format of C10.decAct)
# ------------------------------------------------------------------------------------------
def enc_changes(chs):
    return '-' if not chs else ','.join(('+' if a else '-') + m + ':' + wire.enc_opt(x) for a, m, x in chs)

def act_line(a):
    k = a[0]
    if k == 'connect': return 'act\tconnect\t%s\t%s\t%s' % tuple(wire.enc(x) for x in a[1:])
    if k == 'join': return 'act\tjoin\t%s\t%s' % (wire.enc(a[1]), wire.enc_list(a[2]))
    if k == 'part': return 'act\tpart\t%s\t%s\t%s' % (wire.enc(a[1]), wire.enc_list(a[2]), wire.enc_opt(a[3]))
    if k == 'kick': return 'act\tkick\t%s\t%s\t%s\t%s' % (wire.enc(a[1]), wire.enc(a[2]), wire.enc_list(a[3]), wire.enc(a[4]))
    if k == 'quit': return 'act\tquit\t%s\t%s' % (wire.enc(a[1]), wire.enc(a[2]))
    if k == 'nick': return 'act\tnick\t%s\t%s' % (wire.enc(a[1]), wire.enc(a[2]))
    if k == 'mode': return 'act\tmode\t%s\t%s\t%s' % (wire.enc(a[1]), wire.enc(a[2]), enc_changes(a[3]))
    if k == 'topic': return 'act\ttopic\t%s\t%s\t%s' % (wire.enc(a[1]), wire.enc(a[2]), wire.enc(a[3]))
    if k == 'chghost': return 'act\tchghost\t%s\t%s\t%s' % tuple(wire.enc(x) for x in a[1:])
    if k == 'say': return 'act\tsay\t%s\t%s\t%s' % (wire.enc(a[1]), wire.enc(a[2]), wire.enc(a[3]))
    if k == 'isupport': return 'act\tisupport'
    if k == 'names': return 'act\tnames\t%s' % wire.enc(a[1])
    if k == 'who': return 'act\twho\t%s' % wire.enc(a[1])
    if k == 'modeis': return 'act\tmodeis\t%s' % wire.enc(a[1])
    if k == 'banlist': return 'act\tbanlist\t%s' % wire.enc(a[1])
    if k == 'serve': return 'act\tserve'
    if k == 'batchopen': return 'act\tbatchopen\t%s\t%s\t%s' % (wire.enc(a[1]), wire.enc(a[2]), wire.enc_list(a[3]))
    if k == 'batchclose': return 'act\tbatchclose'
    if k == 'reconnect': return 'act\treconnect'
    raise ValueError(a)

def enc_ev(ev):
    if ev[0] == 'R': return 'R'
    if ev[0] == 'T': return 'T' + wire.enc(ev[1]) + ':' + wire.enc(ev[2]) + ':' + wire.enc(ev[3]) + ':' + wire.enc_list(ev[4])
    return 'M' + wire.enc(ev[1]) + ':' + wire.enc(ev[2]) + ':' + wire.enc_list(ev[3])

def init_line(cfg):
    b = lambda x: '1' if x else '0'
    return 'init\t' + '\t'.join([wire.enc(cfg['server']), b(cfg['multiPrefix']), b(cfg['uhnames']), b(cfg['extJoin']), b(cfg['chghost']),
            b(cfg['whox']), b(cfg.get('batch', True)), wire.enc(cfg['botNick']), wire.enc(cfg['botIdent']), wire.enc(cfg['botHost']),
            str(cfg['namesPerLine']), wire.enc(cfg.get('chantypes', '#&')), wire.enc(str(cfg.get('channellen', 50))),
            b(cfg.get('follow', False)), wire.enc_list([n + ' ' + m for n, m in cfg.get('identified', [])])])

# ------------------------------------------------------------------------------------------
# generators
# ------------------------------------------------------------------------------------------
# 'éric' / 'Éric' and '#café' / '#CAFÉ' are different names: rfc1459 casemapping folds A-Z and []\\~ only
NICKS = ['alice', 'Bob', 'carl', 'dave[1]', 'Eve^', 'f|ro', 'Gus`', 'hal_9', 'x-y', '\u00e9ric', '\u00c9ric']
CHANS = ['#chan', '#Dev', '&local', '#a[1]', '#x|y', '#t~z^', '#caf\u00e9', '#CAF\u00c9']
_SWAP = str.maketrans('abcdefghijklmnopqrstuvwxyzABCDEFGHIJKLMNOPQRSTUVWXYZ[]{}\\|', 'ABCDEFGHIJKLMNOPQRSTUVWXYZabcdefghijklmnopqrstuvwxyz{}[]|\\')
_SWAP_CHAN = str.maketrans('abcdefghijklmnopqrstuvwxyzABCDEFGHIJKLMNOPQRSTUVWXYZ[]{}\\|^~', 'ABCDEFGHIJKLMNOPQRSTUVWXYZabcdefghijklmnopqrstuvwxyz{}[]|\\~^')
def casevar(r, s, keep=0):
    """a spelling of s that is equal under rfc1459 rules (first `keep` characters untouched).
    `~` is not allowed in nicks (it is a status sigil), so the ^/~ pair is only swapped in channel names and masks
    (keep > 0 or the string is not a nick)."""
    tab = _SWAP_CHAN if (keep > 0 or '!' in s) else _SWAP
    out = []
    for i, c in enumerate(s):
        out.append(c.translate(tab) if i >= keep and r.random() < 0.5 else c)
    return ''.join(out)

TEXTS = ['', 'hello world', ':colon first', 'tschüß 中文 😀', 'a  b', ' lead', 'trail ', '+o', '#chan', '0123']
KEYS = ['secret', 'k3y', '0123', '10', '+5', '1_0', 'pass:word', 'ÜBER']
LIMITS = ['10', '5', '007', '100', 'x']
BANS = ['*!*@evil.host', 'Bad!*@*', 'bad!*@*', '*!~id@*', '*!^ID@*', '[x]!*@*', '{X}!*@*', '*!*@10.0.0.*']
IDENTS = ['~al', 'bob', 'id3', '~x', 'limnoria']
HOSTS = ['host.one', 'Host.Two', '10.0.0.1', 'cloak/user', 'a:b::1']
FLAGS = 'imnpstrCR'

def gen_cfg(r, kind):
    return {'server': r.choice(['irc.srv', 'hub.example.net']), 'multiPrefix': True if kind != 'nomp' else False,
            'uhnames': r.random() < 0.4, 'extJoin': r.random() < 0.4, 'chghost': r.random() < 0.8, 'whox': r.random() < 0.6, 'batch': r.random() < 0.7,
            'botNick': 'test', 'botIdent': 'limnoria', 'botHost': r.choice(['bot.host', 'Bot/Cloak']),
            'namesPerLine': r.choice([1, 2, 3, 50]), 'chantypes': r.choice(['#&', '#&!+', '&#']), 'channellen': r.choice([50, 64, 200]),
            'follow': r.random() < 0.4, 'identified': []}

def _some_nick(r, S, p_bot=0.2, p_bad=0.08):
    x = r.random()
    if x < p_bad:
        return r.choice(['nobody', 'bad nick', '', '@alice', 'a!b', NICKS[r.randrange(len(NICKS))]])
    if x < p_bad + p_bot:
        return casevar(r, S.botnick()) if r.random() < 0.3 else S.botnick()
    us = [u.nick for u in S.users.values()]
    n = r.choice(us)
    return casevar(r, n) if r.random() < 0.3 else n

EXT_CHANS = ['+plus', '~staff', '#' + 'y' * 59, '+Plus2']
def _some_chan(r, S, p_bad=0.08):
    x = r.random()
    if x < p_bad:
        return r.choice(['#nowhere', 'nochan', '#bad chan', '#a,b', ''])
    if S.chans and x < 0.75:
        c = r.choice(list(S.chans.values())).name
    else:
        c = r.choice(CHANS + EXT_CHANS + EXT_CHANS if S.cfg.get('ext') else CHANS)
    return casevar(r, c, keep=1) if r.random() < 0.3 else c

def _bot_chan(r, S):
    mine = [c.name for c in S.chans.values() if S.bot in c.members]
    if mine and r.random() < 0.85:
        c = r.choice(mine)
        return casevar(r, c, keep=1) if r.random() < 0.3 else c
    return _some_chan(r, S)

def _member(r, S, cname):
    sc = S.chan(cname)
    if sc is not None and sc.members and r.random() < 0.85:
        n = S.users[r.choice(list(sc.members))].nick
        return casevar(r, n) if r.random() < 0.3 else n
    return _some_nick(r, S)

def gen_change(r, S, cname, findings):
    add = r.random() < 0.6
    x = r.random()
    if x < 0.45:
        m = r.choice('ooohvv')
        return (add, m, _member(r, S, cname) if r.random() < 0.95 else None)
    if x < 0.6:
        m = 'b'
        sc = S.chan(cname)
        if not add and sc is not None and sc.bans and r.random() < 0.8:
            return (False, 'b', casevar(r, r.choice(sc.bans)) if r.random() < 0.4 else r.choice(sc.bans))
        return (add, 'b', r.choice(BANS))
    if x < 0.7:
        keys = KEYS if findings == 'intarg' else [k for k in KEYS if canon_arg(k)]
        return (add, 'k', r.choice(keys) if r.random() < 0.95 else None)
    if x < 0.8:
        lims = LIMITS if findings == 'intarg' else [k for k in LIMITS if canon_arg(k)]
        return (add, 'l', r.choice(lims) if add or r.random() < 0.1 else None)
    if findings == 'extmodes' and x < 0.9:
        return (add, r.choice('fj'), r.choice(['5:10', '3:2', '9']) if add else None)
    if x < 0.95:
        return (add, r.choice(FLAGS), None if r.random() < 0.95 else 'x')
    m = r.choice('eqI')
    return (add, m, r.choice(BANS))

def _int_ok(s):
    try:
        int(s); return True
    except ValueError:
        return False

def canon_arg(a):
    """mode argument that separateModes' int() normalisation leaves alone"""
    return (not _int_ok(a)) or str(int(a)) == a

def gen_action(r, S, findings=False):
    nusers = len(S.users)
    x = r.random()
    if nusers < 3 or x < 0.05:
        free = [n for n in NICKS if S.uid(n) is None]
        n = r.choice(free) if free and r.random() < 0.9 else r.choice(NICKS + ['bad nick', 'x!y'])
        return ('connect', casevar(r, n) if r.random() < 0.2 else n, r.choice(IDENTS), r.choice(HOSTS))
    botchans = [c for c in S.chans.values() if S.bot in c.members]
    if S.cfg.get('ext') and r.random() < (0.5 if len(botchans) < 2 else 0.04):
        # the bot enters several channels with one JOIN
        return ('join', S.botnick(), [_some_chan(r, S, 0.0) for _ in range(r.choice([2, 2, 3]))])
    if S.pending and r.random() < 0.35:
        return ('serve',)
    if S.open_batch is not None and r.random() < 0.2:
        return ('batchclose',)
    if S.open_batch is None and r.random() < 0.03:
        return ('batchopen', r.choice(['ref1', 'yXNAbvnRHTRBv', 'bad ref']), r.choice(['netsplit', 'netjoin']), r.choice([[], ['irc.hub', 'irc.leaf']]))
    if not botchans and x < 0.5:
        return ('join', S.botnick(), [_some_chan(r, S, 0.02) for _ in range(r.choice([1, 1, 2, 3]))])
    x = r.random()
    if x < 0.2:
        return ('join', _some_nick(r, S, 0.25), [_some_chan(r, S) for _ in range(r.choice([1, 1, 1, 2, 3]))])
    if x < 0.3:
        n = _some_nick(r, S, 0.15)
        i = S.uid(n)
        on = [c.name for c in S.chans.values() if i in c.members] if i is not None else []
        cs = [r.choice(on) if on and r.random() < 0.85 else _some_chan(r, S) for _ in range(r.choice([1, 1, 2, 3]))]
        cs = [casevar(r, c, keep=1) if r.random() < 0.2 else c for c in cs]
        return ('part', n, cs, r.choice([None, None] + TEXTS))
    if x < 0.38:
        c = _bot_chan(r, S)
        ts = [_member(r, S, c) for _ in range(r.choice([1, 1, 1, 2, 3]))]
        return ('kick', r.choice(['', _some_nick(r, S)]), c, ts, r.choice(TEXTS))
    if x < 0.43:
        return ('quit', _some_nick(r, S, 0.03), r.choice(TEXTS))
    if x < 0.55:
        n = _some_nick(r, S, 0.3)
        i = S.uid(n)
        y = r.random()
        if i is not None and y < 0.35:
            n2 = casevar(r, S.users[i].nick)          # case-only change
        elif y < 0.9:
            n2 = r.choice(NICKS)
            if r.random() < 0.3: n2 = casevar(r, n2)
        else:
            n2 = r.choice(['bad nick', '', 'a@b', '+plus'])
        return ('nick', n, n2)
    if x < 0.75:
        c = _bot_chan(r, S)
        return ('mode', r.choice(['', '', _some_nick(r, S)]), c, [gen_change(r, S, c, findings) for _ in range(r.choice([1, 1, 2, 3, 4, 6]))])
    if x < 0.82:
        return ('topic', r.choice(['', _some_nick(r, S)]), _bot_chan(r, S), r.choice(TEXTS + ['bad\ntext']))
    if x < 0.885:
        return ('chghost', _some_nick(r, S, 0.25), r.choice(IDENTS + ['bad id']), r.choice(HOSTS + ['bad@host']))
    if x < 0.9:
        # a message to a channel of the bot or to the bot itself, also from users the bot cannot see
        return ('say', _some_nick(r, S, 0.02), r.choice([_bot_chan(r, S), casevar(r, S.botnick())]), r.choice(TEXTS))
    if x < 0.915:
        return ('names', _bot_chan(r, S))
    if x < 0.94:
        return ('who', _bot_chan(r, S) if r.random() < 0.7 else _some_chan(r, S))
    if x < 0.95:
        # unsolicited replies (the solicited ones are 'serve')
        return ('modeis', _bot_chan(r, S) if r.random() < 0.5 else _some_chan(r, S))
    if x < 0.96:
        return ('banlist', _bot_chan(r, S) if r.random() < 0.5 else _some_chan(r, S))
    if x < 0.97:
        return ('serve',)
    if x < 0.98:
        return ('isupport',)
    return ('reconnect',)

HOSTILE_005 = ['CHANTYPES=#', 'CHANTYPES=', 'CHANTYPES', 'chantypes=&#', 'CHANNELLEN=5', 'CHANNELLEN=x', 'CHANNELLEN', 'CHANNELLEN=200',
               'ChanTypes=#&+', 'PREFIX=(qaohv)~&@%+', 'CHANMODES=beI,k,fjl,imnpst', 'CASEMAPPING=ascii', 'MODES=x', 'MODES', 'NICKLEN=9',
               '-CHANTYPES', 'are supported', 'x=y=z', '=']
HOSTILE_CMDS = ['JOIN', 'PART', 'KICK', 'QUIT', 'NICK', 'MODE', 'TOPIC', '353', '352', '354', '324', '329', '332', '367',
                'CHGHOST', '315', '366', '368', '001', '333', 'PRIVMSG', 'NOTICE', 'join', 'Nick', 'mode']
def gen_hostile(r, S):
    cmd = r.choice(HOSTILE_CMDS)
    me = S.botnick()
    if r.random() < 0.06:
        return (S.cfg['server'], '005', [r.choice([me, 'x'])] + [r.choice(HOSTILE_005) for _ in range(r.randint(0, 4))] + ['are supported by this server'][:r.randint(0, 1)], None)
    pf = r.choice([S.cfg['server'], S.cfg['server'], me, 'x', '', 'a!b@c', 'a!b@c!d@e', '!b@c', 'a!@c', 'a!b@', 'a b!c@d', 'a!b@c\n',
                   '%s!limnoria@bot.host' % me, '%s!o@p' % casevar(r, me)] + [u.mask() for u in S.users.values()])
    pool = ([me, casevar(r, me), '', '1', '2', '#chan', '#Chan', '&local', '#chan,#Dev', '#new', '#chan ', ' #chan', '#a b', 'nochan', '@', '=', '*', '+o', '-o', '+ov', '+k',
             '-k', '+l', '-l', '+b', '+bb', '+stn', '+e', '+I', '+q', '-sb', '+o-v+k', 'alice', 'ALICE', 'Bob', 'alice,Bob', 'alice,%s,Bob' % me,
             '@alice +Bob', '@+alice!~al@host.one %Bob', '@ + @+', 'alice!u@h', '+alice!u@h', '@%+&~!x', '&~y', '!z', '10', '0123', '1_0', ' 7 ',
             '-3', 'x y', 'key', '*!*@evil.host', 'None'] + [u.nick for u in S.users.values()])
    n = r.choice([0, 1, 2, 2, 3, 3, 4, 4, 5, 6, 8, 9, 9, 10])
    args = [r.choice(pool) for _ in range(n)]
    args = [a for a in args if valid_text(a)]
    tag = r.choice([None, None, None, 'ref1', 'zz', S.open_batch or 'b2'])
    if r.random() < 0.08:
        return (S.cfg['server'], 'BATCH', [r.choice(['+ref1', '-ref1', '+b2', '-b2', '+', '-', 'ref1', '', '+zz'])] + [r.choice(['netsplit', 'x'])][:r.randint(0, 1)], tag)
    return (pf, cmd, args, tag)


RAW_USERS = [('alice', 'a', 'ah'), ('Bob', 'b', 'bh'), ('carl', '~c', 'c.host'), ('\u00e9ric', 'e', 'eh'), ('\u00c9ric', 'E', 'EH')]
RAW_CHANS = ['#a', '#b', '&c', '#Dev', '+plus', '~staff', '#' + 'x' * 59, '#caf\u00e9', '#CAF\u00c9']
def gen_rawseq(r, cfg, length):
    """a directed raw stream (bot and bot model only, no reference server): 005 with usual or unusual CHANTYPES / CHANNELLEN,
    the bot's own JOIN of several new channels in ONE message (or one by one), then per-channel traffic that makes the
    channels differ: NAMES, TOPIC, MODE, bans, joins, parts, kicks, nick changes"""
    me = cfg['botNick']; mymask = '%s!%s@%s' % (me, cfg['botIdent'], cfg['botHost']); S = cfg['server']
    out = []
    if r.random() < 0.5:
        out.append((S, '001', [me, 'Welcome'], None))
    ct = r.choice(['#&', '#&+~', '#&~', '#&+'])
    out.append((S, '005', [me, 'CHANTYPES=' + ct, 'CHANNELLEN=%d' % r.choice([50, 64, 200]), 'PREFIX=(ohv)@%+', 'are supported by this server'], None))
    chans = r.sample(RAW_CHANS, r.choice([2, 2, 3]))
    if r.random() < 0.75:
        out.append((mymask, 'JOIN', [','.join(chans)], None))
    else:
        out += [(mymask, 'JOIN', [c], None) for c in chans]
    mask = lambda u: '%s!%s@%s' % u
    while len(out) < length:
        c = r.choice(chans)
        if r.random() < 0.15: c = casevar(r, c, keep=1)
        u = r.choice(RAW_USERS); v = r.choice(RAW_USERS)
        x = r.random()
        if x < 0.15:
            items = [r.choice(['', '@', '+', '%', '@+', '@%+']) + w[0] for w in r.sample(RAW_USERS, r.randint(1, 4))]
            out.append((S, '353', [me, r.choice('=*@'), c, ' '.join(items + ([me] if r.random() < 0.5 else []))], None))
        elif x < 0.2:
            out.append((S, '366', [me, c, 'End of /NAMES list.'], None))
        elif x < 0.32:
            out.append((mask(u), 'JOIN', [c if r.random() < 0.7 else ','.join(r.sample(chans, 2))], None))
        elif x < 0.4:
            out.append((mask(u), 'PART', [c] + ([r.choice(TEXTS)] if r.random() < 0.5 else []), None))
        elif x < 0.46:
            out.append((r.choice([S, mask(v)]), 'KICK', [c, u[0], 'bye'], None))
        elif x < 0.7:
            ch = r.choice(['+o', '-o', '+v', '-v', '+h', '+b', '-b', '+m', '-m', '+s', '+k', '-k', '+l', '+ov', '+mb'])
            args = []
            for m in ch[1:]:
                if m in 'ohv': args.append(r.choice(RAW_USERS)[0])
                elif m == 'b': args.append(r.choice(BANS))
                elif m == 'k': args.append('key')
                elif m == 'l' and ch[0] == '+': args.append('10')
            out.append((r.choice([S, mask(v)]), 'MODE', [c, ch] + args, None))
        elif x < 0.78:
            out.append((r.choice([S, mask(v)]), 'TOPIC', [c, r.choice(TEXTS)], None))
        elif x < 0.82:
            out.append((S, '332', [me, c, r.choice(TEXTS)], None))
        elif x < 0.86:
            out.append((S, '324', [me, c, r.choice(['+nt', '+s', '+mk', '+l'])] + [], None))
        elif x < 0.9:
            out.append((S, '367', [me, c, r.choice(BANS), S, '0'], None))
        elif x < 0.93:
            out.append((S, '329', [me, c, r.choice(['1234567', '42'])], None))
        elif x < 0.97:
            out.append((mask(u), 'NICK', [r.choice([casevar(r, u[0]), 'newnick', v[0]])], None))
        else:
            out.append((mask(u), 'QUIT', ['gone'], None))
    return out

# ------------------------------------------------------------------------------------------
# one history on the implementation
# ------------------------------------------------------------------------------------------
KINDS = ('valid', 'valid', 'valid', 'valid', 'nomp', 'findings', 'hostile', 'rawseq', 'ext')

def run_history(real, cfg, script, check=True):
    """script: list of ('act', action) / ('msg', (pfx, cmd, args)).  Returns (impl_lines, oracle_failures, tags, nmsgs)
    oracle_failures: list of (index into script, [differences], modes_only)"""
    S = PySrv(cfg)
    real.configure(cfg)
    real.reset()
    st0 = real.state()
    impl = ['ok ' + dump_text(st0) + '\t' + view_text(S.view())]
    fails = []; tags = set(); nmsgs = 0
    hostile_seen = False
    for idx, (what, x) in enumerate(script):
        if what == 'act':
            evs = S.step(x)
            dumps = []; sent_all = []
            del real.wire[:]
            for ev in evs:
                _, sent = real.feed(ev)
                sent_all += sent
                dumps.append(dump_text(real.state()) + ' O=' + enc_msgs(sent))
                tags.add('ev:' + (ev[2] if ev[0] == 'M' else ('batched:' + ev[3]) if ev[0] == 'T' else 'reset'))
            S.enqueue(sent_all)
            nmsgs += len(evs)
            v = S.view()
            impl.append(('|'.join(enc_ev(e) for e in evs) if evs else '-') + '\t' + ('|'.join(dumps) if dumps else '-') + '\t' + view_text(v))
            tags.add('act:' + x[0] + ('' if evs else ':silent'))
            if sent_all: tags.add('bot-sends:' + '+'.join(sorted(set(c for c, _ in sent_all))))
            if check and not hostile_seen:
                d, modes_only = oracle(v, real.state(), cfg['multiPrefix'])
                gaps = S.spec_gaps()
                if gaps:
                    d = d + ['quiescence: ' + g for g in gaps]; modes_only = False
                if real.wire:
                    # what the server sent did not reach the bot as sent (parser / constructor / firewall of the code under test)
                    d = ['wire: ' + w for w in real.wire[:2]] + d; modes_only = False
                if d:
                    fails.append((idx, d, modes_only))
        else:
            hostile_seen = True
            lvl, sent = real.feed((('M',) + tuple(x[:3])) if x[3] is None else (('T', x[3]) + tuple(x[:3])), raw=True)
            impl.append(lvl + '\t' + dump_text(real.state()) + ' O=' + enc_msgs(sent))
            tags.add('raw:' + x[1].upper() + ':' + lvl)
            nmsgs += 1
    return impl, fails, tags, nmsgs

def script_lines(cfg, script):
    out = [init_line(cfg)]
    for what, x in script:
        if what == 'act': out.append(act_line(x))
        else: out.append('msg\t%s\t%s\t%s\t%s' % (wire.enc(x[0]), wire.enc(x[1]), wire.enc_list(x[2]), wire.enc_opt(x[3])))
    return out

def gen_script(r, kind, length):
    """generate by running the Python reference server forward (actions depend on its state)"""
    cfg = gen_cfg(r, kind)
    if kind == 'rawseq':
        return cfg, [('msg', m) for m in gen_rawseq(r, cfg, length)]
    if kind == 'ext':
        # a server the Lean Srv does not cover (implementation + oracle only): channels are what its 005 says
        # (other CHANTYPES, CHANNELLEN above 50), a multi-target JOIN of the bot is announced in one message
        cfg['ext'] = True
        cfg['chantypes'] = r.choice(['#&+~', '#&+', '#&~+!'])
        cfg['channellen'] = r.choice([64, 200])
    S = PySrv(cfg)
    script = []
    if kind == 'ext':
        S.step(('isupport',)); script.append(('act', ('isupport',))); length -= 1
    nickmasks = []; masks = []
    fmode = r.choice(['intarg', 'extmodes']) if kind == 'findings' else False
    if fmode == 'extmodes':
        # a server whose ISUPPORT CHANMODES has further parameter modes (e.g. +f flood, +j join throttle);
        # only the Python reference server knows them: the Lean Srv's mode classes are those of the bot's tables
        cfg['extraParamModes'] = 'fj'
    for _ in range(length):
        if kind == 'hostile' and len(script) > 6 and r.random() < 0.6:
            script.append(('msg', gen_hostile(r, S)))
        else:
            a = gen_action(r, S, findings=fmode)
            me = S.users[S.bot].mask()
            for ev in S.step(a):
                # predict the queries the bot will send (only to steer the generator; the run uses the real ones)
                if ev[0] == 'R': continue
                pfx, cmd, args = ev[-3:]
                if cmd == 'JOIN' and pfx == me:
                    S.enqueue([('MODE', [args[0]]), ('MODE', [args[0], '+b']), ('WHO', [args[0], '%tuhnairf,1'])])
                if cmd == 'NICK' and pfx != me and pfx not in nickmasks:
                    nickmasks.append(pfx)
                me = S.users[S.bot].mask()
            for i, u in S.users.items():
                if i != S.bot and u.mask() not in masks: masks.append(u.mask())
            script.append(('act', a))
    if cfg['follow']:
        # who is identified to the bot, and from which hostmask: some of those whose NICK the bot will see, some others, nobody
        chosen = []
        for _ in range(r.choice([0, 1, 2, 3])):
            pool = nickmasks if nickmasks and r.random() < 0.7 else masks
            if pool:
                m = r.choice(pool)
                if m not in chosen: chosen.append(m)
        cfg['identified'] = [['acct%d' % i, m] for i, m in enumerate(chosen)]
    return cfg, script

def _mode_diff_classes(d):
    """finding classes explaining one modes-dict difference (None in the set = unexplained)"""
    out = set()
    for k in set(d.botm) | set(d.srvm):
        b = d.botm.get(k, '<absent>'); v = d.srvm.get(k, '<absent>')
        if b == v:
            continue
        if k in 'kl' and isinstance(v, str) and isinstance(b, str) and not canon_arg(v) and b == str(int(v)):
            out.add('C10-mode-arg-int')             # separateModes ran int() over the argument
        else:
            out.add(None)
    return out

def uses_extra_param_modes(cfg, script):
    ex = cfg.get('extraParamModes', '')
    return bool(ex) and any(w == 'act' and a[0] == 'mode' and any(m in ex for _, m, _ in a[3]) for w, a in script)

def classify(script, fails, cfg=None):
    """finding class of a failing history (None = unexplained = a violation):
    * C10-param-modes-not-from-isupport: the server has parameter modes the bot's hard-coded tables do not know and the
      history uses one (mode arguments are then mis-paired, which can corrupt ops/voices/bans as well);
    * C10-mode-arg-int: every difference is confined to a modes dict, key k or l, and is the int() rewriting."""
    if not fails:
        return None
    if cfg is not None and uses_extra_param_modes(cfg, script):
        return 'C10-param-modes-not-from-isupport'
    if not all(mo for _, _, mo in fails):
        return None
    classes = set()
    for _, diffs, _ in fails:
        for d in diffs:
            if not isinstance(d, ModeDiff):
                return None
            classes |= _mode_diff_classes(d)
    if None in classes or not classes:
        return None
    return 'C10-mode-arg-int'

def shrink(real, cfg, script, pred):
    """delta debugging on the action list: smallest script (by removal) that still satisfies pred"""
    cur = list(script)
    n = 2
    budget = 400
    while len(cur) >= 2 and budget > 0:
        size = max(1, len(cur) // n)
        removed = False
        for i in range(0, len(cur), size):
            cand = cur[:i] + cur[i + size:]
            budget -= 1
            if cand and pred(cand):
                cur = cand; n = max(n - 1, 2); removed = True
                break
            if budget <= 0: break
        if not removed:
            if size == 1: break
            n = min(len(cur), n * 2)
    return cur

def make_case(real, cfg, script, kind, do_shrink=True):
    try:
        impl, fails, tags, nmsgs = run_history(real, cfg, script)
    except wire.DriverError:
        raise
    except Exception as e:
        # nothing the code under test does may crash the harness: an exception while feeding it or reading its state is a failure of the implementation
        import traceback
        c = Case({'cfg': cfg, 'script': script, 'kind': kind}, impl=None, kind=kind, tags=())
        c.oracle_ok = False; c.finding = None
        c.oracle_msg = 'while this history ran, %s: %s came out of the implementation / could not be read from its state (%s)' % (
            type(e).__name__, e, traceback.format_exc().strip().split('\n')[-3].strip())
        return c
    inp = {'cfg': cfg, 'script': script, 'kind': kind}
    c = Case(inp, impl='\n'.join(impl), kind=kind, tags=sorted(tags) if nmsgs else ())
    if fails:
        fid = classify(script, fails, cfg)
        c.oracle_ok = False
        c.finding = fid
        idx, d, _ = fails[0]
        small = script[:idx + 1]
        if do_shrink and fid is None:
            def still(s):
                _, f2, _, _ = run_history(real, cfg, s)
                return bool(f2) and classify(s, f2, cfg) is None
            small = shrink(real, cfg, small, still)
            _, f2, _, _ = run_history(real, cfg, small)
            if f2: d = f2[-1][1]
        c.input = {'cfg': cfg, 'script': small, 'kind': kind, 'full_script_len': len(script)}
        c.oracle_msg = ('after %s the bot\'s view differs from the server\'s: ' % (json.dumps(small[-1][1], ensure_ascii=False),)) + '; '.join(d[:4])
        if c.input['script'] != script:
            c.impl = None       # the stored input is the shrunk one; correspondence not compared for it
    if cfg.get('extraParamModes') or cfg.get('ext'):
        c.impl = None           # a server outside the Lean Srv's mode classes / channel names: implementation + oracle only
    return c

def explore(real, r, n_hist, length, offset=0):
    cases = []; lines = []; spans = []
    for h in range(n_hist):
        kind = KINDS[(offset + h) % len(KINDS)]
        cfg, script = gen_script(r, kind, length)
        c = make_case(real, cfg, script, kind)
        cases.append(c)
        if c.impl is not None:
            ls = script_lines(cfg, script)
            spans.append((c, len(lines), len(ls)))
            lines += ls
    return cases, lines, spans

def _digest(s):
    import hashlib
    return 'sha1:%s len=%d' % (hashlib.sha1(s.encode('ascii', 'replace')).hexdigest(), len(s))

def fill_model(cases, lines, spans, driver_ok=True):
    """run the model on the batch; agreeing histories keep only a digest of the (large) state-dump transcript"""
    nsteps = sum(c.impl.count('\n') for c in cases if c.impl)
    if driver_ok and lines:
        outs = wire.run_driver(PROPERTY, lines, timeout=1500)
        for c, start, n in spans:
            c.model = '\n'.join(outs[start:start + n])
    for c in cases:
        if c.impl is not None and (c.model is None or c.model == c.impl):
            d = _digest(c.impl)
            c.impl = d
            if c.model is not None: c.model = d
    return nsteps

def first_diff(c):
    a = c.impl.split('\n'); b = c.model.split('\n')
    for i, (x, y) in enumerate(zip(a, b)):
        if x != y:
            return i, x, y
    return None

# ------------------------------------------------------------------------------------------
# corpus / finding witnesses
# ------------------------------------------------------------------------------------------
def corpus_dir():
    return os.path.join(os.path.dirname(os.path.dirname(os.path.abspath(__file__))), 'corpus', 'C10')

def load_corpus():
    d = corpus_dir(); out = []
    try:
        names = sorted(os.listdir(d))
    except OSError:
        return out
    for n in names:
        if n.endswith('.json'):
            j = json.load(open(os.path.join(d, n)))
            out.append((n, j['cfg'], [(w, _tuplify(x)) for w, x in j['script']]))
    return out

def _tuplify(x):
    if x and x[0] == 'mode':
        return ('mode', x[1], x[2], [tuple(c) for c in x[3]])
    if isinstance(x, list):
        return tuple(x)
    return x

def run(ctx):
    build = leanbuild.ensure(PROPERTY, THEOREMS, thorough=ctx.thorough, extractors=['ChanState'])
    real = Real()
    n_hist, length = (10000, 150) if ctx.thorough else (2100, 60)
    cases = []; lines = []; spans = []
    for name, cfg, script in load_corpus():
        c = make_case(real, cfg, script, 'corpus', do_shrink=False)
        cases.append(c)
        if c.impl is not None:
            ls = script_lines(cfg, script); spans.append((c, len(lines), len(ls))); lines += ls
    nev = fill_model(cases, lines, spans, build.driver_ok)
    r = rng.make('c10')
    done = 0
    while done < n_hist:
        n = min(350, n_hist - done)
        cs, ls, sp = explore(real, r, n, length, offset=done)
        nev += fill_model(cs, ls, sp, build.driver_ok)
        cases += cs
        done += n
    # known-finding witnesses replayed on the implementation
    status = {}
    for f in verdict.load_findings(PROPERTY):
        w = f['witness']
        script = [(x[0], _tuplify(x[1])) for x in w['script']]
        _, fails, _, _ = run_history(real, w['cfg'], script)
        status[f['id']] = (bool(fails) and classify(script, fails, w['cfg']) == f['id'], f.get('what_fails', ''))
    def search(disagreements, broken):
        os.environ['VERIF_SEED'] = str(ctx.seed + 7919)
        try:
            more, _, _ = explore(real, rng.make('c10-search'), 600, 80)
        finally:
            os.environ['VERIF_SEED'] = str(ctx.seed)
        return [c for c in more if c.oracle_ok is False]
    return verdict.conclude(PROPERTY, ctx.tier, ctx.seed, build, cases, search=search, finding_status=status, rule=RULE,
                            trusted_base=TRUSTED,
                            assumptions=['Python asserts enabled', 'server uses rfc1459 casemapping and the CHANMODES classes of the bot tables',
                                         'registered users have no hostmask patterns; identification timeout 0 (default)',
                                         'mode arguments contain no non-ASCII decimal digits'],
                            extra={'history_steps_compared': nev}, t0=ctx.t0)

def replay(ctx, path):
    d = json.load(open(path))
    c = d.get('case') or d.get('first_disagreement')
    if not c:
        print(json.dumps(d, indent=1)[:3000]); return 0
    inp = c['input']
    script = [(w, _tuplify(x)) for w, x in inp['script']]
    real = Real()
    impl, fails, tags, n = run_history(real, inp['cfg'], script)
    print('cfg:', json.dumps(inp['cfg']))
    for (w, x) in script:
        print('  ', w, json.dumps(x, ensure_ascii=False))
    if fails:
        for idx, diffs, _ in fails[:3]:
            print('after step %d %s:' % (idx, json.dumps(script[idx][1], ensure_ascii=False)))
            for x in diffs: print('     ', x)
        print('implementation now: property FAILS on this history')
        return 1
    print('implementation now: the bot\'s view equals the server\'s after every step')
    return 0
