"""C14 — nested commands run inner-first, left to right, exactly once, in one plugin.
Correspondence of lean/LimnoriaModel/C14/Model.lean with callbacks.NestedCommandsIrcProxy /
Commands.getCommand / findCallbacksForArgs on a live bot with the synthetic plugins VtOrderA/B/C,
plus the property statement evaluated on the implementation (call-log oracle)."""
import inspect, json, os, re, sys, threading, time
from vlib import wire, rng, leanbuild, verdict, bot, CORPUS, VERIF
from vlib.verdict import Case

PROPERTY = 'C14'
MANIFEST = {
 'level_text': 'Lean 4 theorems about two models of nested-command evaluation and one of command dispatch. (1) A big-step evaluator over token trees (one proxy per bracket level with its args/counter cursor, the nesting maximum, the reply / noReply / ignored-tag substitution rules, truncation to reply.maximumLength, errors and silent commands stopping everything, the exception mapping of _callCommand incl. the IndexError path of an emptied argument list, the invalidCommand chain with Misc.invalidCommand for whenNotCommand on and off): for every tree, every behaviour of single-use command bodies and every dispatch function the sub-commands that run form a sub-sequence of the left-to-right post-order (none twice, inner first, left to right); a prefix when dispatch raises nothing and unknown commands are errors (nothing runs after a stop); the whole post-order when the line is answered; exactly function application when every command replies or calls noReply; nothing deeper than the maximum runs. (2) A small-step machine of the proxy objects themselves (heap of proxies, call stacks of frames, bodies that use irc any number of times, exception unwinding to _callCommand / the firewall / the invalidCommand chain, threaded commands handed to new threads): for every schedule and every body the log only grows, every logged call belongs to a proxy that did its finalEval, nothing deeper than the maximum runs; witnesses proved on the machine that a body replying twice breaks "nothing runs after a stop" and, next to a threaded sub-command, "exactly once" (recorded finding). (3) Dispatch and the disabled-commands store: getCommand returns a prefix of its arguments naming an enabled command, a plugin-qualified command reaches that plugin, an ambiguous bare name is reported and runs nothing, canonicalName is idempotent; after any history of disable / enable a command is disabled for a plugin iff the last global operation or the last operation about that plugin disabled it, an enable answered with an error changes nothing, the live store and supybot.commands.disabled always agree (a restart changes nothing). Kernel-checked; tied to src/callbacks.py and plugins/Owner by a differential correspondence run on a live bot (real plugins plus instrumented synthetic ones with overlapping names, command groups, threaded and multi-reply commands, invalidCommand handlers; every evaluation on both models; the real disable/enable commands; end to end through Owner.doPrivmsg and the tokenizer) that evaluates the property statement on the implementation.',
 'level_note': 'Trusted: Lean kernel (axioms propext/Classical.choice/Quot.sound only); harness/extractors/canonicalname.py; the correspondence harness (generators, introspection of the loaded plugins into the model\'s plugin table, canonicalisation of replies). Not proved: that the machine refines the big-step evaluator for single-use bodies (both are compared with the implementation on every case instead), order / once-ness on the machine beyond the safety invariants (false in general: finding C14-extra-reply-resumes-enclosing). Not modelled: the interleaving of real threads below the granularity of one proxy method call, capability checks in _callCommand (C01), the bodies of invalidCommand handlers other than Misc\'s (abstract), Unicode case folding in canonicalName, registry lookup of the configuration values, the optional(\'plugin\') argument parsing of Owner.disable/enable.',
 'technique': 'Lean 4 proof (structural induction on token trees / plugin trees) + differential correspondence on a live bot',
 'design_ref': 'DESIGN.md §6 C14',
}
THEOREMS = ['C14.postOrder_nodup', 'C14.eval_order', 'C14.eval_prefix', 'C14.eval_complete', 'C14.eval_postorder', 'C14.eval_application',
            'C14.depth_refused', 'C14.depth_error', 'C14.getCommand_prefix', 'C14.getCommand_enabled',
            'C14.owns_not_disabled', 'C14.dispatch_qualified', 'C14.dispatch_ambiguous', 'C14.ambiguous_runs_nothing',
            'C14.dispatch_unique', 'C14.special_table_ok', 'C14.canonicalName_idem',
            'C14.disabled_history', 'C14.disabled_until_enabled', 'C14.disabled_step', 'C14.enable_error_changes_nothing',
            'C14.store_registry_coherent', 'C14.restart_same', 'C14.enable_global_keeps_plugin_entry',
            'C14.machine_safety', 'C14.machine_log_grows', 'C14.extra_reply_witness', 'C14.race_runs_twice',
            'C14.defaultplugin_sets', 'C14.defaultplugin_remove_then_set']
TRUSTED = ['Lean 4.33.0 kernel; axioms ⊆ {propext, Classical.choice, Quot.sound}',
           'harness/extractors/canonicalname.py (the `special` characters of canonicalName → Gen/CanonicalName.lean)',
           'harness/c14.py: introspection of the loaded plugins (names, command methods, nested groups) into the model input; generators; canonicalisation of the bot\'s replies',
           'command bodies are abstract (behaviour fixed by the first letter of the synthetic command name, identically in harness/plugins/VtOrder*/plugin.py and in C14.vtBeh)']
RULE = ('worlds = random settings of nesting maximum, reply.maximumLength, error.detailed, disabled commands, defaultPlugins, importantPlugins over the '
        'same loaded plugins; per world: (full) trees of plugin-qualified replying / non-replying commands, fully checked against the statement; '
        '(mixed) trees over bare and qualified names with every behaviour (reply, noReply, error, silent, tag-ignored, exceptions, threaded, ambiguous, '
        'invalid, disabled, empty brackets); (deep) trees around the nesting maximum; (disp/find/getcmd) dispatch of argument lists over all loaded '
        'plugin and command names; (canon) canonicalName; (dseq / dpseq) histories of the real disable / enable / defaultplugin commands, the registry '
        'written to its file and read back in between (default plugins that come from the configuration file), remove-then-choose-again, the bare '
        'name checked at top level and nested after every step; (nets) two networks = two Irc objects over the one shared plugin list: defaultplugin, '
        'reload, unload + load given on either, bare and nested names evaluated on either, Irc.getCallback(name) is the loaded plugin on both. '
        'Threads are joined without a deadline: no outcome depends on the clock. non-trivial = the model took a non-default branch (sub-command, stop kind, pop, dispatch rule).')

SYN = ('VtOrderA', 'VtOrderB', 'VtOrderC')
FILE_DEFAULTS = (('rone', 'VtOrderA'), ('both', 'VtOrderB'), ('nrep', 'VtOrderC'), ('igno', 'VtOrderB'))
SAVE_LOAD = '<registry written to its file and read back>'
EVAL_MARK = '<evaluate> '
GETCB_MARK = '<irc.getCallback> '
ERR_NEST = "You've attempted more nesting than is currently allowed on this bot."

# --------------------------------------------------------------------------------------------
# live bot
# --------------------------------------------------------------------------------------------
class Live(object):
    def __init__(self):
        # default plugins that come from the configuration FILE read at start-up (they sit in registry._cache)
        b = bot.full(plugin_dirs=[os.path.join(VERIF, 'harness', 'plugins')],
                     extra_registry=''.join('supybot.commands.defaultPlugins.%s: %s\n' % kv for kv in FILE_DEFAULTS))
        for n in SYN:
            if n not in b.loaded:
                bot.load_plugin(b, n)
        self.b = b
        self.cb = b.callbacks
        self.conf = b.conf
        b.conf.supybot.reply.withNickPrefix.setValue(False)
        bot.register_welcome(b)
        try:
            b.ircdb.users.getUserId('own!er@vt.host')
        except KeyError:
            u = b.ircdb.users.newUser()
            u.name = 'vtowner'
            u.addCapability('owner')
            u.addHostmask('own!er@vt.host')
            b.ircdb.users.setUser(u)
        b.conf.supybot.protocols.irc.ping.setValue(False)      # nothing the bot does here depends on the clock
        self.success_text = b.conf.supybot.replies.success()
        self.log = []
        self._mcache = {}
        live = self
        if not getattr(self.cb.Commands.callCommand, '_vt_c14', False):
            orig = self.cb.Commands.callCommand
            def wrapped(self_, command, irc, msg, *args, **kw):
                live_log = getattr(b.world, 'vt_c14_calls', None)
                if live_log is not None:
                    live_log.append((self_.name(), list(command), list(args[0]) if args else []))
                return orig(self_, command, irc, msg, *args, **kw)
            wrapped._vt_c14 = True
            self.cb.Commands.callCommand = wrapped
        self.error_text = b.conf.supybot.replies.error()
        dp = b.conf.supybot.commands.defaultPlugins
        self.base_defaults = {n: c() for n, c in dp._children.items() if n != 'importantPlugins' and n not in dict(FILE_DEFAULTS)}
        # a second network: its own Irc object, the same (shared) list of plugins
        b.conf.registerNetwork('vtnetb')
        self.irc_b = b.irclib.Irc('vtnetb')
        assert self.irc_b.callbacks is b.irc.callbacks
        self.irc_b.feedMsg(b.ircmsgs.IrcMsg(':server 001 %s :Welcome' % b.nick))
        self.drain(self.irc_b)
        self.records = self.introspect()

    def wait_threads(self):
        """every thread the evaluation started has finished: waited for by join, however long the machine takes (the
        outcome never depends on the clock).  A thread that is still alive after an hour of wall time is reported as
        an infrastructure failure (exit 2), never judged as a result."""
        t0 = time.time()
        while True:
            ts = [t for t in threading.enumerate() if t.is_alive() and t is not threading.current_thread() and
                  (isinstance(t, self.cb.CommandThread) or 'invalidCommands' in t.name)]
            if not ts:
                return
            for t in ts:
                t.join(5.0)
            if time.time() - t0 > 3600:
                raise RuntimeError('infrastructure: command threads still alive after an hour: %r' % [t.name for t in ts])

    def plugin(self, name):
        """the loaded plugin of that name, looked up in the shared list itself (the harness's own bookkeeping does not
        go through Irc.getCallback, which is part of what is checked)"""
        for cb in self.b.irc.callbacks:
            if cb.name().lower() == name.lower():
                return cb
        return None

    def net(self, n):
        return self.irc_b if n == 'B' else self.b.irc

    @staticmethod
    def drain(irc, limit=1000):
        out = []
        for _ in range(limit):
            m = irc.takeMsg()
            if m is None:
                break
            out.append(m)
        return out

    def refresh(self):
        """after load / unload / reload: the plugin objects are new ones"""
        self._mcache.clear()
        order = getattr(self, 'cur_order', None)
        by = {cb.name(): cb for cb in self.b.irc.callbacks}
        if order and set(by) == set(order):
            self.b.irc.callbacks[:] = [by[n] for n in order]      # the world's order again (addCallback's is arbitrary)
        self.records = self.introspect()

    def save_load(self):
        """the registry half of a restart (and of `config reload`): write the configuration file, read it back"""
        fn = os.path.join(self.b.dir, 'conf', 'vt_c14_roundtrip.conf')
        self.b.registry.close(self.conf.supybot, fn)
        self.b.registry.open_registry(fn)

    def relive(self, h):
        """one history entry [text, answer(, network)] again; -> answer now"""
        text = h[0]; net = h[2] if len(h) > 2 else 'A'
        if text == SAVE_LOAD:
            self.save_load(); return 'ok'
        if text.startswith(GETCB_MARK):
            Q = text[len(GETCB_MARK):]
            return 'loaded' if self.net(net).getCallback(Q) is self.plugin(Q) else 'NOT the loaded plugin'
        if text.startswith(EVAL_MARK):
            res = self.run(json.loads(text[len(EVAL_MARK):]), net=net)
            return canon_result(res)
        rep = self.owner_cmd(text, net=net)
        if text.split()[0] in ('load', 'unload', 'reload'):
            self.refresh()
        return rep

    # ---- plugin table for the model ----
    def methods_cached(self, cb):
        k = id(cb)
        if k not in self._mcache:
            self._mcache[k] = set(self.methods_of(cb))
        return self._mcache[k]

    def methods_of(self, cb):
        out = []
        for attr in dir(cb):
            if attr != self.cb.canonicalName(attr):
                continue
            try:
                m = getattr(cb, attr)
            except Exception:
                continue
            if inspect.ismethod(m) and inspect.getargs(m.__func__.__code__)[0] == cb.commandArgs:
                out.append(attr)
        return out

    def introspect(self):
        recs = []
        def walk(cb, parent):
            i = len(recs)
            recs.append((i, parent, cb.name(), bool(getattr(cb, 'threaded', False)), self.methods_of(cb)))
            for sub in cb.cbs:
                walk(sub, i)
        self.top = [cb for cb in self.b.irc.callbacks if hasattr(cb, 'getCommand')]
        for cb in self.top:
            walk(cb, None)
        return recs

    def reorder(self, r, wi):
        """irc.callbacks orders unconstrained plugins arbitrarily (set iteration in addCallback, different from one
        process to the next): every world fixes an order itself — ascending, descending, then seeded shuffles — so
        that both relative orders of every pair of plugins are exercised in every run.  Owner stays first, Misc last."""
        cbs = self.b.irc.callbacks
        head = [cb for cb in cbs if cb.name() == 'Owner']
        tail = [cb for cb in cbs if cb.name() == 'Misc']
        mid = sorted((cb for cb in cbs if cb.name() not in ('Owner', 'Misc')), key=lambda cb: cb.name())
        if wi % 2 == 1:
            mid.reverse()
        if wi >= 2:
            r.shuffle(mid)
            if wi % 2 == 1:
                mid.reverse()
        cbs[:] = head + mid + tail
        self.records = self.introspect()

    # ---- configuration ("world") ----
    def set_world(self, w):
        self.cur_order = w.get('order')
        if w.get('order'):
            by = {cb.name(): cb for cb in self.b.irc.callbacks}
            if set(by) == set(w['order']):
                self.b.irc.callbacks[:] = [by[n] for n in w['order']]
                self.records = self.introspect()
        c = self.conf.supybot
        c.commands.nested.maximum.setValue(w['maxNesting'])
        c.reply.maximumLength.setValue(w['maxLen'])
        c.reply.error.detailed.setValue(w['detailed'])
        c.reply.whenNotCommand.setValue(w.get('whenNotCommand', True))
        c.commands.disabled.setValue(w['disabled'])
        self.cb.Commands._disabled = self.cb.DisabledCommands()
        dp = c.commands.defaultPlugins
        for name in set(list(dp._children) + list(w['defaults'])):
            if name == 'importantPlugins':
                continue
            plugin = w['defaults'].get(name, self.base_defaults.get(name, ''))
            if name not in dp._children:
                self.conf.registerGlobalValue(dp, name, self.b.registry.String(plugin, ''))
            dp.get(name).setValue(plugin)
        dp.importantPlugins.setValue(w['important'])

    def cfg_line(self, w, ignored0=False):
        return 'cfg\t%d\t%d\t%d\t%s\t%s\t%d' % (w['maxNesting'], w['maxLen'], w['detailed'], wire.enc(self.error_text),
                                                wire.enc('IndexError: list index out of range'), ignored0)

    def world_lines(self, w):
        """driver lines describing the loaded plugins and the world (read back from the live objects)"""
        L = ['reset']
        for (i, parent, name, thr, methods) in self.records:
            L.append('plugin\t%d\t%s\t%s\t%d\t%s' % (i, '-' if parent is None else parent, wire.enc(name), thr, wire.enc_list(methods)))
        d = self.cb.Commands._disabled.d
        for k in list(d.keys()):
            (ev, ps) = self.entry(d[k])
            L.append('disabled\t%s\t%d\t%s' % (wire.enc(self.cb.canonicalName(k)), ev, wire.enc_list(ps)))
        dp = self.conf.supybot.commands.defaultPlugins
        for name, child in dp._children.items():
            if name == 'importantPlugins':
                continue
            L.append('default\t%s\t%s' % (wire.enc(name), wire.enc(child())))
        L.append('important\t' + wire.enc_list(sorted(dp.importantPlugins())))
        L.append('dconf\t' + wire.enc_list(sorted(self.conf.supybot.commands.disabled())))
        order = [cb.name() for cb in self.b.irc.callbacks if hasattr(cb, 'invalidCommand')]
        L.append('invcfg\t%d\t%s\t%s' % (w.get('whenNotCommand', True), wire.enc(self.conf.supybot.commands.nested.brackets()), wire.enc_list(order)))
        L.append('cfg\t%d\t%d\t%d\t%s\t%s\t0' % (w['maxNesting'], w['maxLen'], w['detailed'], wire.enc(self.error_text),
                                                wire.enc('IndexError: list index out of range')))
        return L

    # ---- running one tree ----
    def run(self, tokens, private=False, ignored0=False, unthreaded=False, net='A'):
        """unthreaded: VtOrderC runs its commands on the caller's thread.  Used for trees with bodies that use irc
        several times: next to a thread hand-off two real threads evaluate the same enclosing proxies at once, each
        holding the per-plugin locks (Commands.__synchronized__) of the bodies it is inside while asking for the next
        one - seen to deadlock the bot (main thread included) for good; the machine model covers these schedules."""
        b = self.b
        cbc = self.plugin('VtOrderC')
        if unthreaded and cbc is not None:
            cbc.threaded = False
        b.world.vt_c14_calls = calls = []
        b.world.vt_c14_log = []
        msg = b.ircmsgs.privmsg('test' if private else '#vt', 'x', prefix='al!u@h')
        if ignored0:
            msg.tag('ignored')
        crash = None
        try:
            self.cb.NestedCommandsIrcProxy(self.net(net), msg, tokens)
        except Exception as e:
            crash = type(e).__name__
        finally:
            if unthreaded and cbc is not None:
                del cbc.threaded
        self.wait_threads()
        out = self.drain(self.net(net))
        b.world.vt_c14_calls = None
        body_calls = list(b.world.vt_c14_log)
        return dict(msgs=[(m.command, m.args[0], m.args[1]) for m in out if m.command in ('PRIVMSG', 'NOTICE')],
                    calls=list(calls), body_calls=body_calls, ignored=bool(msg.tagged('ignored')), crash=crash)

    def feed(self, text):
        """the same through the front door: PRIVMSG '@<text>' -> Owner.doPrivmsg -> callbacks.tokenize -> Proxy"""
        b = self.b
        b.world.vt_c14_calls = calls = []
        b.world.vt_c14_log = []
        msg = b.ircmsgs.privmsg('#vt', '@' + text, prefix='al!u@h')
        crash = None
        try:
            b.irc.feedMsg(msg)
        except Exception as e:
            crash = type(e).__name__
        self.wait_threads()
        out = bot.drain(b)
        b.world.vt_c14_calls = None
        return dict(msgs=[(m.command, m.args[0], m.args[1]) for m in out if m.command in ('PRIVMSG', 'NOTICE')],
                    calls=list(calls), body_calls=list(b.world.vt_c14_log), ignored=bool(msg.tagged('ignored')), crash=crash)

    @staticmethod
    def entry(v):
        """(disabled everywhere?, plugins) of one store entry, whatever shape the store gives it"""
        if v is None:
            return True, []
        if isinstance(v, (list, tuple)) and len(v) == 2 and isinstance(v[0], bool):
            return v[0], sorted(v[1])
        return False, sorted(v)

    def owner_cmd(self, text, net='A'):
        """run a real Owner command as the owner; -> 'ok' | 'err' | other reply text"""
        b = self.b
        b.world.vt_c14_calls = None
        msg = b.ircmsgs.privmsg('#vt', '@' + text, prefix='own!er@vt.host')
        self.net(net).feedMsg(msg)
        out = [m.args[1] for m in self.drain(self.net(net)) if m.command in ('PRIVMSG', 'NOTICE')]
        if out == [self.success_text]:
            return 'ok'
        if len(out) == 1 and out[0].startswith('Error: '):
            return 'err'
        return 'other:' + ' || '.join(out)

    def defaults_dump(self):
        dp = self.conf.supybot.commands.defaultPlugins
        return sorted((n, c()) for n, c in dp._children.items() if n != 'importantPlugins')

    def store_dump(self):
        d = self.cb.Commands._disabled.d
        ents = sorted((self.cb.canonicalName(k),) + self.entry(d[k]) for k in list(d.keys()))
        return ents, sorted(self.conf.supybot.commands.disabled())

    def find(self, args):
        b = self.b
        msg = b.ircmsgs.privmsg('#vt', 'x', prefix='al!u@h')
        p = self.cb.NestedCommandsIrcProxy.__new__(self.cb.NestedCommandsIrcProxy)
        p.irc = b.irc; p.msg = msg
        try:
            (maxL, cbs) = p.findCallbacksForArgs(list(args))
        except IndexError:
            return 'exc\tIndexError', None
        except Exception as e:
            return 'crash\t' + type(e).__name__, None
        idx = [self.top.index(cb) for cb in cbs]
        return 'ok\t%s\t%s' % (wire.enc_list(maxL), ','.join(map(str, idx)) or '-'), (maxL, cbs)

    def getcmd(self, i, args):
        try:
            return 'ok\t' + wire.enc_list(self.top[i].getCommand(list(args)))
        except IndexError:
            return 'exc\tIndexError'
        except Exception as e:
            return 'crash\t' + type(e).__name__

# --------------------------------------------------------------------------------------------
# canonical forms
# --------------------------------------------------------------------------------------------
AMBIG = re.compile(r'^Error: The command "(.*)" is available in the (.*) plugins\.  Please specify')
INVALID1 = re.compile(r'^Error: "(.*)" is not a valid command\.$')
INVALID2 = re.compile(r'^Error: The "(.*)" plugin is loaded, but there is no command named "(.*)" in it\.')

def canon_result(r):
    """observable outcome of one evaluation"""
    if r['crash']:
        return 'crash\t' + r['crash']
    if len(r['msgs']) == 0:
        return 'nomsg'
    if len(r['msgs']) > 1:
        return 'many\t' + ' || '.join(m[2] for m in r['msgs'])
    t = r['msgs'][0][2]
    m = AMBIG.match(t)
    if m:
        names = re.split(r', and | and |, ', m.group(2))
        return 'ambiguous\t%s\t%s' % (m.group(1), ','.join(sorted(names)))
    if INVALID1.match(t) or INVALID2.match(t):
        return 'invalid'
    if t == 'Error: ' + ERR_NEST:
        return 'tooDeep'
    if t.startswith('Error: '):
        return 'error\t' + t[7:]
    return 'reply\t' + t

def canon_one(t):
    m = AMBIG.match(t)
    if m:
        names = re.split(r', and | and |, ', m.group(2))
        return 'ambiguous\t%s\t%s' % (m.group(1), ','.join(sorted(names)))
    if INVALID1.match(t) or INVALID2.match(t):
        return 'invalid'
    if t == 'Error: ' + ERR_NEST:
        return 'tooDeep'
    if t.startswith('Error: '):
        return 'error\t' + t[7:]
    return 'reply\t' + t

def canon_msgs(r):
    """every message the evaluation sent, in order"""
    if r['crash']:
        return 'crash\t' + r['crash']
    return ' || '.join(canon_one(m[2]) for m in r['msgs']) or 'nomsg'

def canon_machine(field):
    """the machine's output list in the same form"""
    if field == '-':
        return 'nomsg'
    out = []
    for item in field.split(','):
        k, t = item[0], wire.dec(item[1:])
        if k == 'e':
            if t.startswith('AMBIGUOUS '):
                cmd, names = t[10:].split(' : ')
                out.append('ambiguous\t%s\t%s' % (cmd, ','.join(sorted(names.split(',')))))
            else:
                out.append(canon_one('Error: ' + t))
        elif not t:
            out.append('error\tI tried to send you an empty message.')
        else:
            out.append('reply\t' + t)
    return ' || '.join(out)

def canon_model(o):
    """model outcome -> the same observable form"""
    f = o.split('\t')
    if f[0] == 'replied':
        t = wire.dec(f[1])
        # _makeReply turns an empty final reply into this text (presentation, outside the evaluator)
        return ('reply\t' + t) if t else 'error\tI tried to send you an empty message.'
    if f[0] == 'noReply':
        return 'nomsg'
    if f[1] == 'error':
        s = wire.dec(f[2])
        if INVALID1.match('Error: ' + s) or INVALID2.match('Error: ' + s):
            return 'invalid'
        return ('error\t' + s) if s else 'nomsg'
    if f[1] == 'silent':
        return 'nomsg'
    if f[1] == 'tooDeep':
        return 'tooDeep'
    if f[1] == 'ambiguous':
        return 'ambiguous\t%s\t%s' % (' '.join(wire.dec_list(f[2])), ','.join(sorted(wire.dec_list(f[3]))))
    return 'unknown\t' + o

def is_foreign(call):
    """a command body the model knows nothing about (a real plugin's command other than Utilities echo/ignore)"""
    p, c, a = call
    return not (p in SYN or (p == 'Utilities' and c[-1] in ('echo', 'ignore')))

def cut_foreign(outcome, calls, ig):
    """when a foreign command ran, only the log up to it is comparable"""
    for k, call in enumerate(calls):
        if is_foreign(call):
            return 'foreign\t@\t%s' % canon_calls(calls[:k + 1])
    return '%s\t@\t%s\t%s' % (outcome, canon_calls(calls), ig)


def in_enable_class(history, since, c, cn):
    """the failure repaired by fix 6f88b83 (used to word the replay): after the per-plugin disable of `c` (index `since`) a GLOBAL-form `enable c` was
    answered with an error ("That command wasn't disabled.") — it has nevertheless deleted the whole
    store entry of `c`, per-plugin disables included"""
    for (text, rep) in history[since + 1:]:
        w = text.split()
        if w[0] == 'enable' and len(w) == 2 and cn(w[1]) == c and rep == 'err':
            return True
    return False

FINDING_EXTRA = 'C14-extra-reply-resumes-enclosing'
EXTRA_LETTERS = 'dmktf'
def in_extra_reply_class(res):
    """known-finding class: a command body that ran uses its irc again after a reply / an error"""
    return any(p in SYN and c[-1][:1] in EXTRA_LETTERS for (p, c, a) in res['calls'])

def canon_store(ents, confset):
    return '%s # %s' % (';'.join('%s=%d/%s' % (k, ev, '+'.join(v)) for k, ev, v in ents) or '-', ','.join(confset) or '-')

def model_store(o):
    f = o.split('\t')
    if len(f) != 3:
        return o
    ents = []
    if f[1] != '-':
        for item in f[1].split(';'):
            k, ev, v = item.split(':')
            ents.append((wire.dec(k), ev == '1', sorted(wire.dec_list(v))))
    return f[0] + ' ' + canon_store(sorted(ents, key=lambda e: e[0]), sorted(wire.dec_list(f[2])))

def canon_calls(calls):
    return ' | '.join('%s:%s:%s' % (p, ' '.join(c), json.dumps(a, ensure_ascii=True)) for (p, c, a) in calls) or '-'

def model_calls(field):
    if field == '-':
        return [], []
    out = []; paths = []
    for item in field.split('|'):
        path, p, c, a = item.split('/')
        paths.append(path)
        out.append((wire.dec(p), wire.dec_list(c), wire.dec_list(a)))
    return out, paths

def enc_tree(tokens):
    items = []
    def go(t):
        for x in t:
            if isinstance(x, list):
                items.append('L'); go(x); items.append('R')
            else:
                items.append('S' + wire.enc(x))
    go(tokens)
    return ','.join(items) or '-'

# --------------------------------------------------------------------------------------------
# generators
# --------------------------------------------------------------------------------------------
A_UNIQUE = {'r': ['rtwo', 'runi'], 'o': ['ouni'], 'w': ['wuni'], 'n': ['nuni'], 's': ['suni'], 'i': ['iuni'], 'j': ['juni'], 'x': ['xuni'], 'e': ['euni'],
            'y': ['yuni', 'yerr'], 'z': ['zuni', 'zarg'], 'q': ['quni', 'qsil']}
QUALIFIED_R = [['vtordera', 'rtwo'], ['vtordera', 'runi'], ['vtorderb', 'rbee'], ['vtorderc', 'rcee'], ['vtordera', 'both'], ['vtorderb', 'both'],
               ['vtordera', 'grp', 'rga'], ['vtorderc', 'grp', 'rgc'], ['vtorderb', 'rone'], ['VtOrderB', 'r-bee'], ['vtorder_a', 'RTwo'],
               ['rbee'], ['rcee'], ['rtwo'], ['grp', 'rga'], ['vtorderb', 'vtorderb'], ['vtordera', 'vtorderb'],
               ['vtordera', 'ouni'], ['ouni'], ['vtorderb', 'oemp'], ['vtordera', 'wuni'], ['wuni'], ['oemp']]
QUALIFIED_N = [['vtordera', 'nrep'], ['vtorderb', 'nrep'], ['vtorderc', 'nrep'], ['vtordera', 'nuni'], ['nuni'], ['vtordera', 'grp', 'nga'],
               ['vtordera', 'iuni'], ['iuni'], ['vtorderb', 'igno'], ['utilities', 'ignore']]
BARE = ['rone', 'rtwo', 'both', 'nrep', 'erro', 'sile', 'igno', 'jtag', 'xval', 'yerr', 'zarg', 'qsil', 'vtorderb', 'vtordera', 'vtorderc',
        'rbee', 'rcee', 'rdis', 'grp', 'rga', 'nga', 'sga', 'rgc', 'rsee', 'runi', 'nuni', 'suni', 'iuni', 'juni', 'xuni', 'euni', 'yuni', 'zuni',
        'quni', 'nosuch', 'ainvr', 'ainvn', 'ainve', 'ainvs', 'ainvx', 'ainvy', 'ainvi', 'ainvo', 'binvr', 'binve', 'binvs', 'binvx', 'binvn', 'cinvsr', 'cinvxr', 'cinvrn', 'cinvss', 'cinvxx', 'cinvye', 'cinvsn', 'echo', 'ignore', 'utilities', 'r-one', 'R_two', 'Both', 'misc', 'list', 'help', 'owner', 'rone_', 'vtordera-']
LITS = ['a', 'b c', 'x', '', '[', ']', 'é', 'rone', '|', '"q"', 'long-ish literal text', '7']

def command_kind(cmd):
    return cmd[-1].replace('-', '').replace('_', '').lower()[0]

class TreeGen(object):
    """trees whose nodes carry a unique id literal `#k` as first argument"""
    def __init__(self, r):
        self.r = r; self.k = 0
    def node(self, depth, pick, fan=(0, 1, 1, 2, 2, 3), p_sub=0.45):
        r = self.r
        cmd = pick()
        self.k += 1
        out = list(cmd) + ['#%d' % self.k]
        for _ in range(r.choice(fan)):
            if depth > 0 and r.random() < p_sub:
                out.append(self.node(depth - 1, pick, fan, p_sub))
            else:
                out.append(r.choice(LITS))
        return out

def gen_full(r, depth):
    g = TreeGen(r)
    def pick():
        return r.choice(QUALIFIED_R) if r.random() < 0.8 else r.choice(QUALIFIED_N)
    t = g.node(depth, pick)
    return t

def gen_mixed(r, depth):
    g = TreeGen(r)
    def pick():
        x = r.random()
        if x < 0.35: return r.choice(QUALIFIED_R)
        if x < 0.45: return r.choice(QUALIFIED_N)
        if x < 0.7:
            k = r.choice(list(A_UNIQUE))
            c = [r.choice(A_UNIQUE[k])]
            return (['vtordera'] + c) if r.random() < 0.3 else c
        if x < 0.9: return [r.choice(BARE)]
        if x < 0.95: return [r.choice(['vtordera', 'vtorderb', 'vtorderc', 'grp', 'utilities']), r.choice(BARE)]
        return [r.choice(BARE), r.choice(BARE)]
    t = g.node(depth, pick)
    if r.random() < 0.08:
        # an empty bracket pair or a bare sub-list somewhere
        t.insert(r.randint(0, len(t)), r.choice([[], [[]], [g.node(0, pick)]]))
    if r.random() < 0.05:
        t = [t]           # the whole line is one sub-command
    return t

def gen_deep(r, maxn):
    g = TreeGen(r)
    d = max(0, maxn + r.choice([-1, 0, 0, 1, 1, 2]))
    t = list(r.choice(QUALIFIED_R)) + ['#d0']
    cur = t
    for i in range(d):
        if r.random() < 0.4:
            cur.append(g.node(1, lambda: r.choice(QUALIFIED_R)))     # a left sibling that runs first
        nxt = list(r.choice(QUALIFIED_R)) + ['#d%d' % (i + 1)]
        cur.append(nxt)
        if r.random() < 0.3:
            cur.append(r.choice(LITS))
        cur = nxt
    return t

def gen_world(r, k):
    if k == 0:
        return dict(whenNotCommand=True, maxNesting=10, maxLen=131072, detailed=False, disabled=[], defaults={}, important=['Admin', 'Channel', 'Config', 'Misc', 'Owner', 'User'])
    dis = []
    for _ in range(r.choice([0, 0, 1, 2, 4])):
        c = r.choice(['rdis', 'both', 'rone', 'rtwo', 'nrep', 'rbee', 'rga', 'vtorderb', 'erro', 'list', 'rcee'])
        dis.append(c if r.random() < 0.4 else r.choice(['VtOrderA', 'VtOrderB', 'VtOrderC', 'grp', 'Misc']) + '.' + c)
    defaults = {}
    for _ in range(r.choice([0, 0, 1, 2, 3])):
        defaults[r.choice(['rone', 'both', 'nrep', 'igno', 'xval', 'jtag', 'sile', 'erro', 'rdis'])] = r.choice(['VtOrderA', 'VtOrderB', 'VtOrderC', 'vtorderb', 'Misc', 'NoSuch', ''])
    stale = None
    if r.random() < 0.35:
        # a stale default: the configured default plugin no longer offers the command (disabled there, or not a
        # loaded plugin / not having it), two other providers remain, exactly one of them important
        c = r.choice(['rone', 'both', 'nrep'])
        P = r.choice(['VtOrderA', 'VtOrderB', 'VtOrderC', 'NoSuch', 'Misc'])
        defaults[c] = P
        if P.startswith('VtOrder'):
            dis.append('%s.%s' % (P, c))
        stale = [x for x in ['VtOrderA', 'VtOrderB', 'VtOrderC'] if x != P]
    imp = r.choice([['Admin', 'Channel', 'Config', 'Misc', 'Owner', 'User']] * 2 + [[], ['VtOrderA'], ['VtOrderB', 'Misc'], ['vtorder_a', 'VtOrderC'], ['VtOrderA', 'VtOrderB', 'VtOrderC']])
    if stale is not None and r.random() < 0.8:
        imp = [r.choice(stale)] + r.choice([[], ['Misc'], ['Owner', 'Admin']])
    return dict(whenNotCommand=r.random() < 0.6, maxNesting=r.choice([10, 10, 1, 2, 3, 5]), maxLen=r.choice([131072, 131072, 131072, 40, 12, 3]),
                detailed=r.random() < 0.3, disabled=dis, defaults=defaults, important=imp)

# --------------------------------------------------------------------------------------------
# the property statement on the implementation
# --------------------------------------------------------------------------------------------
def quote(x):
    return '"' + x.replace('\\', '\\\\').replace('"', '\\"') + '"'

def render_line(r, tokens, top=True):
    """the line as a user types it: literals in double quotes (simple words sometimes bare), sub-commands in []"""
    out = []
    for x in tokens:
        if isinstance(x, list):
            out.append('[' + render_line(r, x, False) + ']')
        elif re.match(r'^[A-Za-z0-9_#-]+$', x) and r.random() < 0.6:
            out.append(x)
        else:
            out.append(quote(x))
    return ' '.join(out)

def postorder(tokens, path=()):
    """[(path, node)] of all sub-lists (the whole line included) in left-to-right post-order"""
    out = []
    for i, x in enumerate(tokens):
        if isinstance(x, list):
            out += postorder(x, path + (i,))
    out.append((path, tokens))
    return out

def node_id(node):
    for x in node:
        if isinstance(x, str) and x.startswith('#'):
            return x
    return None

def call_id(call):
    for a in call[2]:
        if re.match(r'^#d?[0-9]+$', a):
            return a
    return None

def ambiguous_expected(live, c):
    """the statement's notion of an ambiguous bare name, from the live objects: at least two loaded plugins
    have the enabled command `c`, nothing (plugin or command group) is called `c`, no default plugin
    resolves it, and the important plugins do not single out one candidate"""
    cn = live.cb.canonicalName
    dis = live.cb.Commands._disabled
    cands = [P for P in live.top if c in live.methods_cached(P) and not dis.disabled(c, P.name())]
    if len(cands) < 2:
        return False
    if any(P.canonicalName() == c for P in live.top) or any(sub.canonicalName() == c for P in live.top for sub in P.cbs):
        return False
    dp = live.conf.supybot.commands.defaultPlugins
    if c in dp._children:
        v = dp._children[c]()
        if v and live.plugin(v) in cands:
            return False
    imp = [cn(x) for x in dp.importantPlugins()]
    if len([P for P in cands if P.canonicalName() in imp]) == 1:
        return False
    return True

def oracle_ambiguous(live, res):
    for (p, c, a) in res['calls']:
        if len(c) == 1 and ambiguous_expected(live, c[0]):
            return False, 'the ambiguous bare name %r ran in plugin %s (args %r) instead of being reported' % (c[0], p, a)
    return True, ''

def oracle_resolvable(live, res):
    """a bare name that the configured default plugin (when that plugin still offers it) or exactly one important
    plugin singles out is NOT ambiguous: it must not be reported as such"""
    out = canon_result(res)
    if out.startswith('ambiguous\t'):
        c = out.split('\t')[1]
        if ' ' not in c and c == live.cb.canonicalName(c):
            dis = live.cb.Commands._disabled
            cands = [P for P in live.top if c in live.methods_cached(P) and not dis.disabled(c, P.name())]
            if len(cands) >= 2 and not ambiguous_expected(live, c):
                return False, ('the bare name %r is offered by %r; the default plugin / the important plugins single one out, '
                               'yet it was reported as ambiguous' % (c, [P.name() for P in cands]))
    return True, ''

def oracle_order(tokens, res, world):
    """at most once, inner first / left to right (= a prefix of the post-order), nothing deeper than the maximum"""
    ids = [node_id(n) for (_, n) in postorder(tokens)]
    depth = {node_id(n): len(p) for (p, n) in postorder(tokens)}
    ran = [call_id(c) for c in res['calls']]
    if res['crash']:
        return False, 'evaluation raised %s' % res['crash']
    if len(set(ran)) != len(ran):
        return False, 'a sub-command ran more than once: ids in call order %r' % (ran,)
    # nodes without an id (empty brackets ...) never run a command; compare on the ids that exist
    # a sub-command answered by an invalidCommand handler (first word ainv… / binv… / cinv…) runs no plugin
    # command: it never shows in the call log, evaluation goes on (or stops) as the handler decides
    handled = set(node_id(n) for (_, n) in postorder(tokens)
                  if n and isinstance(n[0], str) and re.match(r'^[abc]inv', n[0]))
    want = [i for i in ids if i is not None and i not in handled]
    if any(i is None for i in ran):
        return True, ''        # a call without id: the id token was consumed or popped; order not decidable here
    if not world.get('whenNotCommand', True):
        # an unknown sub-command is not an error then: inside brackets its own text comes back as its reply and
        # evaluation goes on without it — the calls are a sub-sequence of the post-order (order kept, none twice)
        it = iter(want)
        if not all(any(x == y for y in it) for x in ran):
            return False, 'calls are not a sub-sequence of the left-to-right post-order: ran %r, post-order %r' % (ran, want)
    elif ran != want[:len(ran)]:
        return False, 'calls are not a prefix of the left-to-right post-order: ran %r, post-order %r' % (ran, want)
    if world['maxNesting']:
        for i in ran:
            if depth.get(i, 0) > world['maxNesting']:
                return False, 'sub-command %s at nesting depth %d ran although the maximum is %d' % (i, depth[i], world['maxNesting'])
    if len(res['body_calls']) > len(res['calls']):
        return False, 'a command body ran %d times for %d dispatches' % (len(res['body_calls']), len(res['calls']))
    return True, ''

def flat(tokens):
    for x in tokens:
        if isinstance(x, list):
            for y in flat(x):
                yield y
        else:
            yield x

def valid_text(x):
    return '\r' not in x and '\n' not in x and '\0' not in x

def tree_depth(tokens):
    return max([0] + [1 + tree_depth(x) for x in tokens if isinstance(x, list)])

def ref_full(tokens, world):
    """what the statement requires for trees of qualified replying / non-replying commands:
    -> (calls in order as (command kind, id, args), final text or None)"""
    calls = []
    def ev(node):
        # command words = tokens before the id literal
        k = [i for i, x in enumerate(node) if isinstance(x, str) and x.startswith('#')][0]
        cmd = node[:k]
        args = []
        for x in node[k:]:
            if isinstance(x, list):
                v = ev(x)
                if v is not None:
                    args.append(v[:world['maxLen']])
            else:
                args.append(x)
        name = cmd[-1].replace('-', '').replace('_', '').lower()
        calls.append((name, args))
        if name[0] in 'ni' or name == 'ignore':
            return None
        if name[0] == 'o':
            return ''               # an empty reply is still a reply: it becomes an (empty) argument
        if name[0] == 'w':
            return '  '
        return '%s(%s)' % (name, ', '.join(args))
    v = ev(tokens)
    return calls, v

def oracle_full(tokens, res, world):
    if tree_depth(tokens) > world['maxNesting'] > 0:
        return True, ''
    calls, v = ref_full(tokens, world)
    got = [(c[1][-1], c[2]) for c in res['calls']]
    if got != calls:
        return False, 'call log differs from the post-order with sub-commands replaced by their replies: got %r, required %r' % (got, calls)
    out = canon_result(res)
    want = 'nomsg' if v is None else (('reply\t' + v) if v else 'error\tI tried to send you an empty message.')
    if len(v or '') < 300 and out != want:
        return False, 'final reply %r, required %r' % (out, want)
    return True, ''

# --------------------------------------------------------------------------------------------
# exploration
# --------------------------------------------------------------------------------------------
def full_applicable(world):
    """the `full` stream presupposes that its command table is not disabled"""
    return not world['disabled']

def explore(live, r, n_worlds, per_world, corpus=()):
    cases = []; lines = []; pend = []
    def add(case, line, post=None):
        cases.append(case); lines.append(line); pend.append((case, post))
    for wi in range(n_worlds):
        w = gen_world(r, wi)
        live.reorder(r, wi)
        w['order'] = [cb.name() for cb in live.b.irc.callbacks]
        live.set_world(w)
        for l in live.world_lines(w):
            lines.append(l); pend.append((None, None))
        winfo = dict(w)
        def add_eval(tokens, kind, check_full=False, ignored0=False, machine_only=False, net='A', history=None):
            res = live.run(tokens, private=False, ignored0=ignored0, unthreaded=machine_only, net=net)
            if ignored0:
                lines.append(live.cfg_line(w, True)); pend.append((None, None))
            ok, msg = oracle_order(tokens, res, w)
            if ok:
                ok, msg = oracle_ambiguous(live, res)
            if ok:
                ok, msg = oracle_resolvable(live, res)
            if ok and check_full:
                ok, msg = oracle_full(tokens, res, w)
            impl = cut_foreign(canon_result(res), res['calls'], '%d' % res['ignored'])
            tags = ['eval', canon_result(res).split('\t')[0], 'calls%d' % min(len(res['calls']), 4)]
            if any(isinstance(x, list) for x in tokens): tags.append('nested')
            if res['calls'] and any(c[0] == 'VtOrderC' for c in res['calls']): tags.append('threaded')
            fnd = FINDING_EXTRA if (not ok and in_extra_reply_class(res)) else None
            c = Case(dict(op='eval', tokens=tokens, world=winfo, _calls=[list(x) for x in res['calls']] if kind in ('dseq', 'dpseq') else None,
                          **(dict(net=net, history=[list(h) for h in history]) if history is not None else {})), impl=impl, oracle_ok=ok,
                     oracle_msg=('' if ok else 'tokens %r under %r: %s' % (tokens, winfo, msg)), kind=kind, tags=tags, finding=fnd)
            def post(o, c=c):
                f = o.split('\t@\t')
                if len(f) != 2:
                    return o
                log, ig = f[1].split('\t')
                mc, paths = model_calls(log)
                return cut_foreign(canon_model(f[0]), mc, ig)
            if not machine_only:
                add(c, 'eval\t' + enc_tree(tokens), post)
            else:
                c.impl = None; cases.append(c)
            # the same on the small-step machine (every message sent, in order)
            mimpl = cut_foreign(canon_msgs(res), res['calls'], '%d' % res['ignored'])
            mc = Case(dict(op='meval', tokens=tokens, world=winfo), impl=mimpl, kind=kind + '-m', tags=('meval',) + (('multi-msg',) if len(res['msgs']) > 1 else ()))
            def mpost(o):
                f = o.split('\t@\t')
                if len(f) != 2:
                    return o
                log, ig, fin = f[1].split('\t')
                mcalls, _ = model_calls(log)
                return cut_foreign(canon_machine(f[0]), mcalls, ig) + ('' if fin == 'done' else '\tFUEL')
            if machine_only and any(c_[0] == 'VtOrderC' for c_ in res['calls']):
                # a body that uses irc several times next to a threaded sub-command: the two threads race for the
                # enclosing proxy; which interleaving the real threads take is not the harness's to fix — not compared
                # (and run with the hand-off switched off, see Live.run: the real race can deadlock the process)
                mc.impl = None; mc.tags = mc.tags + ('racy-not-compared',)
            add(mc, 'meval\t' + enc_tree(tokens), mpost)
            if ignored0:
                lines.append(live.cfg_line(w, False)); pend.append((None, None))
        def add_feed(tokens):
            # end to end (C13 tokenizer + Owner.doPrivmsg + proxy): same calls and reply as the direct evaluation;
            # with supybot.commands.nested off the brackets are literal text: at most the line's own command runs
            if not tokens or not all(valid_text(x) for x in flat(tokens)):
                return
            text = render_line(r, tokens)
            direct = live.run(tokens)
            fed = live.feed(text)
            a = (canon_result(direct), canon_calls(direct['calls'])); bb = (canon_result(fed), canon_calls(fed['calls']))
            ok = (a == bb); msg = ''
            if not ok:
                msg = 'line %r: evaluation through doPrivmsg gives %r, evaluating its token tree %r gives %r' % (text, bb, tokens, a)
            else:
                live.conf.supybot.commands.nested.setValue(False)
                try:
                    off = live.feed(text)
                finally:
                    live.conf.supybot.commands.nested.setValue(True)
                if len(off['calls']) > 1:
                    ok = False; msg = 'nesting disabled, line %r: brackets were not literal text, calls %r' % (text, off['calls'])
            cases.append(Case(dict(op='feed', text=text, tokens=tokens, world=winfo), oracle_ok=ok, oracle_msg=msg, kind='feed',
                              tags=('feed', 'nested' if any(isinstance(x, list) for x in tokens) else 'flat')))
        for item in corpus:
            if 'tokens' in item:
                add_eval(item['tokens'], 'corpus', ignored0=item.get('ignored0', False))
        for _ in range(per_world.get('full', 0)):
            t = gen_full(r, r.randint(0, 4))
            add_eval(t, 'full', check_full=full_applicable(w))
        for _ in range(per_world.get('mixed', 0)):
            add_eval(gen_mixed(r, r.randint(0, 4)), 'mixed')
        for _ in range(per_world.get('feed', 0)):
            add_feed(gen_full(r, r.randint(0, 3)) if r.random() < 0.6 else gen_mixed(r, r.randint(0, 3)))
        for _ in range(per_world.get('multi', 0)):
            # command bodies that use irc more than once (reply twice, replies(), reply then error / noReply,
            # error then reply, replySuccess, queueMsg then reply, reply then raise): only the machine models these
            g = TreeGen(r)
            def pickm():
                x = r.random()
                if x < 0.45:
                    return r.choice([['duni'], ['muni'], ['cuni'], ['puni'], ['kuni'], ['uuni'], ['guni'], ['funi'], ['tuni'],
                                     ['vtorderb', 'dbee'], ['kbee'], ['vtorderb', 'pbee'], ['vtordera', 'duni']])
                if x < 0.8:
                    return r.choice([['rtwo'], ['vtorderb', 'rbee'], ['vtordera', 'nuni'], ['suni'], ['euni'], ['iuni'], ['juni'], ['xuni'],
                                     ['zuni'], ['ouni'], ['vtordera', 'grp', 'rga'], ['nosuch'], ['rone'], ['ainvr'], ['binvn']])
                return [r.choice(BARE)]
            add_eval(g.node(r.randint(0, 4), pickm), 'multi', machine_only=True)
        for _ in range(per_world.get('ign', 0)):
            # the message already carries the `ignored` tag (left by an earlier evaluation of the same message)
            add_eval(gen_mixed(r, r.randint(1, 3)), 'ign', ignored0=True)
        for _ in range(per_world.get('deep', 0)):
            add_eval(gen_deep(r, w['maxNesting']), 'deep', check_full=full_applicable(w))
        if per_world.get('dseq', 0):
            # sequences of REAL `disable` / `enable` commands (per plugin and global, interleaved) with the
            # statement tracked independently: a command disabled for P (or everywhere) and not enabled again never runs in P
            marks = set(); glob = set()
            cn = live.cb.canonicalName
            for (k, ev, v) in live.store_dump()[0]:
                if ev: glob.add(k)
                marks.update((p, k) for p in v)
            shared = ['rone', 'both', 'nrep', 'rbee', 'rtwo', 'erro', 'rdis', 'igno', 'r-one', 'Both', 'enable', 'nosuch']
            plug = ['VtOrderA', 'VtOrderB', 'VtOrderC', 'vtordera', 'VTORDERB', 'Misc']
            history = []
            last_marked = {}      # (plugin, command) -> index in history of the successful per-plugin disable
            script = [op for item in corpus if 'owner_commands' in item for op in item['owner_commands']] if wi == 0 else []
            for step in range(per_world['dseq'] + len(script)):
                if step < len(script):
                    w_ = script[step].split()
                    verb, P, c0 = w_[0], (w_[1] if len(w_) == 3 else None), w_[-1]
                else:
                    verb = r.choice(['disable', 'disable', 'enable'])
                    P = r.choice(plug) if r.random() < 0.65 else None
                    c0 = r.choice(shared)
                c = cn(c0)
                text = '%s %s%s' % (verb, (P + ' ') if P else '', c0)
                rep = live.owner_cmd(text)
                history.append([text, rep.split(':')[0]])
                impl = rep + ' ' + canon_store(*live.store_dump())
                if P is not None:
                    cbP = live.plugin(P)
                    idx = live.top.index(cbP)
                if verb == 'disable':
                    line = 'odisable\t%s\t%s' % ('~' if P is None else idx, wire.enc(c))
                else:
                    line = 'oenable\t%s\t%s' % ('~' if P is None else wire.enc(cbP.name()), wire.enc(c))
                if rep == 'ok':
                    if verb == 'disable':
                        if P is None:
                            glob.add(c)
                        else:
                            marks.add((cn(cbP.name()), c)); last_marked[(cn(cbP.name()), c)] = len(history) - 1
                    elif P is None:
                        glob.discard(c)          # what was said about single plugins stays (fix 8c1c1e9)
                    else:
                        marks.discard((cn(cbP.name()), c))
                add(Case(dict(op='owner', text=text, history=list(history), world=winfo), impl=impl, kind='dseq',
                         tags=('dseq', verb, 'plugin' if P else 'global', rep.split(':')[0])), line, model_store)
                for j in range(2):
                    g = TreeGen(r)
                    target = [m for m in sorted(marks) if m[1] == c] if j == 0 else []
                    def pick():
                        if target and r.random() < 0.7:
                            # aim at a plugin for which the command of the last operation is (still) recorded as disabled
                            m = r.choice(target)
                            return [m[0], m[1]]
                        cc = r.choice(shared[:8])
                        return [r.choice(['vtordera', 'vtorderb', 'vtorderc']), cc] if r.random() < 0.7 else [cc]
                    tokens = g.node(r.randint(0, 2), pick)
                    n_before = len(cases)
                    add_eval(tokens, 'dseq')
                    cse = cases[-1]
                    if cse.oracle_ok:
                        res_calls = cse.input.get('_calls', [])
                        for (pl, cmdw, a) in res_calls:
                            if (cn(pl), cmdw[-1]) in marks or cmdw[-1] in glob:
                                cse.oracle_ok = False
                                cse.oracle_msg = 'after the owner commands %r: %s.%s ran (args %r) although it is disabled and was not enabled again' % (history, pl, cmdw[-1], a)
                                cse.input['history'] = [list(h) for h in history]
                                if in_enable_class(history, last_marked.get((cn(pl), cmdw[-1]), -1), cmdw[-1], cn):
                                    cse.oracle_msg += ' (the defect repaired by fix 6f88b83: an errored global enable erased the per-plugin entry)'
                                break
                    cse.input.pop('_calls', None)
        if per_world.get('dpseq', 0):
            # the REAL `defaultplugin` command: set, change to another plugin without --remove, --remove, set again, query;
            # after every step the registry values, the dispatch of the bare name and who actually runs it are checked
            cn = live.cb.canonicalName
            chosen = {}            # statement level: command -> plugin the owner last (successfully) made the default
            hist = []
            cmds = ['rone', 'both', 'nrep', 'igno', 'erro', 'rdis', 'r-one', 'xval', 'jtag', 'sile', 'nosuch', 'rbee']
            # a few commands per world, so that remove / set again / change meet on the same command; now and then the
            # registry goes through its file (what a restart and `config reload` do): the defaults then come from the FILE
            cmds = r.sample(cmds, 3)
            removed = None
            for step in range(per_world['dpseq']):
                if step == 0 or r.random() < 0.12:
                    live.save_load(); hist.append([SAVE_LOAD, 'ok'])
                if removed is not None and r.random() < 0.6:
                    c0 = removed; x = 1.0       # the owner chooses again for the command whose default was just removed
                else:
                    c0 = r.choice(cmds); x = r.random()
                c = cn(c0); removed = None
                if x < 0.25:
                    text = 'defaultplugin --remove %s' % c0; rm = True; P = None
                elif x < 0.33:
                    text = 'defaultplugin %s' % c0; rm = False; P = None
                else:
                    P = r.choice(['VtOrderA', 'VtOrderB', 'VtOrderC', 'vtorderb', 'Misc']); rm = False
                    text = 'defaultplugin %s %s' % (c0, P)
                rep = live.owner_cmd(text)
                kind = rep if rep in ('ok', 'err') else 'val'
                hist.append([text, kind])
                impl = '%s # %s' % (('val:' + rep[6:]) if kind == 'val' else kind, ','.join('%s=%s' % e for e in live.defaults_dump()))
                idx = '~' if P is None else live.top.index(live.plugin(P))
                if kind == 'ok':
                    if rm: chosen.pop(c, None); removed = c0
                    elif P is not None: chosen[c] = live.plugin(P).name()
                def dpost(o):
                    f = o.split('\t')
                    if len(f) != 2: return o
                    ents = [] if f[1] == '-' else sorted(tuple(wire.dec(z) for z in e.split('=')) for e in f[1].split(','))
                    head = ('val:' + wire.dec(f[0][4:])) if f[0].startswith('val:') else f[0]
                    if head == 'val:':
                        head = 'err'          # an empty value is shown as _makeReply's "empty message" error
                    return '%s # %s' % (head, ','.join('%s=%s' % e for e in ents))
                add(Case(dict(op='owner', text=text, history=[list(h) for h in hist], world=winfo), impl=impl, kind='dpseq',
                         tags=('dpseq', 'remove' if rm else ('set' if P else 'query'), kind)), 'odefault\t%d\t%s\t%s' % (rm, wire.enc(c), idx), dpost)
                # who runs the bare name now?
                out, found = live.find([c])
                add(Case(dict(op='find', args=[c], history=[list(h) for h in hist], world=winfo), impl=out, kind='dpseq', tags=('dpseq', 'find')),
                    'find\t' + wire.enc_list([c]))
                g = TreeGen(r)
                tokens = g.node(0, lambda: [c])
                for tk in (tokens, ['vtordera', 'rtwo', '#1', [c, '#2', 'y']]):      # at top level and nested
                    add_eval(tk, 'dpseq', history=hist)
                    cse = cases[-2] if cases[-1].kind.endswith('-m') else cases[-1]
                    want = chosen.get(c)
                    if cse.oracle_ok and want is not None:
                        cbw = live.plugin(want)
                        still = c in live.methods_cached(cbw) and not live.cb.Commands._disabled.disabled(c, cbw.name())
                        ran = [pl for (pl, cmdw, a) in (cse.input.get('_calls') or []) if cmdw == [c]]
                        if still and ran != [want]:
                            cse.oracle_ok = False
                            cse.oracle_msg = 'after the owner commands %r the default plugin of %r is %s, but the bare command ran in %r' % (hist, c, want, ran)
                    cse.input.pop('_calls', None)
        if per_world.get('nets', 0):
            # two networks = two Irc objects over ONE list of plugins: bare and nested names evaluated on either, the real
            # `defaultplugin`, `reload`, `unload` + `load` given on either; the model knows no networks: the same line means
            # the same on both, whatever was done through the other one before
            hist = []
            cmdsn = r.sample(['rone', 'both', 'nrep', 'igno', 'rtwo', 'rbee', 'rcee', 'erro', 'rdis', 'xval', 'nosuch', 'jtag'], 3)
            def resync():
                live.refresh()
                for l in live.world_lines(w):
                    lines.append(l); pend.append((None, None))
            def probe():
                # Irc.getCallback(name) on either network is the loaded plugin of that name (dispatch resolves default plugins with it)
                for nn in 'AB':
                    for Q in SYN:
                        got = live.net(nn).getCallback(Q); ok = got is live.plugin(Q)
                        cases.append(Case(dict(op='getcallback', net=nn, name=Q, history=[list(h) for h in hist], world=winfo), oracle_ok=ok, kind='nets',
                                          oracle_msg='' if ok else 'after %r, getCallback(%r) on network %s gives an object that is not the loaded plugin (%r, in the list: %r)' % (
                                              hist, Q, nn, got, live.plugin(Q)), tags=('nets', 'getcallback')))
                        hist.append([GETCB_MARK + Q, 'loaded' if ok else 'NOT the loaded plugin', nn])
            probe()
            for _ in range(per_world['nets']):
                x = r.random(); net = r.choice('AB')
                if x < 0.18:
                    text = 'defaultplugin %s %s' % (r.choice(cmdsn), r.choice(SYN))
                    hist.append([text, live.owner_cmd(text, net=net), net]); resync()
                elif x < 0.42:
                    P = r.choice(SYN)
                    for text in (['reload ' + P] if r.random() < 0.7 else ['unload ' + P, 'load ' + P]):
                        rep = live.owner_cmd(text, net=net)
                        hist.append([text, rep, net])
                        if rep != 'ok':
                            raise RuntimeError('%r answered %r' % (text, rep))
                    resync()
                    probe()
                else:
                    c = r.choice(cmdsn)
                    tokens = [c, '#1'] if r.random() < 0.6 else ['vtordera', 'rtwo', '#1', [c, '#2', 'y'], [r.choice(cmdsn), '#3']]
                    add_eval(tokens, 'nets', net=net, history=hist)
                    hist.append([EVAL_MARK + json.dumps(tokens), cases[-2].impl if cases[-1].kind.endswith('-m') else cases[-1].impl, net])
        if per_world.get('dseq', 0):
            # what a restart would do: rebuild the store from supybot.commands.disabled; the live store must say the same
            before = live.store_dump()
            live.cb.Commands._disabled = live.cb.DisabledCommands()
            after = live.store_dump()
            ok = (before == after)
            c = Case(dict(op='restart', history=[list(h) for h in history], world=winfo), impl=canon_store(after[0], []), oracle_ok=ok, kind='dseq',
                     oracle_msg='' if ok else 'after the owner commands %r the live store %s differs from what the registry value gives at the next start %s' % (
                         history, canon_store(*before), canon_store(*after)), tags=('dseq', 'restart'))
            add(c, 'restart', lambda o: model_store('x\t' + o + '\t-').split(' ', 1)[1])
        names = sorted(set(BARE + [x for rec in live.records for x in rec[4][:6]] + [rec[2].lower() for rec in live.records]))
        def qualified():
            # a (possibly nested) plugin / group path followed by one of its methods
            rec = r.choice(live.records)
            path = []
            cur = rec
            while cur is not None:
                path.insert(0, cur[2])
                cur = live.records[cur[1]] if cur[1] is not None else None
            if r.random() < 0.3: path = path[1:]
            meth = r.choice(rec[4]) if rec[4] and r.random() < 0.85 else r.choice(names)
            return [r.choice([x, x.lower(), x.upper()]) for x in path] + [meth]
        for _ in range(per_world.get('disp', 0)):
            if r.random() < 0.45:
                args = qualified() + [r.choice(LITS) for _ in range(r.choice([0, 1, 2]))]
            else:
                args = [r.choice(names) if r.random() < 0.9 else r.choice(LITS) for _ in range(r.choice([1, 1, 2, 2, 3, 4]))]
            if r.random() < 0.02: args = []
            out, found = live.find(args)
            ok = True; msg = ''
            if found is not None:
                ok, msg = oracle_dispatch(live, args, found, w)
            c = Case(dict(op='find', args=args, world=winfo), impl=out, oracle_ok=ok, oracle_msg=msg, kind='disp',
                     tags=('find', 'n%d' % (len(found[1]) if found else -1), 'L%d' % (len(found[0]) if found else -1)))
            add(c, 'find\t' + wire.enc_list(args))
            i = r.randrange(len(live.top))
            cargs = [live.cb.canonicalName(a) for a in args]
            g = live.getcmd(i, cargs)
            add(Case(dict(op='getcmd', plugin=live.top[i].name(), args=cargs, world=winfo), impl=g, kind='disp',
                     tags=('getcmd', g.split('\t')[0])), 'getcmd\t%d\t%s' % (i, wire.enc_list(cargs)))
        for _ in range(per_world.get('canon', 0)):
            s = ''.join(r.choice('abAB-_ \tzZ09.é') for _ in range(r.randint(0, 8)))
            add(Case(dict(op='canon', s=s), impl=wire.enc(live.cb.canonicalName(s)), kind='canon', tags=('canon',)), 'canon\t' + wire.enc(s))
    return cases, lines, pend

def oracle_dispatch(live, args, found, w):
    """plugin-qualified names reach that plugin; disabled commands are never selected"""
    (maxL, cbs) = found
    cn = live.cb.canonicalName
    cargs = [cn(a) for a in args]
    dis = live.cb.Commands._disabled
    # a disabled command is never returned
    for cb in cbs:
        try:
            m = cb.getCommandMethod(maxL)
            owner = m.__self__
            if dis.disabled(maxL[-1], owner.name()):
                return False, 'args %r: disabled command %r of %s selected' % (args, maxL, owner.name())
        except Exception as e:
            return False, 'args %r: selected command %r has no method in %s (%s)' % (args, maxL, cb.name(), type(e).__name__)
    if len(cargs) >= 2:
        P = None
        for cb in live.top:
            if cb.canonicalName() == cargs[0]:
                P = cb
        if P is not None:
            c = cargs[1]
            has = (c in live.methods_of(P)) and not dis.disabled(c, P.name())
            rivals = [cb for cb in live.top for sub in cb.cbs if sub.canonicalName() == cargs[0]]
            own_groups = [sub for sub in P.cbs if sub.canonicalName() in (cargs[0], c)]
            if has and not rivals and not own_groups:
                if cbs != [P] or maxL != cargs[:2]:
                    return False, 'args %r: plugin-qualified command %s.%s not selected uniquely (got %r in %r)' % (
                        args, P.name(), c, maxL, [x.name() for x in cbs])
    return True, ''

def fill(cases, lines, pend):
    outs = wire.run_driver(PROPERTY, lines)
    for (c, post), o in zip(pend, outs):
        if c is None:
            if o != 'ok':
                raise RuntimeError('driver rejected a configuration line: %r' % o)
            continue
        c.model = post(o) if post else o
    return cases

def finding_status(live):
    st = {}
    for f in verdict.load_findings(PROPERTY):
        w = f.get('witness', {})
        if 'tokens' in w:
            live.set_world(gen_world(None, 0))
            res = live.run(w['tokens'])
            ok, msg = oracle_order(w['tokens'], res, gen_world(None, 0))
            st[f['id']] = (not ok, 'tokens %r: %s; calls %s; messages %s' % (w['tokens'], msg, canon_calls(res['calls']), canon_msgs(res)))
            continue
        if 'owner_commands' not in w:
            continue
        live.set_world(gen_world(None, 0))
        reps = [live.owner_cmd(t) for t in w['owner_commands']]
        res = live.run(w['then'])
        ran = bool(res['calls'])
        st[f['id']] = (ran and reps[-1] == 'err', 'owner commands %r answered %r, then %r ran: %s' % (w['owner_commands'], reps, w['then'], canon_calls(res['calls'])))
        live.set_world(gen_world(None, 0))
    return st

def load_corpus():
    try:
        return json.load(open(os.path.join(CORPUS, 'C14', 'cases.json')))
    except OSError:
        return []

QUICK = dict(full=30, mixed=60, multi=40, deep=10, feed=12, ign=6, disp=80, canon=10, dseq=8, dpseq=7, nets=9)

def run(ctx):
    build = leanbuild.ensure(PROPERTY, THEOREMS, thorough=ctx.thorough, extractors=['CanonicalName'])
    live = Live()
    r = rng.make('c14')
    n_worlds = 450 if ctx.thorough else 60
    try:
        clp = explore(live, r, n_worlds, QUICK, load_corpus())
        cases = fill(*clp) if build.driver_ok else clp[0]
    except Exception as e:
        # an exception out of the implementation's own code on a path the harness has no wrapper for is a failure of
        # the implementation (reported with the traceback), not an infrastructure failure
        import traceback
        tb = traceback.extract_tb(e.__traceback__)
        from vlib import REPO
        if not (tb and os.path.realpath(tb[-1].filename).startswith(os.path.realpath(REPO))):
            raise
        cases = [Case(dict(op='drive', where='%s:%d %s' % (tb[-1].filename, tb[-1].lineno, tb[-1].name)),
                      oracle_ok=False, kind='drive', tags=('drive',),
                      oracle_msg='driving the implementation raised %s: %s\n%s' % (type(e).__name__, e, ''.join(traceback.format_tb(e.__traceback__)[-4:])))]
    def search(disagreements, broken):
        import random
        rr = random.Random('%d/c14-search' % ctx.seed)
        seeds = [dict(tokens=d.input['tokens']) for d in disagreements[:50] if d.input.get('op') == 'eval']
        more, _, _ = explore(live, rr, 30, dict(full=40, mixed=80, multi=60, deep=10, feed=15, disp=80, dseq=12, dpseq=10), seeds)
        return [c for c in more if c.oracle_ok is False]
    return verdict.conclude(PROPERTY, ctx.tier, ctx.seed, build, cases, search=search, rule=RULE, trusted_base=TRUSTED,
                            finding_status=finding_status(live),
                            assumptions=['command bodies use their irc object at most once (reply / noReply / error / nothing / raise)',
                                         'command and plugin names are ASCII (canonicalName case folding)',
                                         'threaded commands are joined before the log is read (scheduling against other traffic is not modelled)',
                                         'trees with bodies that use irc several times run on the live bot with the thread hand-off switched off (two real threads in one evaluation can deadlock on the per-plugin locks, see the recorded finding); their schedules are covered by the machine theorems only',
                                         'invalidCommand handlers other than Misc\'s are abstract (the synthetic ones of VtOrderA/B answer by a behaviour letter)'],
                            t0=ctx.t0)

def replay(ctx, path):
    if not os.path.isabs(path) and not os.path.exists(path):
        path = os.path.join(VERIF, path)
    d = json.load(open(path))
    c = d.get('case') or d.get('first_disagreement')
    print(json.dumps(c, indent=1, ensure_ascii=True))
    if not c:
        return 0
    live = Live()
    i = c['input']
    if 'world' in i:
        live.set_world(i['world'])
    if i.get('op') == 'eval':
        for h in i.get('history', []):
            print('%s: %r -> %s (was %s)' % (h[2] if len(h) > 2 else 'A', h[0], live.relive(h), h[1]))
        res = live.run(i['tokens'], net=i.get('net', 'A'))
        print('implementation now: %s\n calls: %s' % (canon_result(res), canon_calls(res['calls'])))
        print('order oracle:', oracle_order(i['tokens'], res, i['world']))
        print('default / important plugins oracle:', oracle_resolvable(live, res))
    elif i.get('op') == 'find':
        for h in i.get('history', []):
            print('%s: %r -> %s (was %s)' % (h[2] if len(h) > 2 else 'A', h[0], live.relive(h), h[1]))
        print('implementation now:', live.find(i['args'])[0])
    elif i.get('op') == 'getcallback':
        for h in i.get('history', []):
            print('%s: %r -> %s (was %s)' % (h[2] if len(h) > 2 else 'A', h[0], live.relive(h), h[1]))
        got = live.net(i['net']).getCallback(i['name'])
        print('implementation now: getCallback(%r) on %s is the loaded plugin: %s' % (i['name'], i['net'], got is live.plugin(i['name'])))
    elif i.get('op') == 'getcmd':
        idx = [cb.name() for cb in live.top].index(i['plugin'])
        print('implementation now:', live.getcmd(idx, i['args']))
    return 0
