"""C15 — configuration values survive save/reload; bad values are rejected atomically; channel /
network specific values override the general one only locally and unset ones follow it.
Correspondence of lean/LimnoriaModel/C15/*.lean with src/registry.py (+ conf.py registration,
utils.str, utils.gen.safeEval, the Config plugin's set/reset paths) and the property oracle
evaluated on the implementation."""
import json, os, re, sys, time, warnings
warnings.simplefilter('ignore')
from vlib import wire, rng, leanbuild, verdict, bot, CORPUS
from vlib.verdict import Case

PROPERTY = 'C15'
MANIFEST = {
 'level_text': 'Lean 4 theorems, kernel-checked, about a model of the configuration registry, for all inputs: decoder(encoder(s)) = s and safeEval(repr(s)) = s for every string; String, StringSurroundedBySpaces, StringWithSpaceOnRight and NormalizedString (value level and through the wrapped continuation lines of the file; normalize idempotent) reload to the stored value for every string; Boolean and the Integer family reload to the saved value; OnlySomeStrings (tables of the conf.py subclasses extracted), guarded String validators, Json, the Float family and Regexp reload under stated contracts of their engines (parameters); space/comma separated lists reload for every list setValue accepts, the empty list included (list_roundtrip, after the fix: items the list syntax could not read back are refused); whatever registry.close writes for reader-safe names — header, help blocks, the "# Default value" line, one line per value — open_registry reads back with exactly the saved texts (file_always_loads); END TO END: a value tree in normal form (general / network / channel / network+channel levels, _wasSet flags, unset network nodes kept alive by a set channel) saved, read by a fresh process and rebuilt by the start-up registration loop is the same tree (save_load_roundtrip under the explicit Storable predicate, counter-example outside it); a rejected set/setValue at any level leaves every existing value and _wasSet flag unchanged, also for a validator that looks at another variable (SocketTimeout vs drivers.poll), and every set/setValue of registry.py, conf.py and plugins/*/config.py is shown (extracted obligation) to finish its checks before it stores; an accepted assignment changes what getSpecific answers only for probes of that network/channel; unset specific values answer the new general value; Config reset network/channel give the inherited value; lazy re-reading after open_registry in the running process never touches a node assigned since and is idempotent on what was saved; unescape(escape(n)) = n and split(join(ns)) = ns for every name list (after the fix of the escape-aware split); int() is modelled for every text incl. Unicode decimal digits; the surface syntax of m/.../ regexps (perlReToPythonRe) is modelled with only the re engine a parameter; a flush interleaved with operations of other threads is modelled (flush_quiet, counter-example = the one known finding C15-flush-interleaved-reset). Constants, tables and inventories are regenerated from /repo on every run and guarded by table lemmas; the model is tied to src/registry.py, conf.py and the Config plugin by a differential run (values, texts, hostile files, whole files, textwrap, name lists, validators, histories on a real tree incl. in-process re-reads, histories through the live Config plugin, a reject-atomicity sweep over every registered variable) that also evaluates the property statement on the implementation.',
 'level_note': 'Trusted: Lean kernel (axioms propext/Classical.choice/Quot.sound only); harness/extractors/registry.py (incl. the AST shape test "checks before store"); the correspondence harness (generator quality bounds what it sees). Parameters of the model: str.isprintable on non-ASCII characters (theorems hold for every such predicate; instantiated with the real one per case); textwrap.wrap of help texts (lines taken from the real function; NormalizedString wrapping itself is modelled); the predicates of the guarded validators (isNick, isUserHostmask, isIP, template regexp), json.loads/dumps, float()/repr(), perlReToPythonRe — each with the contract stated in its theorem. Modelled: unicode_escape encoder/decoder, repr(str), safeEval on a single plain string literal, String family set/setValue/__str__/serialize incl. NormalizedString word runs and line filling, Boolean, Integer/NonNegative/Positive, SocketTimeout, Space/Comma separated lists, OnlySomeStrings + conf tables, ValidPrefixChars, ValidQuotes, close() file layout, open_registry, escape/unescape/split/join, value tree (_wasSet, _setValue(inherited), _makeChild incl. cache lookup, getSpecific, Config set/reset paths, getValues order, registerChannelValue/registerNetworkValue start-up), lazy re-read layer (__call__ of stale nodes, str() calling the parent, save calling every listed node). NormalizedString is proved through the file incl. wrapping via a word-level form of textwrap.wrap (wrapWords); the chunk-level model of textwrap (_split_chunks/_wrap_chunks: wrapText) is PROVED equal to it on every text of blank-free words with single blanks and for every width (wrap_models_agree), so serialize is the chunk-level algorithm on every value (normalized_serialize_is_textwrap); both are also compared with the real textwrap on every run; end-to-end theorem is for trees in normal form (children sorted, unset leaves pruned) of the channel, network and global kinds, every class of the model (NormalizedString with its continuation lines; save_load_global excepts it). Outside the model: \\N{name} escapes, lone surrogates, texts handed to safeEval that are not one plain literal, regexps with a non-ASCII or backslash delimiter, float() parsing/printing (parameter).',
 'technique': 'Lean 4 proof (induction over strings / lists / tree states / start-up loop, invariants) + table and inventory extraction + differential correspondence',
 'design_ref': 'DESIGN.md §6 C15',
}
THEOREMS = ['C15.quotes_table_ok', 'C15.bool_table_ok', 'C15.lists_table_ok', 'C15.header_table_ok',
            'C15.codec_roundtrip', 'C15.repr_roundtrip', 'C15.string_roundtrip', 'C15.string_file_roundtrip',
            'C15.bool_roundtrip', 'C15.int_parse_print', 'C15.int_roundtrip',
            'C15.list_roundtrip', 'C15.comma_list_empty', 'C15.list_items_refused',
            'C15.reject_atomic', 'C15.reject_atomic_setValue', 'C15.getSpecific_sound', 'C15.override_local',
            'C15.follow_general', 'C15.fresh_child_inherits', 'C15.reset_network_follows', 'C15.file_always_loads',
            'C15.string_variants_roundtrip', 'C15.name_unescape_escape', 'C15.name_escape_roundtrip', 'C15.name_trailing_backslash',
            'C15.joined_name_ends_unescaped', 'C15.reset_channel_follows', 'C15.source_constants_ok',
            'C15.socket_timeout_verdict', 'C15.socket_timeout_reject_atomic',
            'C15.validators_check_before_store', 'C15.guarded_verdict', 'C15.guarded_string_roundtrip', 'C15.only_some_strings_roundtrip',
            'C15.json_roundtrip', 'C15.float_roundtrip', 'C15.regexp_roundtrip', 'C15.regexp_text_roundtrip',
            'C15.nw_table_ok', 'C15.normalized_value_roundtrip', 'C15.normalize_idempotent', 'C15.normalized_file_roundtrip', 'C15.wrap_models_agree', 'C15.normalized_serialize_is_textwrap',
            'C15.call_fresh_noop', 'C15.call_reread_same', 'C15.flush_quiet', 'C15.flush_interleaved_counterexample',
            'C15.save_load_roundtrip', 'C15.save_load_global', 'C15.save_load_counterexample', 'C15.rt_string', 'C15.rt_normalized', 'C15.rt_bool', 'C15.rt_int']
TRUSTED = ['Lean 4.33.0 kernel; axioms ⊆ {propext, Classical.choice, Quot.sound}',
           'harness/extractors/registry.py (constants of src/registry.py, utils/str.py, class inventory → Gen/Registry.lean)',
           'harness/c15.py generators + canonicalisation; hex line protocol',
           'parameter: str.isprintable on non-ASCII characters (instantiated with the real predicate)',
           'parameter: textwrap.TextWrapper._split_chunks (NormalizedString line wrapping) instantiated with the real function']
RULE = ('corpus of past failures / finding witnesses first, then seeded streams: (codec) strings rich in quotes/backslashes/blanks/": "/"#"/'
        'non-ASCII/controls through encoder, decoder, repr, literal evaluation, and the blank-character table; (value) accepted values of '
        'every modelled class through setValue, __str__, serialize (incl. NormalizedString wrapping, also of words that start with "#" or end in ":" so that continuation lines look like comments or keys), the real registry.close file, '
        'open_registry and a fresh registration; (text) arbitrary texts through set() incl. rejected ones; (file) hand-built hostile files '
        'through open_registry; (close) whole files with random defaults/help texts; (name) name lists through escape/join/split, '
        'isChannel, isValidRegistryName; (tree) histories of set/setValue/reset/get/save+load(+save again) on global, network and '
        'channel level against a real tree, with channels of every CHANTYPES prefix, channel names containing the name separator, channel names that differ under lower() but not under casefold(), set-to-the-current-value steps, two save/boot rounds, and the bot leaving one network for another between lookups (which networks are known is kept by the harness and handed to the model, not asked of world.getIrc); '
        '(tree-any) the same histories, property oracles only, over every value class (Regexp, Json, Float family, OnlySomeStrings, ...); '
        '(lazy) in-process re-reads incl. every order of reset/set/call/parent-set after a re-read; (live) the same through the commands of the real Config plugin on a live bot; (oracle-only) '
        'classes outside the model. A case is non-trivial when it carries at least one model-branch tag; distinct = distinct input; '
        'a history counts as one case.')

# ------------------------------------------------------------------------------------------
# alphabets
# ------------------------------------------------------------------------------------------
QUOTES = ['"', "'"]
HOT = ['"', "'", '\\', ' ', ' ', ': ', ':', '#', '.', ',', '-', '\t', '\n', '\r', '\x0b', '\x0c', '\x00', '\x1f', '\x7f',
       '\x85', '\xa0', 'é', 'ß', ' ', '　', '中', '😀', '͸', '﻿', 'a', 'b', 'Z', '0', '7', 'x', 'u', 'U', 'N', 'n',
       '{', '}', '_', '=', '%s', '$']
ESCAPES = ['\\n', '\\t', '\\\\', "\\'", '\\"', '\\x41', '\\x4', '\\xg1', '\\u00e9', '\\u12', '\\U0001F600', '\\U00110000',
           '\\ud800', '\\N{DIGIT ONE}', '\\N', '\\101', '\\7', '\\777', '\\400', '\\8', '\\q', '\\\n', '\\\r', '\\a', '\\b', '\\f', '\\v', '\\0']

def gen_str(r, maxlen=10, hot=0.6):
    n = r.choice([0, 1, 1, 2, 3, 4, 6, maxlen, maxlen * 2])
    out = []
    for _ in range(n):
        x = r.random()
        if x < hot:
            out.append(r.choice(HOT))
        else:
            out.append(r.choice('abcdefXYZ0189 '))
    return ''.join(out)

def gen_value_str(r):
    k = r.randint(0, 11)
    if k == 0:
        q = r.choice(QUOTES); return q + gen_str(r, 4) + q            # looks quoted
    if k == 1:
        return r.choice(['"', "'", '""', "''", "'a'", '"a"', '\'"', '"\'', "'\\'", '"\\"', "'a' 'b'", '"""a"""', "''''"])
    if k == 2:
        return r.choice([' ', '  ', '\t', '\n', '\xa0', ' a', 'a ', ' a ', '\ta', 'a\n', '\x85a', 'a '])
    if k == 3:
        return gen_str(r, 6) + '\\' * r.randint(1, 4)
    if k == 4:
        return r.choice(['a: b', ': ', ':', ' : ', '#x', '# ', 'a\\: b', 'k: v: w'])
    if k == 5:
        return ''.join(r.choice(ESCAPES + ['a', ' ']) for _ in range(r.randint(1, 4)))
    if k == 6:
        return gen_str(r, 40, hot=0.2)
    return gen_str(r)

def valid_unicode(s):
    try:
        s.encode('utf-8'); return True
    except UnicodeEncodeError:
        return False

def PR(*texts):
    """the printable non-ASCII characters occurring in the texts (instantiates the model's `pr`)"""
    return wire.enc(''.join(sorted({c for t in texts for c in t if ord(c) >= 128 and c.isprintable()})))

# ------------------------------------------------------------------------------------------
# wire forms shared with Drive.lean
# ------------------------------------------------------------------------------------------
def enc_val(v):
    if isinstance(v, bool): return 'b:1' if v else 'b:0'
    if isinstance(v, int): return 'i:%d' % v
    if isinstance(v, str): return 's:' + wire.enc(v)
    return 'l:' + wire.enc_list(v)

def enc_pairs(items):
    items = list(items)
    return '-' if not items else ','.join(wire.enc(k) + ':' + wire.enc(v) for k, v in items)

def canon_res(kind, s=None):
    return 'ok\t' + wire.enc(s) if kind == 'ok' else kind

def has_surrogate(s):
    return any(0xD800 <= ord(c) < 0xE000 for c in s)

SURR_RE = re.compile(r'\\(u|U0000)[dD][89a-fA-F]')
def unm_justified_codec(text):
    return '\\N' in text or bool(SURR_RE.search(text))

def first_close(t):
    """index of the first unescaped occurrence of t[0] after position 0 (None if there is none)"""
    q = t[0]; i = 1
    while i < len(t):
        if t[i] == '\\': i += 2; continue
        if t[i] == q: return i
        i += 1
    return None

def unm_justified_lit(t):
    if not t or t[0] not in '\'"':
        return True
    i = first_close(t.replace('\r\n', '\n'))
    if i is not None and i != len(t.replace('\r\n', '\n')) - 1:
        return True
    return unm_justified_codec(t)

# ------------------------------------------------------------------------------------------
# the run object: collects cases + driver lines
# ------------------------------------------------------------------------------------------
class Run(object):
    def __init__(self):
        self.cases = []; self.lines = []; self.pend = []; self.multi = []
    def add(self, case, line, post=None):
        """case.impl already set; the model output for `line` (through `post`) becomes case.model"""
        self.cases.append(case); self.lines.append(line); self.pend.append((case, post))
        return case
    def add_multi(self, case, lines, post):
        """a history: several driver lines, one case; `post(outs, case)` builds case.model"""
        self.cases.append(case)
        for i, l in enumerate(lines):
            self.lines.append(l); self.pend.append((None, None))
        self.multi.append((case, len(self.lines) - len(lines), list(lines), post))
    def add_oracle(self, case):
        self.cases.append(case); return case
    def fill(self):
        outs = wire.run_driver(PROPERTY, self.lines, timeout=1200)
        for (c, post), o in zip(self.pend, outs):
            if c is None:
                continue
            c.model = post(o, c) if post else o
        for (c, start, ls, post) in self.multi:
            c.model = post(outs[start:start + len(ls)], c, ls)
        return self.cases

def post_unm(justified):
    """a model answer `unm` (outside the modelled fragment) is accepted only when justified"""
    def f(o, c):
        if o == 'unm' and justified(c):
            c.tags = tuple(c.tags) + ('unm',)
            return None
        return o
    return f

# ------------------------------------------------------------------------------------------
# implementation access
# ------------------------------------------------------------------------------------------
class Impl(object):
    def __init__(self):
        bot.light()
        from supybot import registry, utils, ircutils, world
        import supybot.conf as conf
        self.registry = registry; self.utils = utils; self.ircutils = ircutils; self.world = world; self.conf = conf
        self.dir = bot.scratch()
        self.fn = os.path.join(self.dir, 'c15.conf')
        registry.error = lambda s: None
        self.exceptions = []
        registry.exception = lambda s: self.exceptions.append(s)
        R = registry
        self.classes = {
            'plain': R.String, 'surrounded': R.StringSurroundedBySpaces, 'spaceRight': R.StringWithSpaceOnRight,
            'normalized': R.NormalizedString, 'bool': R.Boolean, 'int': R.Integer, 'nonNeg': R.NonNegativeInteger,
            'pos': R.PositiveInteger, 'space': R.SpaceSeparatedListOfStrings, 'comma': R.CommaSeparatedListOfStrings,
            'spaceSet': R.SpaceSeparatedSetOfStrings, 'commaSet': R.CommaSeparatedSetOfStrings,
        }
    DEFAULTS = {'plain': '', 'surrounded': '', 'spaceRight': '', 'normalized': '', 'bool': False, 'int': 1, 'nonNeg': 1, 'pos': 1,
                'space': [], 'comma': [], 'spaceSet': [], 'commaSet': []}
    def new(self, k, default=None):
        d = self.DEFAULTS[k] if default is None else default
        return self.classes[k](d, 'help for a %s value' % k)
    def reset_cache(self):
        self.registry._cache.clear()
        self.registry._lastModified = 0
    def ue_dec(self, s):
        try:
            r = self.registry.decoder(s)[0]
        except UnicodeDecodeError:
            return 'bad'
        return 'unm' if has_surrogate(r) else canon_res('ok', r)
    def evallit(self, t):
        try:
            r = self.utils.safeEval(t)
        except ValueError:
            return 'bad'
        except Exception as e:
            return 'crash ' + type(e).__name__
        if not isinstance(r, str):
            return 'bad'
        return 'unm' if has_surrogate(r) else canon_res('ok', r)
    def set_text(self, node, text):
        """node.set(text) -> canonical result"""
        try:
            node.set(text)
        except self.registry.InvalidRegistryValue:
            return 'error'
        except Exception as e:
            return 'crash ' + type(e).__name__
        v = node.value
        if isinstance(v, str) and has_surrogate(v):
            return 'unm'
        return 'ok\t' + enc_val(canon_value(v))

def canon_value(v):
    if isinstance(v, (set, frozenset)):
        return sorted(v)
    if isinstance(v, (list, tuple)):
        return list(v)
    return v

MODEL_CLASS = {'spaceSet': 'space', 'commaSet': 'comma'}
def mcls(k): return MODEL_CLASS.get(k, k)
STR_CLASSES = ('plain', 'surrounded', 'spaceRight', 'normalized')
INT_CLASSES = ('int', 'nonNeg', 'pos')
LIST_CLASSES = ('space', 'comma', 'spaceSet', 'commaSet')

# ------------------------------------------------------------------------------------------
# known-finding classes (predicates)
# ------------------------------------------------------------------------------------------
def wrap_width(name):
    return 76 - (len(name) + 2)

def finding_of_value(k, name, stored):
    """the known-finding class an accepted value of class k falls in (None: every former class has been fixed)"""
    return None

def finding_of_names(names):
    """(the former class "a component ending in a backslash" has been fixed)"""
    return None

# ------------------------------------------------------------------------------------------
# streams
# ------------------------------------------------------------------------------------------

def stream_int_unicode(I, R, full):
    """int() of texts with non-ASCII characters: EVERY code point that is a decimal digit or a blank for CPython (and, in the
    thorough tier, every code point of the BMP) in four positions of a number, against the model's digit table"""
    reg = I.registry
    cps = [cp for cp in range(128, 0x110000) if not (0xD800 <= cp < 0xE000) and (chr(cp).isdecimal() or chr(cp).isspace() or chr(cp).isdigit() or chr(cp).isnumeric())]
    if full:
        cps = sorted(set(cps) | set(cp for cp in range(128, 0x10000) if not (0xD800 <= cp < 0xE000)))
    else:
        cps = sorted(set(cps) | set(cp for cp in range(128, 0x10000, 97) if not (0xD800 <= cp < 0xE000)))
    def one(text):
        node = reg.Integer(7, 'h')
        res = I.set_text(node, text)
        R.add(Case({'op': 'val_set', 'class': 'int', 'current': 7, 'text': text}, impl=res, kind='int-unicode',
                   tags=('int-unicode', 'intu-' + res.split('\t')[0])),
              'val_set\tint\t%s\t%s\t%s' % (wire.enc(''), enc_val(7), wire.enc(text)))
    for cp in cps:
        c = chr(cp)
        one(c); one('1' + c); one(c + '5'); one(' -' + c + '_' + c + ' ')
    for text in ['١٢٣', '-٣', '+３', '１_０', '٣_', '_٣', '٣ ', ' ٣ ', '٣٣' * 3, '߁0', '1²', '½', '१२३', '٣-', '٣\x1f']:
        one(text)


def stream_perlre(I, R, r, n):
    """utils.str.perlReToPythonRe: what it hands to re.compile (pattern text, flags), observed by wrapping re.compile"""
    import re as _re
    ustr = I.utils.str
    PIECES = ['m', 's', '/', '/', '#', '{', '}', '[', ']', '(', ')', '<', '>', '\\', '\\/', '\\#', '\\\\', '\\\n', '\n', 'a', 'b.c', 'x y', 'i', 'I', 'g', 'ms',
              'x', '~', '!', ',', ' ', '\\}', '\\{', 'é', '1', '|', '\\d+', '^$', 'İ']
    def real(text):
        calls = []
        orig = _re.compile
        def spy(pattern, flags=0):
            calls.append((pattern, int(flags)))
            return orig(pattern, flags)
        _re.compile = spy
        try:
            try:
                ustr.perlReToPythonRe(text)
            except ValueError:
                pass
            except Exception as e:
                return 'crash ' + type(e).__name__
        finally:
            _re.compile = orig
        if len(calls) >= 2:
            pat, fl = calls[-1]
            return 'ok\t%s\t%d' % (wire.enc(pat), fl)
        return 'bad'
    def post(o, c):
        if o == 'unm':
            t = c.input['text']
            sep = (t[1] if t[:1] in ('m', 's') else t[0]) if len(t) >= 2 else ''
            if sep and (ord(sep) > 127 or sep == '\\'): c.tags = tuple(c.tags) + ('unm',); return None
            if any(ord(ch) > 127 for ch in t): c.tags = tuple(c.tags) + ('unm',); return None
            return o
        if o.startswith('ok\t'):
            _, pat, fl = o.split('\t')
            num = 0
            for ch in wire.dec(fl): num |= int(getattr(_re, ch))
            return 'ok\t%s\t%d' % (pat, num)
        return o
    for _ in range(n):
        x = r.random()
        if x < 0.5:
            sep = r.choice(['/', '#', '!', '{', '[', '(', '<', ',', '~', '|', ' '])
            cl = {'{': '}', '[': ']', '(': ')', '<': '>'}.get(sep, sep)
            body = ''.join(r.choice(['a', 'b', '.', '\\' + sep, '\\' + cl, '\\\\', sep if r.random() < 0.15 else 'c', cl if r.random() < 0.15 else 'd', ' ', '\\d', '\n', '\\\n', 'é'])
                           for _ in range(r.randint(0, 6)))
            text = r.choice(['m', '', '', 's']) + sep + body + cl + r.choice(['', 'i', 'I', 'ms', 'x', 'g', 'iz', 'i\nzz', 'é', 'T', 'u'])
        else:
            text = ''.join(r.choice(PIECES) for _ in range(r.randint(0, 7)))
        if not valid_unicode(text): continue
        res = real(text)
        R.add(Case({'op': 'perlre', 'text': text}, impl=res, kind='perlre', tags=('perlre', 'perlre-' + res.split('\t')[0])),
              'perlre\t' + wire.enc(text), post)

def stream_wrap_exhaustive(I, R, maxwords):
    """textwrap.wrap(break_long_words=False, break_on_hyphens=False) against both wrap models on EVERY single-blank text
    made of up to `maxwords` words of length 1, 2, 3 or 5 (one of them hyphenated) and every width 1..7"""
    import itertools, textwrap
    WORDS = ['a', 'bb', 'c-c', 'ddddd']
    for k in range(0, maxwords + 1):
        for ws in itertools.product(WORDS, repeat=k):
            text = ' '.join(ws)
            for ww in range(1, 8):
                want = wire.enc_list(textwrap.wrap(text, width=ww, break_long_words=False, break_on_hyphens=False))
                R.add(Case({'op': 'wrapw', 'width': ww, 'text': text}, kind='codec', tags=('wrapw-exh',), impl=want), 'wrapw\t%d\t%s' % (ww, wire.enc(text)))
                R.add(Case({'op': 'wrap', 'width': ww, 'text': text}, kind='codec', tags=('wrap-exh',), impl=want), 'wrap\t%d\t%s' % (ww, wire.enc(text)))

def stream_codec(I, R, r, n):
    # the blank characters of str.strip()/split()/isspace() (carried by Py.isSpace in the model)
    for lo, hi in ((0, 0x3100), (0xfe00, 0x10000), (0x1fff0, 0x20010)):
        want = ' '.join(str(cp) for cp in range(lo, hi) if chr(cp).isspace())
        R.add(Case({'op': 'spaces', 'lo': lo, 'hi': hi}, impl=want, kind='codec', tags=('isspace-table',)), 'spaces\t%d\t%d' % (lo, hi))
    for _ in range(n):
        s = gen_value_str(r)
        if not valid_unicode(s):
            continue
        e = I.registry.encoder(s)[0].decode()
        d = I.ue_dec(e)
        ok = (d == canon_res('ok', s))
        R.add(Case({'op': 'ue_enc', 's': s}, impl=wire.enc(e), oracle_ok=ok, kind='codec', tags=('ue_enc',),
                   oracle_msg='' if ok else 'decoder(encoder(%r)) gives %s' % (s, d)), 'ue_enc\t' + wire.enc(s))
        t = s if r.random() < 0.5 else ''.join(r.choice(ESCAPES + ['a', ' ', 'é', '\\']) for _ in range(r.randint(0, 5)))
        d2 = I.ue_dec(t)
        tg = ['ue_dec', 'dec-' + d2.split('\t')[0]]
        if d2 == 'unm':
            R.add(Case({'op': 'ue_dec', 's': t}, impl=None, kind='codec', tags=tg), 'ue_dec\t' + wire.enc(t), lambda o, c: None)
        else:
            R.add(Case({'op': 'ue_dec', 's': t}, impl=d2, kind='codec', tags=tg), 'ue_dec\t' + wire.enc(t),
                  post_unm(lambda c: unm_justified_codec(c.input['s'])))
        if r.random() < 0.3:
            import textwrap
            wtext = ' '.join(r.choice(['a', 'bb', 'well-known', 'x' * r.randint(1, 12), '-', '--', 'q-', 'é', '\\\\']) for _ in range(r.randint(0, 12)))
            wtext = wtext.encode('unicode_escape').decode()
            ww = r.randint(1, 14)
            R.add(Case({'op': 'wrap', 'width': ww, 'text': wtext}, kind='codec', tags=('wrap',),
                       impl=wire.enc_list(textwrap.wrap(wtext, width=ww, break_long_words=False, break_on_hyphens=False))),
                  'wrap\t%d\t%s' % (ww, wire.enc(wtext)))
            R.add(Case({'op': 'wrapw', 'width': ww, 'text': wtext}, kind='codec', tags=('wrapw',),
                       impl=wire.enc_list(textwrap.wrap(wtext, width=ww, break_long_words=False, break_on_hyphens=False))),
                  'wrapw\t%d\t%s' % (ww, wire.enc(wtext)))
        rp = repr(s)
        back = I.evallit(rp)
        ok = (back == canon_res('ok', s))
        R.add(Case({'op': 'repr', 's': s}, impl=wire.enc(rp), oracle_ok=ok, kind='codec', tags=('repr',),
                   oracle_msg='' if ok else 'safeEval(repr(%r)) gives %s' % (s, back)), 'repr\t%s\t%s' % (PR(s), wire.enc(s)))
        # literal evaluation of quoted-looking and arbitrary texts
        q = r.choice(QUOTES)
        lit = r.choice([rp, q + t + q, q + s + q, t, q + t])
        if lit and valid_unicode(lit):
            ev = I.evallit(lit)
            if ev == 'unm':
                R.add(Case({'op': 'evallit', 's': lit}, impl=None, kind='codec', tags=('evallit', 'lit-unm')), 'evallit\t' + wire.enc(lit), lambda o, c: None)
            else:
                R.add(Case({'op': 'evallit', 's': lit}, impl=ev, kind='codec', tags=('evallit', 'lit-' + ev.split('\t')[0])),
                      'evallit\t' + wire.enc(lit), post_unm(lambda c: unm_justified_lit(c.input['s'])))

def gen_accepted(r, k):
    if k == 'normalized' and r.random() < 0.5:
        pool = ['alpha', 'be-ta', 'well-known-fact', 'x' * r.randint(1, 90), 'é', 'a\\b', '--', 'q-', '-', 'foo--bar', '\\' * r.randint(1, 5), gen_str(r, 5),
                '#limnoria', '#', '#x:', ':', 'k:', ': v']
        if r.random() < 0.3:
            # words that would mean something to the reader of the file when a continuation line starts with them
            pool = ['#limnoria', '#', '##c', '#x:', ':', 'vt.v1:', 'supybot.x:', 'word', 'é']
        words = [r.choice(pool) for _ in range(r.randint(1, 25))]
        return ' '.join(words)
    if k in STR_CLASSES:
        return gen_value_str(r)
    if k == 'bool':
        return r.random() < 0.5
    if k in INT_CLASSES:
        v = r.choice([0, 1, -1, 7, 10, 255, -4096, 10 ** 12, r.randint(-10 ** 6, 10 ** 6), r.randint(0, 10 ** 30)])
        if k == 'nonNeg': v = abs(v)
        if k == 'pos': v = abs(v) or 3
        return v
    # lists
    n = r.choice([0, 0, 1, 1, 2, 3, 5])
    def elt():
        x = r.random()
        if x < 0.70:   # separator-free, blank-free element
            return ''.join(r.choice('abcXYZ019#:.\\"\'é中-_=') for _ in range(r.randint(1, 6)))
        if x < 0.80: return ''
        return gen_value_str(r)
    return [elt() for _ in range(n)]

def gen_text_for(r, k):
    """texts for set(): mostly near the accepted syntax, some rejected"""
    if k in STR_CLASSES:
        x = r.random()
        if x < 0.4:
            q = r.choice(QUOTES)
            body = ''.join(r.choice(ESCAPES + ['a', ' ', 'é', q, '\\', '\n', '\r', '\x00', '"', "'"]) for _ in range(r.randint(0, 5)))
            return q + body + q
        return gen_value_str(r)
    if k == 'bool':
        w = r.choice(['true', 'false', 'on', 'off', 'enable', 'enabled', 'disable', 'disabled', '1', '0', 'toggle', 'yes', 'no', '', 'tru', 'TRUE', 'Toggle', 'oN', '10', 'é'])
        w = ''.join(c.upper() if r.random() < 0.2 else c for c in w)
        return r.choice(['', ' ', '\t', '\xa0', '\n']) + w + r.choice(['', ' ', '\n', ' ', 'x'])
    if k in INT_CLASSES:
        return r.choice(['', ' ', '\t', '\x0b', '\x1f']) + r.choice(['', '', '-', '+', '--', '- ']) + \
            ''.join(r.choice('0123456789' * 3 + '_ ax.') for _ in range(r.randint(0, 8))) + r.choice(['', '', ' ', '\n', '_', 'L'])
    return ''.join(r.choice(['a', 'b', ' ', ',', ', ', ' ,', '\t', '\xa0', '\x1f', '"', '\\', 'é', ',,', '  ']) for _ in range(r.randint(0, 10)))

def file_value_lines(text):
    return [l for l in text.split('\n') if l and not l.startswith('#')]

def _line_before(text, full):
    """the non-empty line of the file just above the value line of `full`"""
    ls = [l for l in text.split('\n') if l.strip() and not l.startswith('#')]
    for i, l in enumerate(ls):
        if l.startswith(full + ':'):
            return ls[i - 1] if i else None
    return None

def stream_values(I, R, r, nbatches, per_batch):
    """accepted values of every modelled class: setValue -> str/serialize -> real file -> fresh registration"""
    reg = I.registry
    keys = list(I.classes)
    for b in range(nbatches):
        I.reset_cache()
        root = reg.Group(); root.setName('vt')
        items = []
        for i in range(per_batch):
            k = r.choice(keys)
            v = gen_accepted(r, k)
            if isinstance(v, str) and not valid_unicode(v): continue
            if isinstance(v, list) and not all(valid_unicode(e) for e in v): continue
            name = 'v%d' % i
            if k == 'normalized' and r.random() < 0.1:
                name = 'v%d' % i + 'n' * r.choice([10, 40, 66, 70, 71, 72, 80])
            node = I.new(k)
            try:
                node.setValue(set(v) if k.endswith('Set') else v)
            except reg.InvalidRegistryValue:
                continue
            root.register(name, node)
            items.append([k, name, node, v])
        for it in items:
            node = it[2]
            try: ser = node.serialize()
            except Exception: ser = None
            it += [canon_value(node.value), str(node) if not it[0].endswith('Set') else None, ser]
        I.exceptions[:] = []
        reg.close(root, I.fn)
        text = open(I.fn, encoding='utf-8').read()
        write_exc = list(I.exceptions)
        # the reader on the real file
        try:
            reg.open_registry(I.fn, clear=True)
            cache = [(k_, v_) for (k_, v_) in reg._cache.items()]
            rd = 'ok\t' + enc_pairs(cache) if not any(has_surrogate(v_) for _, v_ in cache) else 'unm'
        except reg.InvalidRegistryFile:
            rd = 'invalid'; cache = None
        R.add(Case({'op': 'read', 'text': text}, impl=rd, kind='value', tags=('read-' + rd.split('\t')[0],)),
              'read\t' + wire.enc(text), post_unm(lambda c: unm_justified_codec(c.input['text'])))
        lines = file_value_lines(text)
        root2 = reg.Group(); root2.setName('vt')
        for (k, name, node, v, stored, node_str, ser) in items:
            full = 'vt.' + name
            inp = {'op': 'value', 'class': k, 'name': full, 'value': v}
            fid = finding_of_value(k, full, stored)
            mk = mcls(k)
            pr = PR(*(stored if isinstance(stored, list) else [stored] if isinstance(stored, str) else []))
            # setValue normalisation
            if k in STR_CLASSES:
                R.add(Case(dict(inp, op='str_sv'), impl=wire.enc(stored), kind='value', tags=('sv-' + k,) + (('sv-changed',) if stored != v else ())),
                      'str_sv\t%s\t%s' % (k, wire.enc(v)))
            # __str__ and serialize
            if not k.endswith('Set'):
                R.add(Case(dict(inp, op='val_str'), impl=wire.enc(node_str), kind='value',
                           tags=('str-' + k,) + (('quoted',) if k in STR_CLASSES and node_str != stored else ())),
                      'val_str\t%s\t%s\t%s' % (mk, pr, enc_val(stored)))
                if k == 'normalized':
                    esc = I.registry.encoder(node_str)[0].decode()
                    R.add(Case(dict(inp, op='ns_ser'), impl='raise' if ser is None else wire.enc(ser), kind='value',
                               tags=('ns-ser', 'ns-lines%d' % min(3, (ser or '').count('\n') + 1)) + (('ns-raise',) if ser is None else ())),
                          'ns_ser\t%s\t%s' % (wire.enc(full), wire.enc(esc)))
                if ser is not None and (k != 'normalized' or '\n' not in ser):
                    R.add(Case(dict(inp, op='val_ser'), impl=wire.enc(ser), kind='value', tags=('ser-' + k,)),
                          'val_ser\t%s\t%s\t%s' % (mk, pr, enc_val(stored)))
            # reload: fresh node registered against the cache read from the file
            node2 = I.new(k)
            outcome = None
            if cache is None:
                # some value of the batch made the file unloadable: find out whether it is this one
                st_, after_, text_ = reload_value(I, k, name, set(v) if k.endswith('Set') else v)
                if after_ != st_:
                    outcome = '%s (alone in a file: %r)' % (after_ if isinstance(after_, str) and after_ in ('file does not load', 'rejected at reload', 'not written') else 'reloaded as %r' % (after_,), file_value_lines(text_))
            else:
                try:
                    root2.register(name, node2)
                    after = canon_value(node2.value)
                    if not any(kk.lower() == full.lower() for kk, _ in cache):
                        outcome = 'its line is missing from what open_registry read from the file (the line written before it: %r; write raised: %s); reloaded as %r' % (
                            _line_before(text, full), write_exc[:1], after)
                    elif after != stored:
                        outcome = 'reloaded as %r' % (after,)
                except reg.InvalidRegistryValue as e:
                    outcome = 'reload rejected the stored text: %s' % e
            collateral = ()
            if outcome is not None and fid is None and cache is not None and any(finding_of_value(k_, 'vt.' + n_, st_) for (k_, n_, _, _, st_, _, _) in items):
                # another value of this file is in a known-finding class (a wrapped NormalizedString can end in a
                # dangling continuation and swallow the next line): is this value at fault when saved alone?
                st1, after1, _ = reload_value(I, k, name, set(v) if k.endswith('Set') else v)
                if after1 == st1:
                    outcome = None; collateral = ('collateral-of-finding',)
            c = Case(dict(inp, op='roundtrip', stored=stored), oracle_ok=(outcome is None), kind='value', finding=fid,
                     oracle_msg='' if outcome is None else 'value %r of %s saved as %r: %s' % (stored, k, [l for l in lines if l.startswith(full + ':')][:1], outcome),
                     tags=('roundtrip-' + k,) + (('in-finding-class',) if fid else ()) + collateral)
            R.add_oracle(c)
            # the cached text through set(): model vs implementation
            if cache is not None and not k.endswith('Set'):
                raw = dict((kk.lower(), vv) for kk, vv in cache).get(full.lower())
                if raw is not None and not has_surrogate(raw):
                    node3 = I.new(k)
                    res = I.set_text(node3, raw)
                    R.add(Case(dict(inp, op='val_set', text=raw), impl=res, kind='value', tags=('reload-set-' + k,)),
                          'val_set\t%s\t%s\t%s\t%s' % (mk, PR(raw), enc_val(canon_value(I.new(k).value)), wire.enc(raw)),
                          post_unm(lambda c: c.input['class'] in STR_CLASSES and unm_justified_lit(c.input['text'])))

def stream_texts(I, R, r, n):
    """arbitrary texts through set(): accepted or rejected; a rejection leaves the value in force"""
    keys = [k for k in I.classes if not k.endswith('Set')]
    reg = I.registry
    for _ in range(n):
        k = r.choice(keys)
        text = gen_text_for(r, k)
        if not valid_unicode(text): continue
        node = I.new(k)
        prev = gen_accepted(r, k)
        try:
            node.setValue(prev)
        except reg.InvalidRegistryValue:
            continue
        before = canon_value(node.value); before_set = node._wasSet
        res = I.set_text(node, text)
        after = canon_value(node.value)
        ok = True; msg = ''
        if res == 'error' and (after != before or node._wasSet != before_set):
            ok = False; msg = 'set(%r) on %s was rejected but the value changed from %r to %r' % (text, k, before, after)
        if res.startswith('crash'):
            ok = False; msg = 'set(%r) on %s raised %s instead of InvalidRegistryValue' % (text, k, res)
        tg = ['set-' + k, 'set-' + res.split('\t')[0]]
        c = Case({'op': 'val_set', 'class': k, 'current': before, 'text': text}, impl=None if res == 'unm' else res,
                 oracle_ok=ok, oracle_msg=msg, kind='text', tags=tg)
        just = (lambda c: True) if res == 'unm' else \
               (lambda c: (c.input['class'] in STR_CLASSES and unm_justified_lit(strset_text(c.input['class'], c.input['text'])))
                          or (c.input['class'] in INT_CLASSES and len(c.input['text']) > 4000))
        R.add(c, 'val_set\t%s\t%s\t%s\t%s' % (k, PR(text), enc_val(before), wire.enc(text)),
              (lambda o, c: None) if res == 'unm' else post_unm(just))

def strset_text(k, text):
    """the text String.set would hand to safeEval when it is taken literally"""
    if k == 'normalized':
        from supybot import utils
        text = utils.str.normalizeWhitespace(text.strip())
    return text if (text and text[0] == text[-1] and text[0] in '\'"') else "''"

def stream_files(I, R, r, n):
    """hostile hand-built files through open_registry (reader totality and correspondence)"""
    reg = I.registry
    PIECES = ['a', 'b.c', 'supybot.x', ': ', ':', ' ', '\\', '\\\\', '\n', '\n', '\r\n', '\r', '#', '# c\n', '\\:', '\\.', '\\x41', '\\x4', '\\n',
              'é', '  ', '\t', '\\\n', '\\\\\n', ': v\n', 'k: v\n', 'K: w\n', '\x0b', '\x1c', '\\N{DIGIT ONE}', '\\ud800', "'", '"']
    for _ in range(n):
        text = ''.join(r.choice(PIECES) for _ in range(r.randint(0, 14)))
        with open(I.fn, 'w', encoding='utf-8', newline='') as f:
            f.write(text)
        I.reset_cache()
        ok = True; msg = ''
        try:
            reg.open_registry(I.fn, clear=True)
            cache = list(reg._cache.items())
            rd = 'ok\t' + enc_pairs(cache) if not any(has_surrogate(v_) for _, v_ in cache) else 'unm'
        except reg.InvalidRegistryFile:
            rd = 'invalid'
        except Exception as e:
            rd = 'crash ' + type(e).__name__
            ok = False; msg = 'open_registry raised %s on %r' % (type(e).__name__, text)
        tg = ('file-' + rd.split('\t')[0],) + (('continuation',) if '\\\n' in text else ())
        R.add(Case({'op': 'read', 'text': text}, impl=None if rd == 'unm' else rd, oracle_ok=ok, oracle_msg=msg, kind='file', tags=tg),
              'read\t' + wire.enc(text), (lambda o, c: None) if rd == 'unm' else post_unm(lambda c: unm_justified_codec(c.input['text'])))

def gen_name(r):
    k = r.randint(0, 9)
    if k == 0: return r.choice(['#chan', ':net', '#a.b', ':n:m', '#foo\\', 'a\\', '\\', 'a\\.b', 'a\\:b', '#é', '.', ':', '..', 'a.', '.a'])
    return ''.join(r.choice(['a', 'b', 'Z', '0', '.', ':', '\\', '#', 'é', '中', '-', '_', '\x7f', '\t', 'n', 'x41']) for _ in range(r.randint(1, 6)))

def stream_names(I, R, r, n):
    reg = I.registry
    for _ in range(n):
        names = [gen_name(r) for _ in range(r.choice([1, 1, 2, 3, 4]))]
        for nm in names[:2]:
            e = reg.escape(nm)
            R.add(Case({'op': 'esc', 'name': nm}, impl=wire.enc(e), kind='name', tags=('esc',)), 'esc\t' + wire.enc(nm))
            try:
                u = canon_res('ok', reg.unescape(nm));
                if has_surrogate(reg.unescape(nm)): u = None
            except UnicodeDecodeError:
                u = 'bad'
            R.add(Case({'op': 'unesc', 'name': nm}, impl=u, kind='name', tags=('unesc',)), 'unesc\t' + wire.enc(nm),
                  post_unm(lambda c: unm_justified_codec(c.input['name'])))
        j = reg.join(names)
        try:
            back = reg.split(j)
        except Exception as e:
            back = 'raised %s' % type(e).__name__
        ok = (back == names)
        fid = finding_of_names(names[:-1]) if not ok else finding_of_names(names[:-1])
        R.add(Case({'op': 'join', 'names': names}, impl=wire.enc(j), oracle_ok=ok, kind='name', finding=fid,
                   oracle_msg='' if ok else 'split(join(%r)) = %r' % (names, back),
                   tags=('join', 'n%d' % len(names)) + (('in-finding-class',) if fid else ())), 'join\t' + wire.enc_list(names))
        nm = r.choice(['#', '&', '!', '+', '', 'a']) + gen_name(r) + r.choice(['', '', ' ', '\n', ',x', '\x07', 'c' * 50])
        R.add(Case({'op': 'ischannel', 'name': nm}, impl='1' if I.ircutils.isChannel(nm) else '0', kind='name', tags=('ischannel',)),
              'ischannel\t' + wire.enc(nm))
        R.add(Case({'op': 'validname', 'name': nm}, impl='1' if I.registry.isValidRegistryName(nm) else '0', kind='name', tags=('validname',)),
              'validname\t' + wire.enc(nm))
        t = j if r.random() < 0.6 else gen_name(r) + '.' + gen_name(r)
        try:
            sp = reg.split(t)
            si = 'ok\t' + wire.enc_list(sp) if not any(has_surrogate(x) for x in sp) else None
        except UnicodeDecodeError:
            si = 'fail'
        R.add(Case({'op': 'split', 'name': t}, impl=si, kind='name', tags=('split',)), 'split\t' + wire.enc(t),
              lambda o, c: None if (o == 'fail' and c.impl is None) else o)



HELPS = ['help', 'a help text\nwith a newline', 'x' * 90, 'tab\there and \x85 and   and é', '  leading', '# hash', 'w ' * 70,
         'well-known hyphen-ated words ' * 4, 'back\\slash \\n', '']

def stream_close(I, R, r, n):
    """whole files: several values with random defaults and help texts through registry.close; the model renders
    the same file (help wrapped by the real textwrap = parameter); the real reader must accept it"""
    import textwrap
    reg = I.registry
    keys = [k for k in I.classes if not k.endswith('Set') and k != 'normalized']
    for _ in range(n):
        I.reset_cache()
        root = reg.Group(); root.setName('vt')
        specs = []; items = []
        for i in range(r.randint(1, 6)):
            k = r.choice(keys)
            d = gen_accepted(r, k); v = gen_accepted(r, k)
            if r.random() < 0.3:
                d = r.choice(['a\nb', 'x\rvt.other: injected', '\n', 'é\n# c', 'a\\']) if k in STR_CLASSES else d
            if not all(valid_unicode(t) for t in ([d] if isinstance(d, str) else d if isinstance(d, list) else []) + ([v] if isinstance(v, str) else v if isinstance(v, list) else [])):
                continue
            h = r.choice(HELPS)
            show = r.random() < 0.8
            try:
                node = I.classes[k](d, h, showDefault=show)
                node.setValue(v)
                root.register('v%d' % i, node)
            except reg.InvalidRegistryValue:
                continue
            stored = canon_value(node.value)
            dnode = I.classes[k](d, h)
            dstored = canon_value(dnode.value)
            wrapped = textwrap.wrap(node._help) if node.help() else None
            specs.append('%s;%s;%s;%s;%s' % (k, wrire_enc('vt.v%d' % i), enc_val(stored),
                                              '~' if wrapped is None else wire.enc_list(wrapped),
                                              enc_val(dstored) if show and wrapped is not None else '~'))
            items.append((k, 'vt.v%d' % i, stored, d, h))
        I.exceptions[:] = []
        reg.close(root, I.fn)
        text = open(I.fn, encoding='utf-8', newline='').read()
        ok = True; msg = ''
        try:
            reg.open_registry(I.fn, clear=True)
            cache = dict((kk.lower(), vv) for kk, vv in reg._cache.items())
            extra = sorted(set(cache) - set(nm.lower() for _, nm, _, _, _ in items))
            if extra:
                ok = False; msg = 'loading the saved file assigns variables that were not saved: %r' % extra
        except reg.InvalidRegistryFile as e:
            ok = False; msg = 'the saved file does not load: %s' % e
        if I.exceptions:
            ok = False; msg = 'registry.close swallowed an exception: %r' % I.exceptions[:1]
        allv = [x for it in items for x in ([it[2]] if isinstance(it[2], str) else it[2] if isinstance(it[2], list) else [])] + \
               [x for it in items for x in ([it[3]] if isinstance(it[3], str) else it[3] if isinstance(it[3], list) else [])]
        c = Case({'op': 'close', 'values': [{'class': k, 'name': nm, 'value': st, 'default': d, 'help': h} for k, nm, st, d, h in items]},
                 impl=wire.enc(text), oracle_ok=ok, oracle_msg=msg, kind='close',
                 tags=('close', 'n%d' % len(items)) + (('default-newline',) if any(isinstance(it[3], str) and ('\n' in it[3] or '\r' in it[3]) for it in items) else ()))
        R.add(c, 'close\t%s\t%s' % (PR(*allv), '|'.join(specs) if specs else '-'))

def wrire_enc(s): return wire.enc(s)


# ------------------------------------------------------------------------------------------
# classes outside the Lean model: property oracle only (save with the real writer, load with the
# real reader, register a fresh node of the same class)
# ------------------------------------------------------------------------------------------
def _json_value(r, depth=0):
    k = r.randint(0, 7 if depth < 2 else 4)
    if k == 0: return r.choice([None, True, False])
    if k == 1: return r.randint(-1000, 1000)
    if k == 2: return r.choice([0.5, 1e30, -2.25])
    if k in (3, 4): return gen_value_str(r)
    if k == 5: return [_json_value(r, depth + 1) for _ in range(r.randint(0, 3))]
    return dict((gen_str(r, 3), _json_value(r, depth + 1)) for _ in range(r.randint(0, 3)))

def oracle_classes(I):
    R_ = I.registry; conf = I.conf
    class Tmpl(R_.TemplatedString):
        requiredTemplates = ['foo']
    class Some(R_.OnlySomeStrings):
        validStrings = ('A', 'b c', '"q"', "'", '', 'x\\')
    def fl(r): return r.choice([0.0, -0.0, 0.1, 1.5, -3.25, 1e300, 1e-300, float('inf'), 123456789.123456789, r.uniform(-1e6, 1e6)])
    def pfl(r): return abs(fl(r)) or 1.0
    def prob(r): return r.choice([0.0, 1.0, 0.5, r.random()])
    def rx(r): return r.choice(['', 'm/a.b/i', '/x y/', 'm#a/b#', '/\\d+\\// ', 'm/é/', '/a: b/', "/'/", '/"/', 'm/  /s'])
    def tmpl(r): return gen_value_str(r) + r.choice(['$foo', '${foo}']) + gen_value_str(r)
    def some(r): return r.choice(Some.validStrings)
    def nick(r): return r.choice(['foo', 'a[b]', 'x\\', '`q`', 'n|k', '{x}', 'A-1', '^_^'])
    def chan(r): return r.choice(['#c', '#a,key', '&x', '#é', '#"', "#'", '#x\\', '#a:b', '#c,k,'[:6]])
    def chans(r): return [r.choice(['#c', '#d,key', '&x', '#E', '#"']) for _ in range(r.randint(0, 3))]
    def pchars(r): return ''.join(r.choice('`~!@#$%^&*()_-+=[{}]\\|\'";:,<.>/?') for _ in range(r.randint(0, 4)))
    def quotes(r): return ''.join(r.choice('"`\'') for _ in range(r.randint(0, 3)))
    def brackets(r): return r.choice(conf.ValidBrackets.validStrings)
    def banmask(r): return [r.choice(['exact', 'nick', 'user', 'host']) for _ in range(r.randint(1, 3))]
    def nets(r): return [r.choice(['libera', 'oftc', 'Net2']) for _ in range(r.randint(0, 3))]
    def ips(r): return [r.choice(['127.0.0.1', '::1', '10.0.0.7']) for _ in range(r.randint(0, 3))]
    def hostmask(r): return r.choice(['a!b@c', '*!*@*.example.org', 'n!~u@h', 'x!y@"'])
    out = [
        ('Float', lambda: R_.Float(0.0, 'h'), fl, 'value'),
        ('PositiveFloat', lambda: R_.PositiveFloat(1.0, 'h'), pfl, 'value'),
        ('Probability', lambda: R_.Probability(0.5, 'h'), prob, 'value'),
        ('Regexp', lambda: R_.Regexp('', 'h'), rx, 'text'),
        ('Json', lambda: R_.Json({}, 'h'), _json_value, 'value'),
        ('TemplatedString', lambda: Tmpl('$foo', 'h'), tmpl, 'value'),
        ('OnlySomeStrings', lambda: Some('A', 'h'), some, 'value'),
        ('conf.ValidNick', lambda: conf.ValidNick('x', 'h'), nick, 'value'),
        ('conf.ValidChannel', lambda: conf.ValidChannel('#x', 'h'), chan, 'value'),
        ('conf.SpaceSeparatedSetOfChannels', lambda: conf.SpaceSeparatedSetOfChannels([], 'h'), chans, 'value'),
        ('conf.ValidPrefixChars', lambda: conf.ValidPrefixChars('', 'h'), pchars, 'value'),
        ('conf.ValidQuotes', lambda: conf.ValidQuotes('"', 'h'), quotes, 'value'),
        ('conf.ValidBrackets', lambda: conf.ValidBrackets('[]', 'h'), brackets, 'value'),
        ('conf.Banmask', lambda: conf.Banmask(['host'], 'h'), banmask, 'value'),
        ('conf.Networks', lambda: conf.Networks([], 'h'), nets, 'value'),
        ('conf.ListOfIPs', lambda: conf.ListOfIPs([], 'h'), ips, 'value'),
        ('conf.ValidHostmask', lambda: conf.ValidHostmask('a!b@c', 'h'), hostmask, 'value'),
    ]
    return out

def observe(node):
    """what the property compares: the value as users of the variable see it"""
    v = node.value
    if hasattr(v, 'pattern'):
        return ('re', v.pattern, v.flags)
    if isinstance(v, tuple) and len(v) == 2 and hasattr(v[1], 'pattern'):
        return ('re', v[0], v[1].pattern, v[1].flags)
    if isinstance(v, float):
        return repr(v)
    if isinstance(v, (set, frozenset)) or type(v).__name__ == 'IrcSet':
        return sorted(v)
    if isinstance(v, list):
        return list(v)
    return v

def stream_oracle_only(I, R, r, n):
    reg = I.registry
    OC = oracle_classes(I)
    for _ in range(n):
        name, mk, gen, how = r.choice(OC)
        v = gen(r)
        I.reset_cache()
        root = reg.Group(); root.setName('vt')
        try:
            node = mk(); root.register('v', node)
            if how == 'text': node.set(v)
            else: node.setValue(v)
        except (reg.InvalidRegistryValue, ValueError):
            continue
        try:
            json.dumps(v)
        except (TypeError, ValueError):
            continue
        before = observe(node)
        I.exceptions[:] = []
        reg.close(root, I.fn)
        text = open(I.fn, encoding='utf-8').read()
        outcome = None
        try:
            reg.open_registry(I.fn, clear=True)
            root2 = reg.Group(); root2.setName('vt')
            node2 = mk(); root2.register('v', node2)
            after = observe(node2)
            if after != before:
                outcome = 'reloaded as %r' % (after,)
            elif 'vt.v' not in reg._cache:
                outcome = 'not written (%r)' % (I.exceptions[:1],)
        except reg.InvalidRegistryFile as e:
            outcome = 'the file does not load: %s' % e
        except reg.InvalidRegistryValue as e:
            outcome = 'the stored text is rejected at reload: %s' % e
        except Exception as e:
            outcome = 'reload raised %s: %s' % (type(e).__name__, e)
        fid = None
        if name == 'conf.SpaceSeparatedSetOfChannels' and False:
            fid = None
        R.add_oracle(Case({'op': 'oracle_only', 'class': name, 'value': v, 'how': how}, oracle_ok=(outcome is None), finding=fid,
                          oracle_msg='' if outcome is None else '%s value %r (seen as %r) saved as %r: %s' % (name, v, before, file_value_lines(text), outcome),
                          kind='oracle-only', tags=('oracle-only', 'oo-' + name)))


# ------------------------------------------------------------------------------------------
# conf.py validators and the remaining registry classes whose registry layer is in the model
# ------------------------------------------------------------------------------------------
def stream_validators(I, R, r, n):
    conf = I.conf; reg = I.registry
    class Tmpl(reg.TemplatedString):
        requiredTemplates = ['foo']
    OSS = [('ValidBrackets', conf.ValidBrackets, '[]'), ('ValidSaslMechanism', conf.ValidSaslMechanism, 'plain'),
           ('ValidDriverModule', conf.ValidDriverModule, 'default')]
    GUARDED = [('ValidNick', lambda: conf.ValidNick('x', 'h')), ('ValidNickOrEmpty', lambda: conf.ValidNickOrEmpty('', 'h')),
               ('ValidHostmask', lambda: conf.ValidHostmask('a!b@c', 'h')), ('TemplatedString', lambda: Tmpl('$foo', 'h')),
               ('IP', lambda: conf.IP('', 'h')), ('ValidNickAllowingPercentS', lambda: conf.ValidNickAllowingPercentS('x', 'h'))]
    WORDS = ['', '[]', '<>', '{}', '()', '[)', 'plain', 'PLAIN', 'Plain', 'external', 'scram-sha-256', 'default', 'socket', 'Socket', 'x', ' []',
             'foo', 'a[b]', 'x\\', '`q`', '1abc', 'a b', 'a!b@c', '*!*@*', 'nick!user', '$foo', 'x ${foo} y', '$foobar', '127.0.0.1', '::1', '999.1.1.1',
             '%s', 'n%s', '"', "'", '`', '"`\'', '@!', '~#$', 'a@', '"[]"', "'plain'", '"a[b]"', "'\\x5b\\x5d'", '"\\"', 'é']
    for _ in range(n):
        x = r.random(); text = r.choice(WORDS)
        if r.random() < 0.2: text = gen_text_for(r, 'plain')
        if not valid_unicode(text): continue
        if x < 0.3:
            nm, cls, d = r.choice(OSS)
            node = cls(d, 'h'); cur = node.value
            res = I.set_text(node, text)
            ok = not (res == 'error' and node.value != cur)
            R.add(Case({'op': 'oss_set', 'class': nm, 'text': text}, impl=None if res == 'unm' else res, oracle_ok=ok, kind='validator',
                       oracle_msg='' if ok else '%s.set(%r) was rejected but the value changed' % (nm, text), tags=('oss', 'oss-' + res.split('\t')[0])),
                  'oss_set\t%s\t%s\t%s' % (nm, PR(text), wire.enc(text)),
                  (lambda o, c: None) if res == 'unm' else post_unm(lambda c: unm_justified_lit(strset_text('plain', c.input['text']))))
        elif x < 0.45:
            node = conf.ValidPrefixChars('', 'h'); res = I.set_text(node, text)
            R.add(Case({'op': 'vpc_set', 'text': text}, impl=None if res == 'unm' else res, kind='validator', tags=('vpc', 'vpc-' + res.split('\t')[0])),
                  'vpc_set\t%s\t%s' % (PR(text), wire.enc(text)),
                  (lambda o, c: None) if res == 'unm' else post_unm(lambda c: unm_justified_lit(strset_text('plain', c.input['text']))))
        elif x < 0.55:
            node = conf.ValidQuotes('"', 'h'); res = I.set_text(node, text)
            R.add(Case({'op': 'vq_set', 'text': text}, impl=res, kind='validator', tags=('vq', 'vq-' + res.split('\t')[0])), 'vq_set\t' + wire.enc(text))
        else:
            nm, mk = r.choice(GUARDED)
            # the predicate is a parameter of the model: instantiate it on the one value String.set can hand to setValue
            probe = reg.String('', 'h'); pres = I.set_text(probe, text)
            okvals = []
            if pres.startswith('ok'):
                v0 = probe.value
                try:
                    t2 = mk(); t2.setValue(v0)
                    if t2.value == v0: okvals = [v0]
                    else: okvals = None           # the class changed the value: not of the guarded shape
                except Exception:          # InvalidRegistryValue, or a ValueError from the predicate itself (inet_pton on NUL)
                    okvals = []
            node = mk(); cur = node.value
            res = I.set_text(node, text)
            if res.startswith('crash'): res = 'error'
            ok = not (res == 'error' and node.value != cur)
            if okvals is None:
                R.add_oracle(Case({'op': 'guard_set', 'class': nm, 'text': text}, oracle_ok=False, kind='validator',
                                  oracle_msg='%s.setValue stores something else than the value it was given' % nm, tags=('guard',)))
                continue
            R.add(Case({'op': 'guard_set', 'class': nm, 'text': text}, impl=None if res == 'unm' else res, oracle_ok=ok, kind='validator',
                       oracle_msg='' if ok else '%s.set(%r) was rejected but the value changed' % (nm, text),
                       tags=('guard', 'guard-' + nm, 'guard-' + res.split('\t')[0])),
                  'guard_set\t%s\t%s\t%s' % (wire.enc_list(okvals), PR(text), wire.enc(text)),
                  (lambda o, c: None) if res == 'unm' else post_unm(lambda c: unm_justified_lit(strset_text('plain', c.input['text']))))

# ------------------------------------------------------------------------------------------
# value tree histories
# ------------------------------------------------------------------------------------------
TREE_ALPHA = 'abXY01 "\'\\:#,-é中\x85\t'
TREE_PR = None
NETS = ['neta', 'NetB']            # networks the stub world knows
# every default CHANTYPES prefix of ircutils.isChannel ('+' is not one: see the odd probes); names with the
# separator of registry names in them (escaped in the file); names that differ under str.lower() (the key
# function of the child dictionaries) but not under casefold()
CHANS = ['#x', '#Y', '&loc', '!Safe', '#b\\', '#python.de', '&local.ops', '#strasse', '#stra\u00dfe']
PROBES = [(n, c) for n in (None, 'neta', 'netb') for c in [None] + [c.lower() for c in CHANS]]
NET_SPARE = 'netc'                 # a network the bot is not on at first: histories disconnect from one network and connect to this one
PROBES3 = PROBES + [(NET_SPARE, c) for c in [None] + [c.lower() for c in CHANS]]

class _StubIrc(object):
    def __init__(self, network): self.network = network

def tree_value(r, k, risky=0.08):
    if k == 'bool': return r.random() < 0.5
    if k in INT_CLASSES: return r.choice([0, 1, 2, 5, -3, 1000, 12345678901234567890]) if k == 'int' else r.choice([1, 2, 5, 77, 10 ** 20])
    if k in STR_CLASSES:
        x = r.random()
        if x < 0.3: return r.choice(['', '"', "'", '""', "'a'", ' a ', 'a\\', 'a: b', '#x', 'é'])
        return ''.join(r.choice(TREE_ALPHA) for _ in range(r.randint(0, 8)))
    n = r.choice([0, 1, 1, 2, 3])
    if k == 'comma' and n == 0 and r.random() > risky: n = 1
    out = []
    for _ in range(n):
        if r.random() < risky: out.append(r.choice(['', 'a b', 'a,b', ' a', 'b ']))
        else: out.append(''.join(r.choice('abXY01"\'\\:#-é') for _ in range(r.randint(1, 5))))
    return out

def tree_text(r, k):
    x = r.random()
    if x < 0.5:
        v = tree_value(r, k)
        if k == 'bool': return r.choice(['True', 'False', 'on', 'off', 'toggle', ' TRUE '])
        if k in INT_CLASSES: return str(v)
        if k in STR_CLASSES: return v
        return (' ' if k == 'space' else ', ').join(v)
    return gen_text_for(r, k)

def tree_safe_text(k, text):
    """texts on which the model's set() answers inside its fragment (a history must stay in step)"""
    if unm_justified_codec(text): return False
    if k in STR_CLASSES:
        t = strset_text(k, text)
        return not unm_justified_lit(t)
    if k in INT_CLASSES:
        return len(text) < 4000
    return True

def risky_value(k, v):
    """is the accepted value v of class k outside the set proved to survive str()->set()"""
    return finding_of_value(k, 'vt.var', v) is not None

class RealTree(object):
    """one registered variable of the real registry, driven like the Config plugin drives it"""
    def __init__(self, I, k, kind, default):
        self.I = I; self.k = k; self.kind = kind; self.default = default
        self.boot_fresh()
    def boot_fresh(self):
        I = self.I; reg = I.registry; conf = I.conf
        self.root = reg.Group(); self.root.setName('vt')
        node = I.new(self.k, self.default)
        self.dflt = canon_value(node.value)
        try:
            if self.kind == 'chan': self.node = conf.registerChannelValue(self.root, 'var', node)
            elif self.kind == 'net': self.node = conf.registerNetworkValue(self.root, 'var', node)
            else: self.node = conf.registerGlobalValue(self.root, 'var', node)
            return 'up'
        except reg.InvalidRegistryValue:
            self.node = None
            return 'refused'
    def reach(self, w):
        g = self.node
        if w[0] == 'base': return g
        if w[0] == 'net': return g.get(':' + w[1])
        if w[0] == 'chan': return g.get(w[1])
        return g.get(':' + w[1]).get(w[2])
    def guarded(self, f):
        reg = self.I.registry
        try:
            return f()
        except reg.InvalidRegistryValue:
            return 'invalid'
        except reg.NonExistentRegistryEntry:
            return 'nonexistent'
    def set_text(self, w, text):
        def f():
            self.reach(w).set(text); return 'done'
        return self.guarded(f)
    def set_value(self, w, v):
        def f():
            self.reach(w).setValue(v); return 'done'
        return self.guarded(f)
    def reset_chan(self, n, c):
        # plugins/Config/plugin.py reset_.channel
        def f():
            group = self.node
            if n is not None:
                netgroup = group.get(':' + n)
                changroup = netgroup.get(c)
                netgroup()
                changroup._setValue(netgroup.value, inherited=True)
            changroup = group.get(c)
            group()
            changroup._setValue(group.value, inherited=True)
            return 'done'
        return self.guarded(f)
    def reset_net(self, n):
        def f():
            group = self.node
            changroup = group.get(':' + n)
            group()
            changroup._setValue(group.value, inherited=True)
            return 'done'
        return self.guarded(f)
    def get(self, n, c):
        def f():
            v = self.node.getSpecific(network=n, channel=c)()
            return 'val\t' + enc_val(canon_value(v))
        return self.guarded(f)
    def direct(self, n, c):
        """the value of the node for network n / channel c, reached by name (no world.getIrc, no getSpecific)"""
        def f():
            g = self.node
            if n is not None: g = g.get(':' + n)
            if c is not None: g = g.get(c)
            return 'val\t' + enc_val(canon_value(g()))
        return self.guarded(f)
    def dump(self):
        out = []
        for (name, node) in self.root.getValues(getChildren=True):
            if hasattr(node, 'value'):
                out.append((name, canon_value(node.value)))
        return out
    def enc_dump(self):
        d = self.dump()
        return '-' if not d else ','.join(wire.enc(nm) + '=' + enc_val(v) for nm, v in d)
    def flags(self):
        """(name -> _wasSet) of every existing node, by structural walk"""
        out = {}
        def walk(g):
            out[g._name.lower()] = g._wasSet
            for ch in g._children.values(): walk(ch)
        walk(self.node)
        return out
    def save_load(self):
        I = self.I; reg = I.registry
        I.exceptions[:] = []
        reg.close(self.root, I.fn)
        text = open(I.fn, encoding='utf-8').read()
        try:
            reg.open_registry(I.fn, clear=True)
        except reg.InvalidRegistryFile:
            return 'refused', text
        return self.boot_fresh(), text

def enc_where(w):
    return '\t'.join([w[0]] + [wire.enc(x) for x in w[1:]])

def affected(w, p):
    pn, pc = p
    low = lambda x: None if x is None else x.lower()
    if w[0] == 'base': return True
    if w[0] == 'net': return low(pn) == low(w[1])
    if w[0] == 'chan': return low(pc) == low(w[1])
    return low(pn) == low(w[1]) and low(pc) == low(w[2])

def stream_tree(I, R, r, n_hist, maxops=14):
    global TREE_PR
    TREE_PR = PR(TREE_ALPHA + ''.join(HOT) + 'é中' + ''.join(map(chr, range(128, 0x300))))
    world = I.world
    saved_ircs = list(world.ircs)
    world.ircs[:] = [_StubIrc(n) for n in NETS]
    try:
        for h in range(n_hist):
            k = r.choice(['bool', 'int', 'pos', 'plain', 'plain', 'normalized', 'surrounded', 'space', 'comma', 'comma'])
            kind = r.choice(['chan'] * 7 + ['net'] * 2 + ['global'])
            default = tree_value(r, k, risky=0)
            if k == 'comma' and not default: default = ['d']
            I.reset_cache()
            world.ircs[:] = [_StubIrc(n) for n in NETS]
            connected = set(n.lower() for n in NETS)      # kept by the harness, not asked of world.getIrc
            T = RealTree(I, k, kind, default)
            lines = ['t_boot\t%s\t%s\t%s\t%s\t%s\t%s\t-' % (k, TREE_PR, enc_val(T.dflt), '1' if kind in ('chan', 'net') else '0',
                                                       '1' if kind == 'chan' else '0', wire.enc('vt.var'))]
            impl = ['up']
            ops = []; tags = set(['tree-' + k, 'kind-' + kind]); fails = []; risky = None
            explicit = set()     # nodes assigned by the history and not reset since (kept by the harness, not read off the bot)
            probes = [p for p in PROBES3 if (kind == 'chan') or (kind == 'net' and p[1] is None) or p == (None, None)]
            def probe_all():
                out = {}
                for (pn, pc) in probes:
                    res = T.get(pn, pc)
                    lines.append('t_get\t%s\t%s\t%s\t1' % (wire.enc_opt(pn), wire.enc_opt(pc), '1' if pn is None or pn in connected else '0'))
                    impl.append(res)
                    out[(pn, pc)] = res
                return out
            def snapshot():
                impl.append(T.enc_dump()); lines.append('t_dump')
            dead = False
            for step in range(r.randint(3, maxops)):
                if dead: break
                x = r.random()
                def pick_where():
                    if kind == 'global': return ('base',)
                    y = r.random()
                    n = r.choice(NETS + ['NETA', NET_SPARE]); c = r.choice(CHANS + ['#X'])
                    if kind == 'net': return ('base',) if y < 0.4 else ('net', n)
                    if y < 0.25: return ('base',)
                    if y < 0.5: return ('net', n)
                    if y < 0.75: return ('chan', c)
                    return ('netchan', n, c)
                before = probe_all()
                dump_before = T.dump()
                if x < 0.40:
                    w = pick_where(); text = tree_text(r, k)
                    if r.random() < 0.25:
                        # set the node explicitly to exactly the value it has (possibly only inherits) now
                        try: text = str(T.reach(w)); tags.add('set-to-current')
                        except Exception: pass
                    if not valid_unicode(text) or not tree_safe_text(k, text): continue
                    res = T.set_text(w, text)
                    ops.append(['set', list(w), text]); tags.add('set-' + w[0]); tags.add('set-' + res)
                    lines.append('t_set\t%s\t%s' % (wire.enc(text), enc_where(w))); impl.append(res)
                    after = probe_all()
                    if res == 'invalid':
                        if after != before:
                            fails.append('rejected set(%r) at %s changed what getSpecific returns: %r -> %r' % (text, w, before, after))
                        if [d for d in T.dump() if d in dump_before] != dump_before:
                            fails.append('rejected set(%r) at %s changed stored values' % (text, w))
                    else:
                        _check_explicit_kept(fails, set(e for e in explicit if e[0] is None or e[0] in connected), w, before, after, 'set(%r)' % text)
                        explicit.add(_probe_of(w))
                        _check_locality(fails, w, before, after, 'set(%r)' % text)
                        _check_follow(fails, explicit, w, after, probes)
                elif x < 0.55:
                    w = pick_where(); v = tree_value(r, k)
                    risky = risky or finding_of_value(k, 'vt.var', v)
                    res = T.set_value(w, v)
                    ops.append(['setv', list(w), v]); tags.add('setv-' + w[0])
                    lines.append('t_setv\t%s\t%s' % (enc_val(v), enc_where(w))); impl.append(res)
                    after = probe_all()
                    if res == 'done':
                        _check_explicit_kept(fails, set(e for e in explicit if e[0] is None or e[0] in connected), w, before, after, 'setValue(%r)' % (v,))
                        explicit.add(_probe_of(w))
                        _check_locality(fails, w, before, after, 'setValue(%r)' % (v,))
                        _check_follow(fails, explicit, w, after, probes)
                elif x < 0.65 and kind == 'chan':
                    n = r.choice([None] + NETS + [NET_SPARE]); c = r.choice(CHANS)
                    res = T.reset_chan(n, c)
                    ops.append(['reset_chan', n, c]); tags.add('reset-chan')
                    if res == 'done':
                        explicit.discard((None, c.lower()))
                        if n is not None: explicit.discard((n.lower(), c.lower()))
                    lines.append('t_reset_chan\t%s\t%s' % (wire.enc_opt(n), wire.enc(c))); impl.append(res)
                    after = probe_all()
                    for p in probes:
                        if (p[1] or '').lower() != c.lower() and after[p] != before[p]:
                            fails.append('reset channel %s %s changed getSpecific%r: %s -> %s' % (n, c, p, before[p], after[p]))
                    if res == 'done' and n is not None and n.lower() in connected and after[(n.lower(), c.lower())] != after[(n.lower(), None)]:
                        fails.append('after reset channel %s %s the channel value %s differs from the network value %s' % (n, c, after[(n.lower(), c.lower())], after[(n.lower(), None)]))
                elif x < 0.72 and kind in ('chan', 'net'):
                    n = r.choice(NETS + [NET_SPARE])
                    res = T.reset_net(n)
                    ops.append(['reset_net', n]); tags.add('reset-net')
                    if res == 'done': explicit.discard((n.lower(), None))
                    lines.append('t_reset_net\t%s' % wire.enc(n)); impl.append(res)
                    after = probe_all()
                    for p in probes:
                        if (p[0] or '').lower() != n.lower() and after[p] != before[p]:
                            fails.append('reset network %s changed getSpecific%r' % (n, p))
                    if res == 'done' and after[(n.lower(), None)] != after[(None, None)]:
                        fails.append('after reset network %s its value %s differs from the general value %s' % (n, after[(n.lower(), None)], after[(None, None)]))
                elif x < 0.77 and kind in ('chan', 'net'):
                    # the bot leaves one network and joins another one: as many Irc objects as before
                    out = r.choice(sorted(connected)); inn = [n for n in NETS + [NET_SPARE] if n.lower() not in connected][0]
                    world.ircs[:] = [i for i in world.ircs if i.network.lower() != out] + [_StubIrc(inn)]
                    connected.discard(out); connected.add(inn.lower())
                    ops.append(['swap_net', out, inn]); tags.add('swap-net')
                    after = probe_all()
                    for p in probes:
                        if p[0] is None and after[p] != before[p]:
                            fails.append('leaving %s for %s changed getSpecific%r: %s -> %s' % (out, inn, p, before[p], after[p]))
                        if p[0] in connected and p in explicit:
                            # a value assigned for a network the bot is on (and not reset since) is what getSpecific answers
                            d = T.direct(*p)
                            if d != after[p]:
                                fails.append('on networks %s (after leaving %s): getSpecific%r = %s but the node of that network/channel holds %s' % (sorted(connected), out, p, after[p], d))
                        if p[0] is not None and p[0] not in connected and after[p] != after[(None, p[1])]:
                            fails.append('not on network %s: getSpecific%r = %s differs from getSpecific%r = %s' % (p[0], p, after[p], (None, p[1]), after[(None, p[1])]))
                elif x < 0.80:
                    # odd probes: unknown network, non-channel, wrong kind
                    pn = r.choice([None, 'ghost', 'neta', '']); pc = r.choice([None, 'notachan', '#x', '#x,y', '', '+plus', '&loc', '#' + 'c' * 50])
                    res = T.get(pn or None, pc or None)
                    nok = bool(pn) and pn.lower() in connected
                    cok = bool(pc) and bool(I.ircutils.isChannel(pc))
                    ops.append(['get', pn, pc]); tags.add('get-odd'); tags.add('get-' + res.split('\t')[0])
                    lines.append('t_get\t%s\t%s\t%s\t%s' % (wire.enc_opt(pn or None), wire.enc_opt(pc or None), '1' if nok else '0', '1' if cok else '0'))
                    impl.append(res)
                else:
                    twice = r.random() < 0.4     # a second save before anything reads the reloaded values
                    res, text = T.save_load()
                    ops.append(['save_load']); tags.add('save-load'); tags.add('boot-' + res)
                    lines.append('t_save'); impl.append(wire.enc(''.join(l + '\n' for l in file_value_lines(text))))
                    lines.append('t_saveload'); impl.append(res)
                    if res == 'up' and twice:
                        res, text2 = T.save_load()
                        ops.append(['save_load']); tags.add('save-load-twice')
                        lines.append('t_save'); impl.append(wire.enc(''.join(l + '\n' for l in file_value_lines(text2))))
                        lines.append('t_saveload'); impl.append(res)
                        if res == 'up' and sorted(file_value_lines(text2)) != sorted(file_value_lines(text)):
                            fails.append('values read from %r and saved again before being used give %r: set values were dropped' % (file_value_lines(text), file_value_lines(text2)))
                    if res != 'up':
                        fails.append('the saved file %r does not load: %s' % (file_value_lines(text), res)); dead = True
                    else:
                        after = probe_all()
                        if after != before:
                            diff = [(p, before[p], after[p]) for p in probes if before[p] != after[p]]
                            fails.append('save + load changed getSpecific: %r (file %r)' % (diff[:3], file_value_lines(text)))
                        if T.dump() != dump_before:
                            fails.append('save + load changed the set values: %r -> %r' % (dump_before, T.dump()))
                if not dead:
                    snapshot()
            fid = (risky or _hist_risky(k, T, ops)) if k in LIST_CLASSES else None
            c = Case({'op': 'tree', 'class': k, 'kind': kind, 'default': default, 'ops': ops}, impl='\n'.join(impl),
                     oracle_ok=not fails, oracle_msg='; '.join(fails[:3]), kind='tree', tags=sorted(tags), finding=fid if fails else None)
            R.add_multi(c, lines, tree_post)
    finally:
        world.ircs[:] = saved_ircs

def tree_post(outs, c, lines):
    """model output lines for one history"""
    outs = list(outs)
    # the model's saved text carries the header: keep the value lines only
    for i, o in enumerate(outs):
        if lines[i] == 't_save' and o != 'bad-op':
            try:
                outs[i] = wire.enc(''.join(l + '\n' for l in file_value_lines(wire.dec(o))))
            except Exception:
                pass
    return '\n'.join(outs)

def _probe_of(w):
    if w[0] == 'base': return (None, None)
    if w[0] == 'net': return (w[1].lower(), None)
    if w[0] == 'chan': return (None, w[1].lower())
    return (w[1].lower(), w[2].lower())

def _check_explicit_kept(fails, explicit, w, before, after, what):
    """a specific value that was set explicitly (and not reset since) does not follow anybody else's change"""
    me = _probe_of(w)
    for e in explicit:
        if e != me and e in before and before[e] != after[e]:
            fails.append('%s at %s changed the explicitly set value getSpecific%r: %s -> %s' % (what, '/'.join(w), e, before[e], after[e]))

def _check_locality(fails, w, before, after, what):
    for p in before:
        if not affected(w, p) and before[p] != after[p]:
            fails.append('%s at %s changed getSpecific%r: %s -> %s' % (what, '/'.join(w), p, before[p], after[p]))

def _check_follow(fails, explicit, w, after, probes):
    """unset specific values follow the general one: a probe none of whose nodes was assigned by the
    history (since its last reset) answers the general value"""
    if w[0] != 'base':
        return
    base = after[(None, None)]
    for (pn, pc) in probes:
        chain = [(pn, None), (None, pc), (pn, pc)]
        if all(nd not in explicit for nd in chain if nd != (None, None)) and after[(pn, pc)] != base:
            fails.append('unset specific value getSpecific%r = %s does not follow the general value %s' % ((pn, pc), after[(pn, pc)], base))

def _hist_risky(k, T, ops):
    """finding class of the first list value a set() of the history produced (None = none)"""
    if k not in LIST_CLASSES: return None
    for o in ops:
        if o[0] == 'set':
            try:
                node = T.I.new(k); node.set(o[2])
                f = finding_of_value(k, 'vt.var', canon_value(node.value))
                if f: return f
            except Exception:
                pass
    return None

# ------------------------------------------------------------------------------------------
# witnesses of the listed findings, replayed on the implementation every run
# ------------------------------------------------------------------------------------------
def reload_value(I, k, name, v):
    """save one value with the real writer, read the file with the real reader, register afresh"""
    reg = I.registry
    I.reset_cache()
    root = reg.Group(); root.setName('vt')
    node = I.new(k); root.register(name, node); node.setValue(v)
    stored = canon_value(node.value)
    I.exceptions[:] = []
    reg.close(root, I.fn)
    text = open(I.fn, encoding='utf-8').read()
    try:
        reg.open_registry(I.fn, clear=True)
    except reg.InvalidRegistryFile as e:
        return stored, 'file does not load', text
    root2 = reg.Group(); root2.setName('vt')
    node2 = I.new(k)
    try:
        root2.register(name, node2)
    except reg.InvalidRegistryValue as e:
        return stored, 'rejected at reload', text
    if not any(kk.lower() == ('vt.' + name).lower() for kk in reg._cache.keys()):
        return stored, 'not written', text
    return stored, canon_value(node2.value), text

def witness_status(I):
    st = {}
    for f in verdict.load_findings(PROPERTY):
        w = f['witness']; fid = f['id']
        try:
            if 'plan' in w:
                R_ = Run()
                ok = flush_case(I, R_, w['class'], w['default'], [(tuple(a), b) for a, b in w['setup']],
                                {int(i): v for i, v in w['plan'].items()})
                st[fid] = (not ok, R_.cases[0].oracle_msg or 'every written line is one the node had before or after the flush')
            elif 'names' in w:
                back = I.registry.split(I.registry.join(w['names']))
                st[fid] = (back != w['names'], 'split(join(%r)) = %r' % (w['names'], back))
            else:
                stored, after, text = reload_value(I, w['class'], w['name'].split('.', 1)[1], w['value'])
                st[fid] = (after != stored, '%s value %r written as %r reloads as %r' % (w['class'], stored, file_value_lines(text), after))
        except Exception as e:
            st[fid] = (True, 'witness replay raised %r' % (e,))
    return st



# ------------------------------------------------------------------------------------------
# live bot: the same tree driven through the real Config plugin commands
# ------------------------------------------------------------------------------------------
LIVE_NAME = 'supybot.plugins.Config.vtvar'
_live = {}

def live_bot():
    if 'b' not in _live:
        b = bot.full(plugins=('Owner', 'Misc', 'User', 'Admin', 'Config', 'Channel', 'Utilities'))
        bot.register_welcome(b)
        u = b.ircdb.users.newUser(); u.name = 'vtowner'; u.addCapability('owner'); u.addHostmask('own!u@h')
        b.ircdb.users.setUser(u)
        _live['b'] = b
    return _live['b']

def stream_live(I, R, r, n_hist):
    b = live_bot()
    conf = b.conf; reg = b.registry
    grp = conf.supybot.plugins.Config
    net = b.irc.network
    def say(t):
        out = bot.feed(b, 'own!u@h', b.irc.nick, t)
        txt = ' '.join(m.args[-1] for m in out)
        return 'done' if 'The operation succeeded' in txt else ('invalid' if txt else 'silent')
    TOK = {'bool': ['on', 'off', 'toggle', 'True', 'maybe', '2'], 'int': ['5', '-3', '12', 'x', '1_0', '0'], 'pos': ['5', '0', '-1', '7'],
           'plain': ['abc', 'x1', '"a b"', '"  pad "', 'q-z:'], 'space': ['a', '"a b c"', '"x  y"']}
    UNQ = lambda t: t[1:-1] if t.startswith('"') else t
    probes = [(n, c) for n in (None, net) for c in (None, '#x', '#y')]
    for h in range(n_hist):
        k = r.choice(list(TOK))
        default = {'bool': False, 'int': 3, 'pos': 3, 'plain': 'dflt', 'space': ['d1', 'd2']}[k]
        try: grp.unregister('vtvar')
        except Exception: pass
        for key in [kk for kk in reg._cache.keys() if kk.lower().startswith(LIVE_NAME.lower())]:
            del reg._cache[key]
        node = I.classes[k](default, 'help for the live variable')
        node = conf.registerChannelValue(grp, 'vtvar', node)
        lines = ['t_boot\t%s\t%s\t%s\t1\t1\t%s\t-' % (k, PR(''), enc_val(canon_value(node.value)), wire.enc(LIVE_NAME))]
        impl = ['up']; ops = []; tags = set(['live', 'live-' + k]); fails = []
        def dump():
            out = [(node._name, canon_value(node.value))] if node._wasSet else []
            out += [(nm, canon_value(nd.value)) for nm, nd in node.getValues(getChildren=True) if hasattr(nd, 'value')]
            return '-' if not out else ','.join(wire.enc(nm) + '=' + enc_val(v) for nm, v in out)
        def probe_all():
            res = {}
            for (pn, pc) in probes:
                try: v = 'val\t' + enc_val(canon_value(node.getSpecific(network=pn, channel=pc)()))
                except reg.InvalidRegistryValue: v = 'invalid'
                lines.append('t_get\t%s\t%s\t1\t1' % (wire.enc_opt(pn), wire.enc_opt(pc))); impl.append(v); res[(pn, pc)] = v
            return res
        for step in range(r.randint(2, 8)):
            before = probe_all()
            x = r.random(); tok = r.choice(TOK[k]); text = UNQ(tok); c = r.choice(['#x', '#y'])
            if x < 0.25:
                cmd = 'config %s %s' % (LIVE_NAME, tok); res = say(cmd)
                lines.append('t_set\t%s\tbase' % wire.enc(text)); impl.append(res); w = ('base',)
            elif x < 0.45:
                cmd = 'config network %s %s' % (LIVE_NAME, tok); res = say(cmd)
                lines.append('t_set\t%s\tnet\t%s' % (wire.enc(text), wire.enc(net))); impl.append(res); w = ('net', net)
            elif x < 0.70:
                star = r.random() < 0.3
                cmd = 'config channel %s%s %s %s' % ('* ' if star else '', c, LIVE_NAME, tok); res = say(cmd)
                # the command sets the old-style channel value and (unless '*') the network+channel value
                lines.append('t_set\t%s\tchan\t%s' % (wire.enc(text), wire.enc(c)))
                if star:
                    impl.append(res)
                else:
                    # both assignments succeed or the first one already fails (same text, same class); toggle flips each node
                    impl.append('done' if res == 'done' else 'invalid')
                    if res == 'done':
                        lines.append('t_set\t%s\tnetchan\t%s\t%s' % (wire.enc(text), wire.enc(net), wire.enc(c))); impl.append('done')
                w = ('chan', c)
            elif x < 0.82:
                star = r.random() < 0.3
                cmd = 'config reset channel %s%s %s' % ('* ' if star else '', c, LIVE_NAME); res = say(cmd)
                lines.append('t_reset_chan\t%s\t%s' % ('~' if star else wire.enc(net), wire.enc(c))); impl.append(res); w = None
            elif x < 0.90:
                cmd = 'config reset network %s' % LIVE_NAME; res = say(cmd)
                lines.append('t_reset_net\t%s' % wire.enc(net)); impl.append(res); w = None
            else:
                cmd = 'config setdefault %s' % LIVE_NAME; res = say(cmd)
                dtext = str(I.classes[k](default, ''))
                lines.append('t_set\t%s\tbase' % wire.enc(dtext)); impl.append(res); w = ('base',)
            ops.append(cmd); tags.add('live-' + cmd.split(' ')[1] if cmd.split(' ')[1] in ('network', 'channel', 'reset', 'setdefault') else 'live-config')
            tags.add('live-' + res)
            after = probe_all()
            if res == 'invalid' and after != before:
                fails.append('%r was refused but changed what getSpecific returns' % cmd)
            if res == 'done' and w is not None:
                _check_locality(fails, w, before, after, cmd)
            if res == 'done' and ' reset channel ' in cmd and ' * ' not in cmd and after[(net, c)] != after[(net, None)]:
                fails.append('after %r the channel value %s still differs from the network value %s' % (cmd, after[(net, c)], after[(net, None)]))
            if res == 'done' and ' reset channel ' in cmd and ' * ' in cmd and after[(None, c)] != after[(None, None)]:
                fails.append('after %r the channel value %s still differs from the general value %s' % (cmd, after[(None, c)], after[(None, None)]))
            if res == 'done' and ' reset network ' in cmd and after[(net, None)] != after[(None, None)]:
                fails.append('after %r the network value %s still differs from the general value %s' % (cmd, after[(net, None)], after[(None, None)]))
            lines.append('t_dump'); impl.append(dump())
        cse = Case({'op': 'live', 'class': k, 'default': default, 'commands': ops}, impl='\n'.join(impl), oracle_ok=not fails,
                   oracle_msg='; '.join(fails[:3]), kind='live', tags=sorted(tags))
        R.add_multi(cse, lines, lambda outs, c_, ls: '\n'.join(outs))
    try: grp.unregister('vtvar')
    except Exception: pass


# ------------------------------------------------------------------------------------------
# every registered variable of the live registry: a rejected set() leaves it exactly as it was
# ------------------------------------------------------------------------------------------
SWEEP_TEXTS = ['', ' ', '0', '1', '-1', '3', '7', '49', '50', '51', '100', '1.5', '0.5', '-2.5', '1e3', 'nan', 'inf', 'on', 'off', 'toggle', 'True',
               'x', 'foo bar', '#chan', '#a,b', 'a!b@c', '*!*@*', '"', "'", '""', "'a' 'b'", 'm/x/', '/[/', 's/a/b/', '$foo', '{}', '[1]', '{"a": 1}',
               'é', ',', 'a,b', ' a ', '\\', 'a\\', '١', 'plain', 'exact', 'host', 'sqlite3', 'libera', '[]', '<>', '()', ':', '%s', '$nick',
               '127.0.0.1', '::1', 'irc.example.org:6667', 'socks5://x', 'http://x/', '../x', '/tmp/vt', 'a' * 300, 'INFO', 'DEBUG', 'en', 'fr', '1 2 3']
SWEEP_SKIP = ('supybot.directories',)       # moving the bot's directories around is not a registry question

def _snap(node):
    def safe(f):
        try: return ('ok', f())
        except Exception as e: return ('raises', type(e).__name__)
    safe(node)      # a value older than the last open_registry re-reads its cached text on the first call: settle that first
    return (repr(observe(node)), node._wasSet, safe(lambda: str(node)), safe(node.serialize))

def stream_sweep(I, R, r, per_node):
    b = live_bot(); conf = b.conf; reg = b.registry
    nodes = [(name, node) for (name, node) in conf.supybot.getValues(getChildren=True)
             if hasattr(node, 'value') and not name.lower().startswith(SWEEP_SKIP)]
    def attempt(name, node, text, context):
        before = _snap(node); v0 = node.value; ws0 = node._wasSet
        import contextlib, io
        with contextlib.redirect_stdout(io.StringIO()):      # some validators print advice (ircdb: --allow-default-owner)
            try:
                node.set(text); raised = None
            except Exception as e:
                raised = type(e).__name__
        after = _snap(node)
        cname = type(node).__name__
        if raised is not None:
            ok = (after == before)
            R.add_oracle(Case({'op': 'sweep', 'name': name, 'class': cname, 'text': text, 'context': context}, oracle_ok=ok, kind='sweep',
                              oracle_msg='' if ok else '%s.set(%r) raised %s but %s (%s) changed from %r to %r%s' % (
                                  name, text, raised, name, cname, before, after, (' after ' + repr(context)) if context else ''),
                              tags=('sweep', 'sweep-rejected', 'sweep-' + cname)))
        else:
            R.add_oracle(Case({'op': 'sweep', 'name': name, 'class': cname, 'text': text, 'context': context}, oracle_ok=True, kind='sweep',
                              tags=('sweep', 'sweep-accepted', 'sweep-' + cname)))
        return raised is None, v0, ws0
    def restore(node, v0, ws0):
        try: reg.Value._setValue(node, v0, inherited=not ws0)
        except Exception: node.value = v0; node._wasSet = ws0
    # round 0: every variable on its own
    for name, node in nodes:
        for text in r.sample(SWEEP_TEXTS, per_node):
            acc, v0, ws0 = attempt(name, node, text, [])
            restore(node, v0, ws0)
    # rounds 1..: validators may look at OTHER variables: move every numeric variable to a common level first
    numeric = [(name, node) for name, node in nodes if isinstance(node.value, (int, float)) and not isinstance(node.value, bool)]
    for level in ('50', '1'):
        saved = []; context = []
        for name, node in numeric:
            v0 = node.value; ws0 = node._wasSet
            try:
                node.set(level); context.append([name, level]); saved.append((node, v0, ws0))
            except Exception:
                restore(node, v0, ws0)
        for name, node in numeric:
            for text in ['0', '1', '3', '7', '49', '50', '51', '-1', '2.5', 'x']:
                acc, v0, ws0 = attempt(name, node, text, context)
                restore(node, v0, ws0)
        for node, v0, ws0 in reversed(saved):
            restore(node, v0, ws0)
    import socket; socket.setdefaulttimeout(None)
    # the cross-variable validator that is inside the model: conf.SocketTimeout against supybot.drivers.poll
    for pv in ('1.0', '5', '2.5', '0.75', '50'):
        poll = conf.supybot.drivers.poll; p0 = poll.value
        poll.set(pv)
        pn, pd = float(poll.value).as_integer_ratio()
        for text in ['0', '1', '2', '3', '4', '5', '6', '49', '50', '51', '-1', ' 7 ', '1_0', 'x', '']:
            node = conf.SocketTimeout(60, 'h')
            cur = node.value
            res = I.set_text(node, text)
            ok = not (res == 'error' and node.value != cur)
            R.add(Case({'op': 'val_set', 'class': 'sock/%d/%d' % (pn, pd), 'current': cur, 'text': text}, impl=res, oracle_ok=ok, kind='sweep',
                       oracle_msg='' if ok else 'SocketTimeout.set(%r) with drivers.poll=%s was rejected but the value changed from %r to %r' % (text, pv, cur, node.value),
                       tags=('sock-timeout', 'sock-' + res.split('\t')[0])),
                  'val_set\tsock/%d/%d\t%s\t%s\t%s' % (pn, pd, PR(''), enc_val(cur), wire.enc(text)))
        reg.Value._setValue(poll, p0, inherited=False)
    socket.setdefaulttimeout(None)

def class_inventory():
    """value classes of registry.py / conf.py and what they override, read from the generated table"""
    try:
        src = open(os.path.join(os.path.dirname(os.path.dirname(os.path.abspath(__file__))), 'lean', 'LimnoriaModel', 'Gen', 'Registry.lean'), encoding='utf-8').read()
    except OSError:
        return {}
    def table(nm):
        m = re.search(r'def %s : List \(String × List String\) :=\n  (\[.*\])\n' % nm, src)
        return re.findall(r'\("([^"]+)", \[([^\]]*)\]\)', m.group(1)) if m else []
    def names(nm):
        m = re.search(r'def %s : List String :=\n  \[(.*)\]\n' % nm, src)
        return re.findall(r'"([^"]+)"', m.group(1)) if m else []
    modelled = set(names('modelledClasses')) | set(names('modelledConfClasses'))
    out = {'modelled_in_lean': sorted(modelled), 'not_modelled_overriding_set_or_setValue': [], 'not_modelled_other': []}
    for tab in ('registryOverrides', 'confOverrides'):
        for cname, ms in table(tab):
            ms = re.findall(r'"([^"]+)"', ms)
            if cname in modelled: continue
            (out['not_modelled_overriding_set_or_setValue'] if ('set' in ms or 'setValue' in ms) else out['not_modelled_other']).append(
                '%s%s (%s)' % ('conf.' if tab == 'confOverrides' else 'registry.', cname, ', '.join(ms) or 'inherits everything'))
    return out

# ------------------------------------------------------------------------------------------
# corpus: minimised past failures and finding witnesses (run first)
# ------------------------------------------------------------------------------------------
def load_corpus():
    try:
        return json.load(open(os.path.join(CORPUS, 'C15', 'corpus.json'), encoding='utf-8'))
    except OSError:
        return {}

def stream_corpus(I, R):
    C = load_corpus()
    reg = I.registry
    def one_value(k, name, v, kind='corpus'):
        try:
            stored, after, text = reload_value(I, k, name, set(v) if k.endswith('Set') else v)
        except reg.InvalidRegistryValue:
            # an item the list syntax could not read back is refused at setValue (the former finding C15-list-element-separator)
            node = I.new(k)
            R.add_oracle(Case({'op': 'roundtrip', 'class': k, 'name': 'vt.' + name, 'value': v}, oracle_ok=(canon_value(node.value) == canon_value(I.new(k).value)),
                              kind=kind, tags=('corpus', 'refused-' + k)))
            if not k.endswith('Set'):
                R.add(Case({'op': 'val_setv', 'class': k, 'value': v}, impl='error', kind=kind, tags=('corpus', 'setv-refused')),
                      'val_setv\t%s\t%s' % (mcls(k), enc_val(v)))
            return
        fid = finding_of_value(k, 'vt.' + name, stored)
        ok = (after == stored)
        R.add_oracle(Case({'op': 'roundtrip', 'class': k, 'name': 'vt.' + name, 'value': v, 'stored': stored}, oracle_ok=ok, finding=fid, kind=kind,
                          oracle_msg='' if ok else 'value %r of %s saved as %r: reloaded as %r' % (stored, k, file_value_lines(text), after),
                          tags=('corpus', 'roundtrip-' + k) + (('in-finding-class',) if fid else ())))
        if not k.endswith('Set') and isinstance(stored, (str, list, bool, int)):
            node = I.new(k); node.setValue(v)
            pr = PR(*(stored if isinstance(stored, list) else [stored] if isinstance(stored, str) else []))
            R.add(Case({'op': 'val_str', 'class': k, 'value': v}, impl=wire.enc(str(node)), kind=kind, tags=('corpus', 'str-' + k)),
                  'val_str\t%s\t%s\t%s' % (mcls(k), pr, enc_val(stored)))
    for k, v in C.get('values', []):
        one_value(k, 'v', v)
    for name, v in C.get('normalized_named', []):
        one_value('normalized', name, v)
    for names in C.get('names', []):
        j = reg.join(names)
        try: back = reg.split(j)
        except Exception as e: back = 'raised %s' % type(e).__name__
        ok = (back == names); fid = finding_of_names(names[:-1])
        R.add(Case({'op': 'join', 'names': names}, impl=wire.enc(j), oracle_ok=ok, kind='corpus', finding=fid,
                   oracle_msg='' if ok else 'split(join(%r)) = %r' % (names, back), tags=('corpus', 'join')), 'join\t' + wire.enc_list(names))
    for k, d, v in C.get('defaults', []):
        I.reset_cache()
        root = reg.Group(); root.setName('vt')
        node = I.classes[k](d, 'help'); root.register('v', node); node.setValue(v)
        reg.close(root, I.fn)
        ok = True; msg = ''
        try:
            reg.open_registry(I.fn, clear=True)
            extra = sorted(set(x.lower() for x in reg._cache.keys()) - {'vt.v'})
            if extra: ok = False; msg = 'loading the saved file assigns variables that were not saved: %r' % extra
        except reg.InvalidRegistryFile as e:
            ok = False; msg = 'a %s with default %r makes the saved file unloadable: %s' % (k, d, e)
        R.add_oracle(Case({'op': 'close', 'values': [{'class': k, 'name': 'vt.v', 'value': v, 'default': d, 'help': 'help'}]},
                          oracle_ok=ok, oracle_msg=msg, kind='corpus', tags=('corpus', 'default-newline')))
    for v in C.get('json', []):
        I.reset_cache()
        root = reg.Group(); root.setName('vt')
        node = reg.Json({}, 'h'); root.register('v', node); node.setValue(v)
        reg.close(root, I.fn)
        outcome = None
        try:
            reg.open_registry(I.fn, clear=True)
            root2 = reg.Group(); root2.setName('vt'); n2 = reg.Json({}, 'h'); root2.register('v', n2)
            if n2() != v: outcome = 'reloaded as %r' % (n2(),)
        except Exception as e:
            outcome = 'reload raised %s: %s' % (type(e).__name__, e)
        R.add_oracle(Case({'op': 'oracle_only', 'class': 'Json', 'value': v, 'how': 'value'}, oracle_ok=outcome is None,
                          oracle_msg='' if outcome is None else 'Json value %r: %s' % (v, outcome), kind='corpus', tags=('corpus', 'oo-Json')))
    # files whose network-level lines must survive a start + save with nothing reading them in between
    world = I.world; saved = list(world.ircs); world.ircs[:] = [_StubIrc(n) for n in NETS]
    try:
        for text in C.get('cache_files', []):
            with open(I.fn, 'w', encoding='utf-8') as f: f.write(text)
            I.reset_cache()
            reg.open_registry(I.fn, clear=True)
            T = RealTree.__new__(RealTree); T.I = I; T.k = 'int'; T.kind = 'chan'; T.default = 1
            res = T.boot_fresh()
            reg.close(T.root, I.fn)
            text2 = open(I.fn, encoding='utf-8').read()
            want = sorted(l for l in text.split('\n') if l)
            got = sorted(file_value_lines(text2))
            ok = (res == 'up') and all(l in got for l in want)
            R.add_oracle(Case({'op': 'boot_save', 'file': text}, oracle_ok=ok, kind='corpus', tags=('corpus', 'boot-save'),
                              oracle_msg='' if ok else 'a bot started on %r and saved at once writes %r: set values were dropped' % (want, got)))
    finally:
        world.ircs[:] = saved



# ------------------------------------------------------------------------------------------
# value tree histories over EVERY value class (property oracles only: no model output)
# ------------------------------------------------------------------------------------------
def any_classes(I):
    R_ = I.registry; conf = I.conf
    class Tmpl(R_.TemplatedString):
        requiredTemplates = ['foo']
    class Some(R_.OnlySomeStrings):
        validStrings = ('A', 'b c', 'zed', '')
    return {
        'Regexp': (lambda: R_.Regexp('', 'h'), ['m/a/', '/b.c/i', 'm/x y/', '/\\d+/', '', 'm/[/', 'x', '/a/z']),
        'Json': (lambda: R_.Json({}, 'h'), ['"a"', '{"k": 1}', '[1, 2]', 'null', '"it\'s"', 'tru', '{']),
        'Float': (lambda: R_.Float(0.5, 'h'), ['1.5', '0.25', '-3', '1e3', 'inf', 'x', '']),
        'PositiveFloat': (lambda: R_.PositiveFloat(1.0, 'h'), ['1.5', '0.25', '7', '0', '-1', 'x']),
        'Probability': (lambda: R_.Probability(0.5, 'h'), ['0.5', '1', '0', '0.125', '2', '-0.5']),
        'OnlySomeStrings': (lambda: Some('A', 'h'), ['A', 'b c', 'zed', 'ZED', '"b c"', 'nope']),
        'TemplatedString': (lambda: Tmpl('$foo', 'h'), ['x $foo', '${foo}y', '"$foo  z"', 'nofoo']),
        'ValidNick': (lambda: conf.ValidNick('nick', 'h'), ['foo', 'a[b]', 'x\\', '1x', 'a b']),
        'ValidChannel': (lambda: conf.ValidChannel('#d', 'h'), ['#c', '&d', '#a,key', 'x', '#a b']),
        'SpaceSeparatedSetOfStrings': (lambda: R_.SpaceSeparatedSetOfStrings(['d'], 'h'), ['a b', 'c', 'a  b c', 'x']),
        'CommaSeparatedSetOfStrings': (lambda: R_.CommaSeparatedSetOfStrings(['d'], 'h'), ['a, b', 'c', 'a,b , c']),
        'Boolean': (lambda: R_.Boolean(False, 'h'), ['on', 'off', 'True', 'False', 'toggle', 'maybe']),
        'PositiveInteger': (lambda: R_.PositiveInteger(3, 'h'), ['1', '5', '12', '0', '-2', 'x']),
        'String': (lambda: R_.String('d', 'h'), ['abc', '"', "'a'", ' pad ', 'a\\']),
        'NormalizedString': (lambda: R_.NormalizedString('d', 'h'), ['a  b', 'well-known', 'x' * 90, ' "q" ']),
    }

class AnyTree(RealTree):
    """RealTree for an arbitrary class: values are observed through `observe`"""
    def __init__(self, I, mk, kind):
        self.I = I; self.mk = mk; self.kind = kind
        self.boot_fresh()
    def boot_fresh(self):
        I = self.I; reg = I.registry; conf = I.conf
        self.root = reg.Group(); self.root.setName('vt')
        node = self.mk()
        try:
            if self.kind == 'chan': self.node = conf.registerChannelValue(self.root, 'var', node)
            elif self.kind == 'net': self.node = conf.registerNetworkValue(self.root, 'var', node)
            else: self.node = conf.registerGlobalValue(self.root, 'var', node)
            return 'up'
        except Exception:
            self.node = None
            return 'refused'
    def guarded(self, f):
        try: return f()
        except self.I.registry.NonExistentRegistryEntry: return 'nonexistent'
        except Exception: return 'invalid'          # InvalidRegistryValue, or the ValueError some classes raise instead
    def get(self, n, c):
        def f():
            nd = self.node.getSpecific(network=n, channel=c); nd()
            return 'val ' + repr(observe(nd))
        return self.guarded(f)
    def dump(self):
        return [(nm, repr(observe(nd))) for (nm, nd) in self.root.getValues(getChildren=True) if hasattr(nd, 'value')]

def stream_tree_any(I, R, r, n_hist, maxops=10):
    world = I.world; saved_ircs = list(world.ircs)
    world.ircs[:] = [_StubIrc(n) for n in NETS]
    AC = any_classes(I)
    try:
        for h in range(n_hist):
            cname = r.choice(sorted(AC)); mk, texts = AC[cname]
            kind = r.choice(['chan'] * 4 + ['net'])
            I.reset_cache()
            T = AnyTree(I, mk, kind)
            probes = [p for p in PROBES if kind == 'chan' or p[1] is None]
            ops = []; fails = []; explicit = set(); tags = set(['any', 'any-' + cname])
            def probe_all(): return {p: T.get(*p) for p in probes}
            def pick_where():
                y = r.random(); n = r.choice(NETS); c = r.choice(CHANS)
                if kind == 'net': return ('base',) if y < 0.4 else ('net', n)
                if y < 0.25: return ('base',)
                if y < 0.5: return ('net', n)
                if y < 0.75: return ('chan', c)
                return ('netchan', n, c)
            for step in range(r.randint(3, maxops)):
                before = probe_all(); dump_before = T.dump()
                x = r.random()
                if x < 0.55:
                    w = pick_where(); text = r.choice(texts)
                    if r.random() < 0.35:
                        try: text = str(T.reach(w)); tags.add('set-to-current')
                        except Exception: pass
                    res = T.set_text(w, text); ops.append(['set', list(w), text]); tags.add('any-set-' + res)
                    after = probe_all()
                    if res == 'invalid':
                        if after != before: fails.append('rejected set(%r) at %s changed getSpecific: %r -> %r' % (text, '/'.join(w), before, after))
                    elif res == 'done':
                        _check_explicit_kept(fails, explicit, w, before, after, 'set(%r)' % text)
                        explicit.add(_probe_of(w))
                        _check_locality(fails, w, before, after, 'set(%r)' % text)
                        _check_follow(fails, explicit, w, after, probes)
                elif x < 0.68 and kind == 'chan':
                    n = r.choice([None] + NETS); c = r.choice(CHANS)
                    res = T.reset_chan(n, c); ops.append(['reset_chan', n, c])
                    if res == 'done':
                        explicit.discard((None, c.lower()))
                        if n is not None: explicit.discard((n.lower(), c.lower()))
                    after = probe_all()
                    if res == 'done' and n is not None and after[(n.lower(), c.lower())] != after[(n.lower(), None)]:
                        fails.append('after reset channel %s %s the channel value %s differs from the network value %s' % (n, c, after[(n.lower(), c.lower())], after[(n.lower(), None)]))
                elif x < 0.76:
                    n = r.choice(NETS); res = T.reset_net(n); ops.append(['reset_net', n])
                    if res == 'done': explicit.discard((n.lower(), None))
                    after = probe_all()
                    if res == 'done' and after[(n.lower(), None)] != after[(None, None)]:
                        fails.append('after reset network %s its value %s differs from the general value %s' % (n, after[(n.lower(), None)], after[(None, None)]))
                else:
                    twice = r.random() < 0.5
                    res, text = T.save_load(); ops.append(['save_load']); tags.add('any-save-load')
                    if res == 'up' and twice:
                        res, text2 = T.save_load(); ops.append(['save_load'])
                        if res == 'up' and sorted(l.split(': ', 1)[0] for l in file_value_lines(text2)) != sorted(l.split(': ', 1)[0] for l in file_value_lines(text)):   # names only: sets print in any order
                            fails.append('values read from %r and saved again before being used give %r: set values were dropped' % (file_value_lines(text), file_value_lines(text2)))
                    if res != 'up':
                        fails.append('the saved file %r does not load' % (file_value_lines(text),)); break
                    after = probe_all()
                    if after != before:
                        diff = [(p_, before[p_], after[p_]) for p_ in probes if before[p_] != after[p_]]
                        fails.append('save + load changed getSpecific: %r (file %r)' % (diff[:3], file_value_lines(text)))
                    if T.dump() != dump_before:
                        fails.append('save + load changed the set values: %r -> %r' % (dump_before, T.dump()))
            fid = None
            R.add_oracle(Case({'op': 'tree_any', 'class': cname, 'kind': kind, 'ops': ops}, oracle_ok=not fails, oracle_msg='; '.join(fails[:3]),
                              kind='tree-any', tags=sorted(tags), finding=fid))
    finally:
        world.ircs[:] = saved_ircs


# ------------------------------------------------------------------------------------------
# registry.close while another thread uses the tree (deterministic interleavings)
# ------------------------------------------------------------------------------------------
def flush_interleaved(I, T, plan, snap=None):
    """run registry.close on T.root; just before the i-th listed node is written, perform the operations plan[i]
    (what a thread switch to a command of a threaded plugin would do at that point)"""
    reg = I.registry
    orig = reg.Group.help
    counter = [0]
    def hooked(self):
        if self._name.lower().startswith('vt.var'):
            i = counter[0]; counter[0] += 1
            for op in plan.get(i, []):
                if op[0] == 'set': T.set_text(tuple(op[1]), op[2])
                elif op[0] == 'reset_net': T.reset_net(op[1])
                else: T.reset_chan(op[1], op[2])
                if snap is not None: snap()
        return orig(self)
    reg.Group.help = hooked
    try:
        reg.close(T.root, I.fn)
    finally:
        reg.Group.help = orig
    return open(I.fn, encoding='utf-8').read()

def enc_plan(plan, n):
    out = []
    for i in range(n):
        fs = []
        for op in plan.get(i, []):
            if op[0] == 'set': fs.append('set;%s;%s' % (','.join([op[1][0]] + [wire.enc(x) for x in op[1][1:]]), wire.enc(op[2])))
            elif op[0] == 'reset_net': fs.append('rnet;' + wire.enc(op[1]))
            else: fs.append('rchan;%s;%s' % (wire.enc_opt(op[1]), wire.enc(op[2])))
        out.append('|'.join(fs) if fs else '-')
    return out

def flush_case(I, R, k, default, setup, plan, kind='flush'):
    """one history: `setup` (list of set ops), then a flush with `plan` interleaved; compared with the model; the oracle asks
    that every written line is a line the node had when the flush began, at some moment during it, or when it ended"""
    world = I.world; saved_ircs = list(world.ircs); world.ircs[:] = [_StubIrc(n) for n in NETS]
    try:
        I.reset_cache()
        T = RealTree(I, k, 'chan', default)
        pr = PR(TREE_ALPHA + 'é中')
        lines = ['l_boot\t%s\t%s\t%s\t1\t1\t%s\t-' % (k, pr, enc_val(T.dflt), wire.enc('vt.var'))]; impl = ['up']
        for (w, text) in setup:
            res = T.set_text(tuple(w), text)
            lines.append('l_set\t%s\t%s' % (wire.enc(text), enc_where(tuple(w)))); impl.append(res)
        def ser_lines():
            out = set()
            for (nm, nd) in T.root.getValues(getChildren=True):
                if hasattr(nd, 'value'):
                    try: out.add('%s: %s' % (nm, nd.serialize()))
                    except Exception: pass
            return out
        before = ser_lines()
        nlisted = len([1 for (nm, nd) in T.root.getValues(getChildren=True) if hasattr(nd, 'value')])
        during = set()
        text = flush_interleaved(I, T, plan, snap=lambda: during.update(ser_lines()))
        after = ser_lines() | during
        lines.append('\t'.join(['l_save_il'] + enc_plan(plan, nlisted))); impl.append(wire.enc(''.join(l + '\n' for l in file_value_lines(text))))
        lines.append('l_dump'); impl.append(T.enc_dump())
        odd = [l for l in file_value_lines(text) if l not in before and l not in after]
        has_reset = any(op[0].startswith('reset') for ops_ in plan.values() for op in ops_)
        ok = not odd
        c = Case({'op': 'flush', 'class': k, 'default': default, 'setup': [[list(w), t] for w, t in setup],
                  'plan': {str(i): v for i, v in plan.items()}}, impl='\n'.join(impl), oracle_ok=ok, kind=kind,
                 oracle_msg='' if ok else 'the file written while other operations ran holds %r: lines the variables had neither before the flush (%r) nor during / after it (%r)' % (odd, sorted(before), sorted(after)),
                 tags=('flush-il', 'flush-reset' if has_reset else 'flush-sets'), finding='C15-flush-interleaved-reset' if (has_reset and not ok) else None)
        R.add_multi(c, lines, tree_post_flush)
        return ok
    finally:
        world.ircs[:] = saved_ircs

def tree_post_flush(outs, c, lines):
    outs = list(outs)
    for i, o in enumerate(outs):
        if lines[i].startswith('l_save_il') and o != 'bad-op':
            try: outs[i] = wire.enc(''.join(l + '\n' for l in file_value_lines(wire.dec(o))))
            except Exception: pass
    return '\n'.join(outs)

def stream_flush_il(I, R, r, n_hist):
    VAL = {'bool': ['on', 'off', 'toggle'], 'int': ['1', '5', '12', '-3'], 'plain': ['abc', 'x1', '"', 'a b'], 'space': ['a', 'a b c', 'x']}
    for h in range(n_hist):
        k = r.choice(sorted(VAL))
        default = {'bool': False, 'int': 3, 'plain': 'dflt', 'space': ['d1']}[k]
        def where():
            y = r.random(); n = r.choice(NETS); c = r.choice(['#x', '&loc'])
            return ['base'] if y < 0.2 else ['net', n] if y < 0.45 else ['chan', c] if y < 0.7 else ['netchan', n, c]
        setup = [(where(), r.choice(VAL[k])) for _ in range(r.randint(1, 5))]
        plan = {}
        for i in range(6):
            if r.random() < 0.45:
                ops_ = []
                for _ in range(r.randint(1, 2)):
                    x = r.random()
                    if x < 0.6: ops_.append(['set', where(), r.choice(VAL[k])])
                    elif x < 0.8: ops_.append(['reset_net', r.choice(NETS)])
                    else: ops_.append(['reset_chan', r.choice([None] + NETS), r.choice(['#x', '&loc'])])
                plan[i] = ops_
        flush_case(I, R, k, default, setup, plan)

# ------------------------------------------------------------------------------------------
# lazy re-reading: open_registry in the running process (Config reload / SIGHUP)
# ------------------------------------------------------------------------------------------
def stream_lazy(I, R, r, n_hist, maxops=12):
    world = I.world; reg = I.registry
    saved_ircs = list(world.ircs)
    world.ircs[:] = [_StubIrc(n) for n in NETS]
    pr = PR(TREE_ALPHA + ''.join(HOT) + 'é中' + ''.join(map(chr, range(128, 0x300))))
    try:
        for h in range(n_hist):
            k = r.choice(['bool', 'int', 'pos', 'plain', 'plain', 'normalized', 'surrounded', 'space', 'comma'])
            kind = r.choice(['chan'] * 7 + ['net'] * 2 + ['global'])
            default = tree_value(r, k, risky=0)
            if k == 'comma' and not default: default = ['d']
            I.reset_cache()
            T = RealTree(I, k, kind, default)
            lines = ['l_boot\t%s\t%s\t%s\t%s\t%s\t%s\t-' % (k, pr, enc_val(T.dflt), '1' if kind in ('chan', 'net') else '0',
                                                       '1' if kind == 'chan' else '0', wire.enc('vt.var'))]
            impl = ['up']; ops = []; tags = set(['lazy', 'lazy-' + k]); fails = []
            probes = [p for p in PROBES if (kind == 'chan') or (kind == 'net' and p[1] is None) or p == (None, None)]
            files = []
            def probe(ps):
                out = {}
                for (pn, pc) in ps:
                    res = T.get(pn, pc)
                    lines.append('l_get\t%s\t%s\t1\t1' % (wire.enc_opt(pn), wire.enc_opt(pc))); impl.append(res); out[(pn, pc)] = res
                return out
            def pick_where():
                if kind == 'global': return ('base',)
                y = r.random(); n = r.choice(NETS + ['NETA']); c = r.choice(CHANS + ['#X'])
                if kind == 'net': return ('base',) if y < 0.4 else ('net', n)
                if y < 0.25: return ('base',)
                if y < 0.5: return ('net', n)
                if y < 0.75: return ('chan', c)
                return ('netchan', n, c)
            def do_save():
                I.exceptions[:] = []
                reg.close(T.root, I.fn)
                text = open(I.fn, encoding='utf-8').read()
                lines.append('l_save'); impl.append(wire.enc(''.join(l + '\n' for l in file_value_lines(text))))
                return text
            def do_reopen(text):
                with open(I.fn, 'w', encoding='utf-8') as f: f.write(text)
                reg.open_registry(I.fn)
                lines.append('l_reopen\t%s\t0' % wire.enc(text)); impl.append('ok')
            for step in range(r.randint(3, maxops)):
                x = r.random()
                if x < 0.30:
                    w = pick_where(); text = tree_text(r, k)
                    if not valid_unicode(text) or not tree_safe_text(k, text): continue
                    res = T.set_text(w, text)
                    ops.append(['set', list(w), text]); tags.add('lz-set-' + res)
                    lines.append('l_set\t%s\t%s' % (wire.enc(text), enc_where(w))); impl.append(res)
                elif x < 0.40:
                    w = pick_where(); v = tree_value(r, k, risky=0)
                    res = T.set_value(w, v)
                    ops.append(['setv', list(w), v]); tags.add('lz-setv')
                    lines.append('l_setv\t%s\t%s' % (enc_val(v), enc_where(w))); impl.append(res)
                elif x < 0.46 and kind != 'global':
                    # a node is set, saved, the file is re-read, and then — in every order — the node is reset, set,
                    # called, its parent assigned, BEFORE or AFTER it is first read again
                    w = pick_where()
                    if w[0] == 'base': continue
                    text = tree_text(r, k)
                    if not valid_unicode(text) or not tree_safe_text(k, text): continue
                    res = T.set_text(w, text)
                    ops.append(['set', list(w), text]); lines.append('l_set\t%s\t%s' % (wire.enc(text), enc_where(w))); impl.append(res)
                    if res != 'done': lines.append('l_dump'); impl.append(T.enc_dump()); continue
                    ftext = do_save(); ops.append(['save']); do_reopen(ftext); ops.append(['reopen', ftext]); tags.add('lz-perm')
                    me = _probe_of(w)
                    parent = (me[0], None) if (w[0] == 'netchan') else (None, None)
                    acts = r.sample(['reset', 'call', 'setparent', 'setw', 'call'], r.randint(1, 4))
                    last = None
                    for a in acts:
                        if a == 'reset':
                            if w[0] == 'net':
                                res = T.reset_net(w[1]); ops.append(['reset_net', w[1]]); lines.append('l_reset_net\t%s' % wire.enc(w[1]))
                            else:
                                n_ = w[1] if w[0] == 'netchan' else None; c_ = w[-1]
                                res = T.reset_chan(n_, c_); ops.append(['reset_chan', n_, c_])
                                lines.append('l_reset_chan\t%s\t%s' % (wire.enc_opt(n_), wire.enc(c_)))
                            impl.append(res); last = 'reset' if res == 'done' else last
                        elif a == 'call':
                            ops.append(['get', [list(me)]]); probe([me])
                        elif a == 'setparent':
                            pw = ('net', w[1]) if w[0] == 'netchan' else ('base',)
                            t2 = tree_text(r, k)
                            if not valid_unicode(t2) or not tree_safe_text(k, t2): continue
                            res = T.set_text(pw, t2); ops.append(['set', list(pw), t2])
                            lines.append('l_set\t%s\t%s' % (wire.enc(t2), enc_where(pw))); impl.append(res)
                        else:
                            t2 = tree_text(r, k)
                            if not valid_unicode(t2) or not tree_safe_text(k, t2): continue
                            res = T.set_text(w, t2); ops.append(['set', list(w), t2])
                            lines.append('l_set\t%s\t%s' % (wire.enc(t2), enc_where(w))); impl.append(res)
                            last = 'set' if res == 'done' else last
                    got = probe([me, parent]); ops.append(['get', [list(me), list(parent)]])
                    if last == 'reset' and got[me] != got[parent]:
                        fails.append('%s was reset after the file was re-read, yet it answers %s while its parent answers %s (the reset was undone)' % ('/'.join(w), got[me], got[parent]))
                elif x < 0.52 and kind == 'chan':
                    n = r.choice([None] + NETS); c = r.choice(CHANS)
                    res = T.reset_chan(n, c)
                    ops.append(['reset_chan', n, c]); tags.add('lz-reset-chan')
                    lines.append('l_reset_chan\t%s\t%s' % (wire.enc_opt(n), wire.enc(c))); impl.append(res)
                elif x < 0.57 and kind in ('chan', 'net'):
                    n = r.choice(NETS)
                    res = T.reset_net(n)
                    ops.append(['reset_net', n]); tags.add('lz-reset-net')
                    lines.append('l_reset_net\t%s' % wire.enc(n)); impl.append(res)
                elif x < 0.68:
                    ps = r.sample(probes, min(len(probes), r.randint(1, 3)))
                    ops.append(['get', [list(p) for p in ps]]); tags.add('lz-get')
                    probe(ps)
                elif x < 0.80:
                    ops.append(['save']); tags.add('lz-save')
                    base_now = probe([(None, None)])[(None, None)]
                    files.append((do_save(), base_now))
                elif x < 0.90 and files:
                    text, base_then = r.choice(files)
                    ops.append(['reopen', text]); tags.add('lz-reopen-old')
                    do_reopen(text)
                    got = probe([(None, None)])[(None, None)]
                    if got != base_then:
                        fails.append('after re-reading the file %r in the running bot the general value is %s, the file was saved with %s' % (file_value_lines(text), got, base_then))
                else:
                    # save and re-read at once: nothing may change
                    before = probe(probes)
                    text = do_save(); files.append((text, before[(None, None)])); do_reopen(text)
                    after = probe(probes)
                    ops.append(['save_reopen']); tags.add('lz-save-reopen')
                    if after != before:
                        diff = [(p, before[p], after[p]) for p in probes if before[p] != after[p]]
                        fails.append('saving and re-reading the file in the running bot changed getSpecific: %r (file %r)' % (diff[:3], file_value_lines(text)))
                lines.append('l_dump'); impl.append(T.enc_dump())
            fid = _hist_risky(k, T, ops) if k in LIST_CLASSES else None
            c = Case({'op': 'lazy', 'class': k, 'kind': kind, 'default': default, 'ops': ops}, impl='\n'.join(impl),
                     oracle_ok=not fails, oracle_msg='; '.join(fails[:3]), kind='lazy', tags=sorted(tags), finding=fid if fails else None)
            R.add_multi(c, lines, tree_post_lazy)
    finally:
        world.ircs[:] = saved_ircs

def tree_post_lazy(outs, c, lines):
    outs = list(outs)
    for i, o in enumerate(outs):
        if lines[i] == 'l_save' and o != 'bad-op':
            try: outs[i] = wire.enc(''.join(l + '\n' for l in file_value_lines(wire.dec(o))))
            except Exception: pass
    return '\n'.join(outs)

# ------------------------------------------------------------------------------------------
# run / replay
# ------------------------------------------------------------------------------------------
def explore(ctx, scale, seed_stream='c15'):
    I = Impl()
    R = Run()
    r = rng.make(seed_stream)
    stream_corpus(I, R)
    stream_wrap_exhaustive(I, R, 4 if scale == 1 else 6)
    stream_int_unicode(I, R, scale > 1)
    stream_perlre(I, R, r, 2500 * scale)
    stream_codec(I, R, r, 1500 * scale)
    stream_values(I, R, r, 12 * scale, 120)
    stream_texts(I, R, r, 3000 * scale)
    stream_files(I, R, r, 1500 * scale)
    stream_names(I, R, r, 1500 * scale)
    stream_close(I, R, r, 400 * scale)
    stream_oracle_only(I, R, r, 1500 * scale)
    stream_validators(I, R, r, 1200 * scale)
    stream_tree(I, R, r, 250 * scale)
    stream_tree_any(I, R, r, 250 * scale)
    stream_lazy(I, R, r, 200 * scale)
    stream_flush_il(I, R, r, 200 * scale)
    stream_live(I, R, r, 40 * min(scale, 10))
    stream_sweep(I, R, r, 6 if scale == 1 else 25)
    return I, R

def run(ctx):
    build = leanbuild.ensure(PROPERTY, THEOREMS, thorough=ctx.thorough, extractors=['Registry'])
    scale = 45 if ctx.thorough else 1
    I, R = explore(ctx, scale)
    if build.driver_ok:
        cases = R.fill()
    else:
        cases = R.cases
    def search(disagreements, broken):
        I2, R2 = explore(ctx, 4, seed_stream='c15-search')
        return [c for c in R2.cases if c.oracle_ok is False]
    return verdict.conclude(PROPERTY, ctx.tier, ctx.seed, build, cases, search=search, rule=RULE,
                            trusted_base=TRUSTED, finding_status=witness_status(I),
                            assumptions=['Python asserts enabled', 'strings are valid Unicode scalar sequences (no lone surrogates)',
                                         'integers have fewer digits than sys.get_int_max_str_digits()'],
                            extra={'value_class_inventory': class_inventory()}, t0=ctx.t0)

def replay(ctx, path):
    """re-run a replay file on the implementation and print what happens now"""
    d = json.load(open(path))
    c = d.get('case') or d.get('first_disagreement')
    if not c:
        print(json.dumps(d, indent=1, ensure_ascii=False)[:4000]); return 0
    inp = c['input']
    print('input:', json.dumps(inp, ensure_ascii=False))
    print('recorded:', c.get('oracle_msg') or ('impl=%r model=%r' % (c.get('impl'), c.get('model'))))
    I = Impl()
    op = inp.get('op')
    if op in ('roundtrip', 'value', 'str_sv', 'val_str', 'val_ser') and 'class' in inp:
        stored, after, text = reload_value(I, inp['class'], inp['name'].split('.', 1)[1], set(inp['value']) if inp['class'].endswith('Set') else inp['value'])
        print('now: stored %r, file %r, reloaded %r -> %s' % (stored, file_value_lines(text), after, 'OK' if after == stored else 'FAILS'))
    elif op == 'val_set':
        node = I.new(inp['class']); node.setValue(inp['current'])
        print('now: set(%r) -> %s, value %r' % (inp['text'], I.set_text(node, inp['text']), canon_value(node.value)))
    elif op == 'join':
        j = I.registry.join(inp['names']); print('now: join = %r, split(join) = %r' % (j, I.registry.split(j)))
    elif op == 'read':
        open(I.fn, 'w', encoding='utf-8', newline='').write(inp['text'])
        try:
            I.registry.open_registry(I.fn, clear=True); print('now: cache =', dict(I.registry._cache.items()))
        except Exception as e:
            print('now: open_registry raises %r' % (e,))
    elif op == 'close':
        reg = I.registry; I.reset_cache()
        root = reg.Group(); root.setName('vt')
        for v in inp['values']:
            node = I.classes[v['class']](v['default'], v['help']); root.register(v['name'].split('.', 1)[1], node); node.setValue(v['value'])
        reg.close(root, I.fn); text = open(I.fn, encoding='utf-8', newline='').read()
        print('now: file value lines', file_value_lines(text))
        try:
            reg.open_registry(I.fn, clear=True); print('now: cache =', dict(reg._cache.items()))
        except Exception as e:
            print('now: open_registry raises %r' % (e,))
    elif op == 'tree':
        world = I.world; world.ircs[:] = [_StubIrc(n) for n in NETS]
        I.reset_cache()
        T = RealTree(I, inp['class'], inp['kind'], inp['default'])
        def show():
            return {('%s/%s' % p): T.get(*p) for p in PROBES3 if inp['kind'] == 'chan' or (inp['kind'] == 'net' and p[1] is None) or p == (None, None)}
        print('start:', show())
        for o in inp['ops']:
            if o[0] == 'set': res = T.set_text(tuple(o[1]), o[2])
            elif o[0] == 'setv': res = T.set_value(tuple(o[1]), o[2])
            elif o[0] == 'reset_chan': res = T.reset_chan(o[1], o[2])
            elif o[0] == 'reset_net': res = T.reset_net(o[1])
            elif o[0] == 'get': res = T.get(o[1] or None, o[2] or None)
            elif o[0] == 'swap_net':
                world.ircs[:] = [i for i in world.ircs if i.network.lower() != o[1]] + [_StubIrc(o[2])]
                res = 'now on %s; nodes by name: %r' % ([i.network for i in world.ircs],
                      {('%s/%s' % p): T.direct(*p) for p in PROBES3 if p[0] in [i.network.lower() for i in world.ircs] and (inp['kind'] == 'chan' or p[1] is None)})
            else:
                res, text = T.save_load(); res = '%s file=%r' % (res, file_value_lines(text))
                if T.node is None: print(o, '->', res); break
            print(o, '->', res, '\n    ', show(), '\n     set values:', T.dump())
    elif op == 'live':
        b = live_bot(); conf = b.conf; grp = conf.supybot.plugins.Config
        try: grp.unregister('vtvar')
        except Exception: pass
        node = conf.registerChannelValue(grp, 'vtvar', I.classes[inp['class']](inp['default'], 'help'))
        for cmd in inp['commands']:
            out = bot.feed(b, 'own!u@h', b.irc.nick, cmd)
            print(cmd, '->', [m.args[-1] for m in out])
            print('    ', {('%s/%s' % (n, c)): node.getSpecific(network=n, channel=c)() for n in (None, b.irc.network) for c in (None, '#x', '#y')})
    elif op == 'flush':
        R_ = Run()
        ok = flush_case(I, R_, inp['class'], inp['default'], [(tuple(a), b) for a, b in inp['setup']], {int(i): v for i, v in inp['plan'].items()})
        print('now:', 'OK' if ok else R_.cases[0].oracle_msg)
    elif op == 'tree_any':
        world = I.world; world.ircs[:] = [_StubIrc(n) for n in NETS]
        I.reset_cache()
        T = AnyTree(I, any_classes(I)[inp['class']][0], inp['kind'])
        def show():
            return {('%s/%s' % p_): T.get(*p_) for p_ in PROBES if inp['kind'] == 'chan' or p_[1] is None}
        print('start:', show())
        for o in inp['ops']:
            if o[0] == 'set': res = T.set_text(tuple(o[1]), o[2])
            elif o[0] == 'reset_chan': res = T.reset_chan(o[1], o[2])
            elif o[0] == 'reset_net': res = T.reset_net(o[1])
            else:
                res, text = T.save_load(); res = '%s file=%r' % (res, file_value_lines(text))
            print(o, '->', res, '\n    ', show(), '\n     set values:', T.dump())
    elif op == 'lazy':
        world = I.world; world.ircs[:] = [_StubIrc(n) for n in NETS]
        I.reset_cache(); reg = I.registry
        T = RealTree(I, inp['class'], inp['kind'], inp['default'])
        def show():
            return {('%s/%s' % p): T.get(*p) for p in PROBES if inp['kind'] == 'chan' or (inp['kind'] == 'net' and p[1] is None) or p == (None, None)}
        for o in inp['ops']:
            if o[0] == 'set': res = T.set_text(tuple(o[1]), o[2])
            elif o[0] == 'setv': res = T.set_value(tuple(o[1]), o[2])
            elif o[0] == 'reset_chan': res = T.reset_chan(o[1], o[2])
            elif o[0] == 'reset_net': res = T.reset_net(o[1])
            elif o[0] == 'get': res = [T.get(*p) for p in o[1]]
            elif o[0] == 'save': reg.close(T.root, I.fn); res = file_value_lines(open(I.fn, encoding='utf-8').read())
            elif o[0] == 'reopen':
                open(I.fn, 'w', encoding='utf-8').write(o[1]); reg.open_registry(I.fn); res = 're-read %r' % file_value_lines(o[1])
            else:
                reg.close(T.root, I.fn); reg.open_registry(I.fn); res = 'saved and re-read'
            print(o[:1], '->', res, '\n     raw set values:', T.dump())
        print('finally:', show())
    elif op == 'sweep':
        b = live_bot(); conf = b.conf
        def find(nm):
            for n_, nd in conf.supybot.getValues(getChildren=True):
                if n_ == nm: return nd
        for nm, tx in inp.get('context', []):
            try: find(nm).set(tx)
            except Exception as e: print('context', nm, tx, 'raised', e)
        node = find(inp['name']); before = _snap(node)
        try: node.set(inp['text']); res = 'accepted'
        except Exception as e: res = 'raised %s' % type(e).__name__
        print('now: %s.set(%r) %s; before %r; after %r' % (inp['name'], inp['text'], res, before, _snap(node)))
    elif op == 'oracle_only':
        OC = dict((nm, (mk, how)) for nm, mk, _, how in oracle_classes(I))
        mk, how = OC[inp['class']]
        reg = I.registry; I.reset_cache()
        root = reg.Group(); root.setName('vt'); node = mk(); root.register('v', node)
        (node.set if inp.get('how') == 'text' else node.setValue)(inp['value'])
        reg.close(root, I.fn); print('now: file', file_value_lines(open(I.fn, encoding='utf-8').read()))
        try:
            reg.open_registry(I.fn, clear=True); root2 = reg.Group(); root2.setName('vt'); n2 = mk(); root2.register('v', n2)
            print('now: before %r, after %r' % (observe(node), observe(n2)))
        except Exception as e:
            print('now: reload raises %r' % (e,))
    else:
        print('(no specific replay for this operation; the input above is self-contained)')
    return 0
