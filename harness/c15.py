"""C15 — configuration values survive save/reload; bad values are rejected atomically; channel /
network specific values override the general one only locally and unset ones follow it.
Correspondence of lean/LimnoriaModel/C15/*.lean with src/registry.py (+ conf.py registration,
utils.str, utils.gen.safeEval, the Config plugin's set/reset paths) and the property oracle
evaluated on the implementation."""
import json, os, re, sys, time, warnings
warnings.simplefilter('ignore')
from vlib import wire, rng, leanbuild, verdict, bot, CORPUS
from vlib.verdict import Case

PROPERTY = 'C15'
MANIFEST = {
 'level_text': 'Lean 4 theorems, kernel-checked, about a model of the configuration registry: the unicode_escape codec round trip and repr/literal round trip for every string; String (and its space-padding variants), Boolean and the Integer family reload to the saved value through the real line format and reader for every accepted value; list values reload element-wise under an explicit separator-freeness predicate (with proved counter-examples outside it); a rejected text leaves the whole value tree unchanged; a channel/network assignment changes getSpecific only for that channel/network and unset specific values follow the general value, for every history of set/setValue/reset/get; name escape/split/join round trip for components not ending in a backslash. Constants (printable table, quote set, regexps, toBool tables, separators, class inventory) are regenerated from /repo on every run; the model is tied to src/registry.py by a differential run over generated values, files, name lists and operation histories that also evaluates the property statement on the implementation.',
 'level_note': 'Trusted: Lean kernel (axioms propext/Classical.choice/Quot.sound only); harness/extractors/registry.py; the correspondence harness (generator quality bounds what it sees). Parameters: str.isprintable for non-ASCII characters (instantiated with the real predicate per case); textwrap word splitting (chunks taken from the real TextWrapper). Modelled: unicode_escape encoder/decoder, repr(str), safeEval on a single plain string literal, String/StringSurroundedBySpaces/StringWithSpaceOnRight/NormalizedString set/setValue/__str__/serialize, Boolean, Integer/NonNegative/Positive, Space/Comma separated lists of strings, close() line format, open_registry, escape/unescape/split/join, value tree (_wasSet, _setValue(inherited), _makeChild, getSpecific, Config reset, getValues, registerChannelValue/registerNetworkValue start-up). Not modelled in Lean (exercised against the property oracle only): Float family, Regexp, Json, TemplatedString, OnlySomeStrings, conf.* validators, lazy in-process re-reading after a second open_registry, \\N{name} escapes, lone surrogates, texts handed to safeEval that are not one plain literal.',
 'technique': 'Lean 4 proof (induction over strings / histories, invariants) + table extraction + differential correspondence',
 'design_ref': 'DESIGN.md §6 C15',
}
THEOREMS = []   # filled below (kept in one place with the Lean side)
TRUSTED = ['Lean 4.33.0 kernel; axioms ⊆ {propext, Classical.choice, Quot.sound}',
           'harness/extractors/registry.py (constants of src/registry.py, utils/str.py, class inventory → Gen/Registry.lean)',
           'harness/c15.py generators + canonicalisation; hex line protocol',
           'parameter: str.isprintable on non-ASCII characters (instantiated with the real predicate)',
           'parameter: textwrap.TextWrapper._split_chunks (NormalizedString line wrapping) instantiated with the real function']
RULE = ('seeded streams: (codec) strings rich in quotes/backslashes/blanks/": "/"#"/non-ASCII/controls through encoder, decoder, repr, '
        'literal evaluation; (value) accepted values of every modelled class through setValue, __str__, serialize, the real '
        'registry.close file, open_registry and a fresh registration; (text) arbitrary texts through set() incl. rejected ones; '
        '(file) hand-built hostile files through open_registry; (name) name lists through escape/join/split; (tree) histories of '
        'set/setValue/reset/get/save+load on global, network and channel level; (oracle-only) classes outside the model. '
        'A case is non-trivial when it carries at least one model-branch tag; distinct = distinct input.')

# ------------------------------------------------------------------------------------------
# alphabets
# ------------------------------------------------------------------------------------------
QUOTES = ['"', "'"]
HOT = ['"', "'", '\\', ' ', ' ', ': ', ':', '#', '.', ',', '-', '\t', '\n', '\r', '\x0b', '\x0c', '\x00', '\x1f', '\x7f',
       '\x85', '\xa0', 'é', 'ß', ' ', '　', '中', '😀', '͸', '﻿', 'a', 'b', 'Z', '0', '7', 'x', 'u', 'U', 'N', 'n',
       '{', '}', '_', '=', '%s', '$']
ESCAPES = ['\\n', '\\t', '\\\\', "\\'", '\\"', '\\x41', '\\x4', '\\xg1', '\\u00e9', '\\u12', '\\U0001F600', '\\U00110000',
           '\\ud800', '\\N{DIGIT ONE}', '\\N', '\\101', '\\7', '\\777', '\\400', '\\8', '\\q', '\\\n', '\\\r', '\\a', '\\b', '\\f', '\\v', '\\0']

def gen_str(r, maxlen=10, hot=0.6):
    n = r.choice([0, 1, 1, 2, 3, 4, 6, maxlen, maxlen * 2])
    out = []
    for _ in range(n):
        x = r.random()
        if x < hot:
            out.append(r.choice(HOT))
        else:
            out.append(r.choice('abcdefXYZ0189 '))
    return ''.join(out)

def gen_value_str(r):
    k = r.randint(0, 11)
    if k == 0:
        q = r.choice(QUOTES); return q + gen_str(r, 4) + q            # looks quoted
    if k == 1:
        return r.choice(['"', "'", '""', "''", "'a'", '"a"', '\'"', '"\'', "'\\'", '"\\"', "'a' 'b'", '"""a"""', "''''"])
    if k == 2:
        return r.choice([' ', '  ', '\t', '\n', '\xa0', ' a', 'a ', ' a ', '\ta', 'a\n', '\x85a', 'a '])
    if k == 3:
        return gen_str(r, 6) + '\\' * r.randint(1, 4)
    if k == 4:
        return r.choice(['a: b', ': ', ':', ' : ', '#x', '# ', 'a\\: b', 'k: v: w'])
    if k == 5:
        return ''.join(r.choice(ESCAPES + ['a', ' ']) for _ in range(r.randint(1, 4)))
    if k == 6:
        return gen_str(r, 40, hot=0.2)
    return gen_str(r)

def valid_unicode(s):
    try:
        s.encode('utf-8'); return True
    except UnicodeEncodeError:
        return False

def PR(*texts):
    """the printable non-ASCII characters occurring in the texts (instantiates the model's `pr`)"""
    return wire.enc(''.join(sorted({c for t in texts for c in t if ord(c) >= 128 and c.isprintable()})))

# ------------------------------------------------------------------------------------------
# wire forms shared with Drive.lean
# ------------------------------------------------------------------------------------------
def enc_val(v):
    if isinstance(v, bool): return 'b:1' if v else 'b:0'
    if isinstance(v, int): return 'i:%d' % v
    if isinstance(v, str): return 's:' + wire.enc(v)
    return 'l:' + wire.enc_list(v)

def enc_pairs(items):
    items = list(items)
    return '-' if not items else ','.join(wire.enc(k) + ':' + wire.enc(v) for k, v in items)

def canon_res(kind, s=None):
    return 'ok\t' + wire.enc(s) if kind == 'ok' else kind

def has_surrogate(s):
    return any(0xD800 <= ord(c) < 0xE000 for c in s)

SURR_RE = re.compile(r'\\(u|U0000)[dD][89a-fA-F]')
def unm_justified_codec(text):
    return '\\N' in text or bool(SURR_RE.search(text))

def first_close(t):
    """index of the first unescaped occurrence of t[0] after position 0 (None if there is none)"""
    q = t[0]; i = 1
    while i < len(t):
        if t[i] == '\\': i += 2; continue
        if t[i] == q: return i
        i += 1
    return None

def unm_justified_lit(t):
    if not t or t[0] not in '\'"':
        return True
    i = first_close(t.replace('\r\n', '\n'))
    if i is not None and i != len(t.replace('\r\n', '\n')) - 1:
        return True
    return unm_justified_codec(t)

# ------------------------------------------------------------------------------------------
# the run object: collects cases + driver lines
# ------------------------------------------------------------------------------------------
class Run(object):
    def __init__(self):
        self.cases = []; self.lines = []; self.pend = []
    def add(self, case, line, post=None):
        """case.impl already set; the model output for `line` (through `post`) becomes case.model"""
        self.cases.append(case); self.lines.append(line); self.pend.append((case, post))
        return case
    def add_oracle(self, case):
        self.cases.append(case); return case
    def fill(self):
        outs = wire.run_driver(PROPERTY, self.lines, timeout=1200)
        for (c, post), o in zip(self.pend, outs):
            if c is None:
                continue
            c.model = post(o, c) if post else o
        return self.cases

def post_unm(justified):
    """a model answer `unm` (outside the modelled fragment) is accepted only when justified"""
    def f(o, c):
        if o == 'unm' and justified(c):
            c.tags = tuple(c.tags) + ('unm',)
            return None
        return o
    return f

# ------------------------------------------------------------------------------------------
# implementation access
# ------------------------------------------------------------------------------------------
class Impl(object):
    def __init__(self):
        bot.light()
        from supybot import registry, utils, ircutils, world
        import supybot.conf as conf
        self.registry = registry; self.utils = utils; self.ircutils = ircutils; self.world = world; self.conf = conf
        self.dir = bot.scratch()
        self.fn = os.path.join(self.dir, 'c15.conf')
        registry.error = lambda s: None
        self.exceptions = []
        registry.exception = lambda s: self.exceptions.append(s)
        R = registry
        self.classes = {
            'plain': R.String, 'surrounded': R.StringSurroundedBySpaces, 'spaceRight': R.StringWithSpaceOnRight,
            'normalized': R.NormalizedString, 'bool': R.Boolean, 'int': R.Integer, 'nonNeg': R.NonNegativeInteger,
            'pos': R.PositiveInteger, 'space': R.SpaceSeparatedListOfStrings, 'comma': R.CommaSeparatedListOfStrings,
            'spaceSet': R.SpaceSeparatedSetOfStrings, 'commaSet': R.CommaSeparatedSetOfStrings,
        }
    DEFAULTS = {'plain': '', 'surrounded': '', 'spaceRight': '', 'normalized': '', 'bool': False, 'int': 1, 'nonNeg': 1, 'pos': 1,
                'space': [], 'comma': [], 'spaceSet': [], 'commaSet': []}
    def new(self, k, default=None):
        d = self.DEFAULTS[k] if default is None else default
        return self.classes[k](d, 'help for a %s value' % k)
    def reset_cache(self):
        self.registry._cache.clear()
        self.registry._lastModified = 0
    def ue_dec(self, s):
        try:
            r = self.registry.decoder(s)[0]
        except UnicodeDecodeError:
            return 'bad'
        return 'unm' if has_surrogate(r) else canon_res('ok', r)
    def evallit(self, t):
        try:
            r = self.utils.safeEval(t)
        except ValueError:
            return 'bad'
        except Exception as e:
            return 'crash ' + type(e).__name__
        if not isinstance(r, str):
            return 'bad'
        return 'unm' if has_surrogate(r) else canon_res('ok', r)
    def set_text(self, node, text):
        """node.set(text) -> canonical result"""
        try:
            node.set(text)
        except self.registry.InvalidRegistryValue:
            return 'error'
        except Exception as e:
            return 'crash ' + type(e).__name__
        v = node.value
        if isinstance(v, str) and has_surrogate(v):
            return 'unm'
        return 'ok\t' + enc_val(canon_value(v))

def canon_value(v):
    if isinstance(v, (set, frozenset)):
        return sorted(v)
    if isinstance(v, (list, tuple)):
        return list(v)
    return v

MODEL_CLASS = {'spaceSet': 'space', 'commaSet': 'comma'}
def mcls(k): return MODEL_CLASS.get(k, k)
STR_CLASSES = ('plain', 'surrounded', 'spaceRight', 'normalized')
INT_CLASSES = ('int', 'nonNeg', 'pos')
LIST_CLASSES = ('space', 'comma', 'spaceSet', 'commaSet')

# ------------------------------------------------------------------------------------------
# known-finding classes (predicates)
# ------------------------------------------------------------------------------------------
def wrap_width(name):
    return 76 - (len(name) + 2)

def finding_of_value(k, name, stored):
    """the known-finding class an accepted value of class k falls in (None = none)"""
    if k in ('comma', 'commaSet'):
        if len(stored) == 0:
            return 'C15-empty-comma-list'
        if any((',' in e) or e.strip() != e for e in stored):
            return 'C15-list-element-separator'
    if k in ('space', 'spaceSet'):
        if any(e == '' or any(c.isspace() for c in e) for e in stored):
            return 'C15-list-element-separator'
    if k == 'normalized':
        w = wrap_width(name)
        ser = stored.encode('unicode_escape').decode()
        if w <= 0:
            return 'C15-normalized-wrap'
        if len(ser) > w and (any(len(x) > w for x in ser.split(' ')) or '-' in ser):
            return 'C15-normalized-wrap'
    return None

def finding_of_names(names):
    if any(n.endswith('\\') for n in names):
        return 'C15-name-trailing-backslash'
    return None

# ------------------------------------------------------------------------------------------
# streams
# ------------------------------------------------------------------------------------------
def stream_codec(I, R, r, n):
    for _ in range(n):
        s = gen_value_str(r)
        if not valid_unicode(s):
            continue
        e = I.registry.encoder(s)[0].decode()
        d = I.ue_dec(e)
        ok = (d == canon_res('ok', s))
        R.add(Case({'op': 'ue_enc', 's': s}, impl=wire.enc(e), oracle_ok=ok, kind='codec', tags=('ue_enc',),
                   oracle_msg='' if ok else 'decoder(encoder(%r)) gives %s' % (s, d)), 'ue_enc\t' + wire.enc(s))
        t = s if r.random() < 0.5 else ''.join(r.choice(ESCAPES + ['a', ' ', 'é', '\\']) for _ in range(r.randint(0, 5)))
        d2 = I.ue_dec(t)
        tg = ['ue_dec', 'dec-' + d2.split('\t')[0]]
        if d2 == 'unm':
            R.add(Case({'op': 'ue_dec', 's': t}, impl=None, kind='codec', tags=tg), 'ue_dec\t' + wire.enc(t), lambda o, c: None)
        else:
            R.add(Case({'op': 'ue_dec', 's': t}, impl=d2, kind='codec', tags=tg), 'ue_dec\t' + wire.enc(t),
                  post_unm(lambda c: unm_justified_codec(c.input['s'])))
        rp = repr(s)
        back = I.evallit(rp)
        ok = (back == canon_res('ok', s))
        R.add(Case({'op': 'repr', 's': s}, impl=wire.enc(rp), oracle_ok=ok, kind='codec', tags=('repr',),
                   oracle_msg='' if ok else 'safeEval(repr(%r)) gives %s' % (s, back)), 'repr\t%s\t%s' % (PR(s), wire.enc(s)))
        # literal evaluation of quoted-looking and arbitrary texts
        q = r.choice(QUOTES)
        lit = r.choice([rp, q + t + q, q + s + q, t, q + t])
        if lit and valid_unicode(lit):
            ev = I.evallit(lit)
            if ev == 'unm':
                R.add(Case({'op': 'evallit', 's': lit}, impl=None, kind='codec', tags=('evallit', 'lit-unm')), 'evallit\t' + wire.enc(lit), lambda o, c: None)
            else:
                R.add(Case({'op': 'evallit', 's': lit}, impl=ev, kind='codec', tags=('evallit', 'lit-' + ev.split('\t')[0])),
                      'evallit\t' + wire.enc(lit), post_unm(lambda c: unm_justified_lit(c.input['s'])))

def gen_accepted(r, k):
    if k in STR_CLASSES:
        return gen_value_str(r)
    if k == 'bool':
        return r.random() < 0.5
    if k in INT_CLASSES:
        v = r.choice([0, 1, -1, 7, 10, 255, -4096, 10 ** 12, r.randint(-10 ** 6, 10 ** 6), r.randint(0, 10 ** 30)])
        if k == 'nonNeg': v = abs(v)
        if k == 'pos': v = abs(v) or 3
        return v
    # lists
    n = r.choice([0, 0, 1, 1, 2, 3, 5])
    def elt():
        x = r.random()
        if x < 0.70:   # separator-free, blank-free element
            return ''.join(r.choice('abcXYZ019#:.\\"\'é中-_=') for _ in range(r.randint(1, 6)))
        if x < 0.80: return ''
        return gen_value_str(r)
    return [elt() for _ in range(n)]

def gen_text_for(r, k):
    """texts for set(): mostly near the accepted syntax, some rejected"""
    if k in STR_CLASSES:
        x = r.random()
        if x < 0.4:
            q = r.choice(QUOTES)
            body = ''.join(r.choice(ESCAPES + ['a', ' ', 'é', q, '\\', '\n', '\r', '\x00', '"', "'"]) for _ in range(r.randint(0, 5)))
            return q + body + q
        return gen_value_str(r)
    if k == 'bool':
        w = r.choice(['true', 'false', 'on', 'off', 'enable', 'enabled', 'disable', 'disabled', '1', '0', 'toggle', 'yes', 'no', '', 'tru', 'TRUE', 'Toggle', 'oN', '10', 'é'])
        w = ''.join(c.upper() if r.random() < 0.2 else c for c in w)
        return r.choice(['', ' ', '\t', '\xa0', '\n']) + w + r.choice(['', ' ', '\n', ' ', 'x'])
    if k in INT_CLASSES:
        return r.choice(['', ' ', '\t', '\x0b', '\x1f']) + r.choice(['', '', '-', '+', '--', '- ']) + \
            ''.join(r.choice('0123456789' * 3 + '_ ax.') for _ in range(r.randint(0, 8))) + r.choice(['', '', ' ', '\n', '_', 'L'])
    return ''.join(r.choice(['a', 'b', ' ', ',', ', ', ' ,', '\t', '\xa0', '\x1f', '"', '\\', 'é', ',,', '  ']) for _ in range(r.randint(0, 10)))

def file_value_lines(text):
    return [l for l in text.split('\n') if l and not l.startswith('#')]

def stream_values(I, R, r, nbatches, per_batch):
    """accepted values of every modelled class: setValue -> str/serialize -> real file -> fresh registration"""
    reg = I.registry
    keys = list(I.classes)
    for b in range(nbatches):
        I.reset_cache()
        root = reg.Group(); root.setName('vt')
        items = []
        for i in range(per_batch):
            k = r.choice(keys)
            v = gen_accepted(r, k)
            if isinstance(v, str) and not valid_unicode(v): continue
            if isinstance(v, list) and not all(valid_unicode(e) for e in v): continue
            name = 'v%d' % i
            if k == 'normalized' and r.random() < 0.1:
                name = 'v%d' % i + 'n' * r.choice([10, 40, 66, 70, 71, 72, 80])
            node = I.new(k)
            root.register(name, node)
            try:
                node.setValue(set(v) if k.endswith('Set') else v)
            except reg.InvalidRegistryValue:
                continue
            items.append([k, name, node, v])
        for it in items:
            node = it[2]
            try: ser = node.serialize()
            except Exception: ser = None
            it += [canon_value(node.value), str(node) if not it[0].endswith('Set') else None, ser]
        I.exceptions[:] = []
        reg.close(root, I.fn)
        text = open(I.fn, encoding='utf-8').read()
        write_exc = list(I.exceptions)
        # the reader on the real file
        try:
            reg.open_registry(I.fn, clear=True)
            cache = [(k_, v_) for (k_, v_) in reg._cache.items()]
            rd = 'ok\t' + enc_pairs(cache) if not any(has_surrogate(v_) for _, v_ in cache) else 'unm'
        except reg.InvalidRegistryFile:
            rd = 'invalid'; cache = None
        R.add(Case({'op': 'read', 'text': text}, impl=rd, kind='value', tags=('read-' + rd.split('\t')[0],)),
              'read\t' + wire.enc(text), post_unm(lambda c: unm_justified_codec(c.input['text'])))
        lines = file_value_lines(text)
        root2 = reg.Group(); root2.setName('vt')
        for (k, name, node, v, stored, node_str, ser) in items:
            full = 'vt.' + name
            inp = {'op': 'value', 'class': k, 'name': full, 'value': v}
            fid = finding_of_value(k, full, stored)
            mk = mcls(k)
            pr = PR(*(stored if isinstance(stored, list) else [stored] if isinstance(stored, str) else []))
            # setValue normalisation
            if k in STR_CLASSES:
                R.add(Case(dict(inp, op='str_sv'), impl=wire.enc(stored), kind='value', tags=('sv-' + k,) + (('sv-changed',) if stored != v else ())),
                      'str_sv\t%s\t%s' % (k, wire.enc(v)))
            # __str__ and serialize
            if not k.endswith('Set'):
                R.add(Case(dict(inp, op='val_str'), impl=wire.enc(node_str), kind='value',
                           tags=('str-' + k,) + (('quoted',) if k in STR_CLASSES and node_str != stored else ())),
                      'val_str\t%s\t%s\t%s' % (mk, pr, enc_val(stored)))
                if ser is not None and (k != 'normalized' or '\n' not in ser):
                    R.add(Case(dict(inp, op='val_ser'), impl=wire.enc(ser), kind='value', tags=('ser-' + k,)),
                          'val_ser\t%s\t%s\t%s' % (mk, pr, enc_val(stored)))
            # reload: fresh node registered against the cache read from the file
            node2 = I.new(k)
            outcome = None
            if cache is None:
                outcome = 'file does not load (InvalidRegistryFile)'
            else:
                try:
                    root2.register(name, node2)
                    after = canon_value(node2.value)
                    if after != stored:
                        outcome = 'reloaded as %r' % (after,)
                    elif not any(kk.lower() == full.lower() for kk, _ in cache):
                        outcome = 'value line missing from the file (write raised: %s)' % (write_exc[:1],)
                except reg.InvalidRegistryValue as e:
                    outcome = 'reload rejected the stored text: %s' % e
            c = Case(dict(inp, op='roundtrip', stored=stored), oracle_ok=(outcome is None), kind='value', finding=fid,
                     oracle_msg='' if outcome is None else 'value %r of %s saved as %r: %s' % (stored, k, [l for l in lines if l.startswith(full + ':')][:1], outcome),
                     tags=('roundtrip-' + k,) + (('in-finding-class',) if fid else ()))
            R.add_oracle(c)
            # the cached text through set(): model vs implementation
            if cache is not None and not k.endswith('Set'):
                raw = dict((kk.lower(), vv) for kk, vv in cache).get(full.lower())
                if raw is not None and not has_surrogate(raw):
                    node3 = I.new(k)
                    res = I.set_text(node3, raw)
                    R.add(Case(dict(inp, op='val_set', text=raw), impl=res, kind='value', tags=('reload-set-' + k,)),
                          'val_set\t%s\t%s\t%s\t%s' % (mk, PR(raw), enc_val(canon_value(I.new(k).value)), wire.enc(raw)),
                          post_unm(lambda c: c.input['class'] in STR_CLASSES and unm_justified_lit(c.input['text'])))

def stream_texts(I, R, r, n):
    """arbitrary texts through set(): accepted or rejected; a rejection leaves the value in force"""
    keys = [k for k in I.classes if not k.endswith('Set')]
    reg = I.registry
    for _ in range(n):
        k = r.choice(keys)
        text = gen_text_for(r, k)
        if not valid_unicode(text): continue
        node = I.new(k)
        prev = gen_accepted(r, k)
        try:
            node.setValue(prev)
        except reg.InvalidRegistryValue:
            continue
        before = canon_value(node.value); before_set = node._wasSet
        res = I.set_text(node, text)
        after = canon_value(node.value)
        ok = True; msg = ''
        if res == 'error' and (after != before or node._wasSet != before_set):
            ok = False; msg = 'set(%r) on %s was rejected but the value changed from %r to %r' % (text, k, before, after)
        if res.startswith('crash'):
            ok = False; msg = 'set(%r) on %s raised %s instead of InvalidRegistryValue' % (text, k, res)
        tg = ['set-' + k, 'set-' + res.split('\t')[0]]
        c = Case({'op': 'val_set', 'class': k, 'current': before, 'text': text}, impl=None if res == 'unm' else res,
                 oracle_ok=ok, oracle_msg=msg, kind='text', tags=tg)
        just = (lambda c: True) if res == 'unm' else \
               (lambda c: (c.input['class'] in STR_CLASSES and unm_justified_lit(strset_text(c.input['class'], c.input['text'])))
                          or (c.input['class'] in INT_CLASSES and (any(ord(ch) > 127 for ch in c.input['text']) or len(c.input['text']) > 4000)))
        R.add(c, 'val_set\t%s\t%s\t%s\t%s' % (k, PR(text), enc_val(before), wire.enc(text)),
              (lambda o, c: None) if res == 'unm' else post_unm(just))

def strset_text(k, text):
    """the text String.set would hand to safeEval when it is taken literally"""
    if k == 'normalized':
        from supybot import utils
        text = utils.str.normalizeWhitespace(text.strip())
    return text if (text and text[0] == text[-1] and text[0] in '\'"') else "''"

def stream_files(I, R, r, n):
    """hostile hand-built files through open_registry (reader totality and correspondence)"""
    reg = I.registry
    PIECES = ['a', 'b.c', 'supybot.x', ': ', ':', ' ', '\\', '\\\\', '\n', '\n', '\r\n', '\r', '#', '# c\n', '\\:', '\\.', '\\x41', '\\x4', '\\n',
              'é', '  ', '\t', '\\\n', '\\\\\n', ': v\n', 'k: v\n', 'K: w\n', '\x0b', '\x1c', '\\N{DIGIT ONE}', '\\ud800', "'", '"']
    for _ in range(n):
        text = ''.join(r.choice(PIECES) for _ in range(r.randint(0, 14)))
        with open(I.fn, 'w', encoding='utf-8', newline='') as f:
            f.write(text)
        I.reset_cache()
        ok = True; msg = ''
        try:
            reg.open_registry(I.fn, clear=True)
            cache = list(reg._cache.items())
            rd = 'ok\t' + enc_pairs(cache) if not any(has_surrogate(v_) for _, v_ in cache) else 'unm'
        except reg.InvalidRegistryFile:
            rd = 'invalid'
        except Exception as e:
            rd = 'crash ' + type(e).__name__
            ok = False; msg = 'open_registry raised %s on %r' % (type(e).__name__, text)
        tg = ('file-' + rd.split('\t')[0],) + (('continuation',) if '\\\n' in text else ())
        R.add(Case({'op': 'read', 'text': text}, impl=None if rd == 'unm' else rd, oracle_ok=ok, oracle_msg=msg, kind='file', tags=tg),
              'read\t' + wire.enc(text), (lambda o, c: None) if rd == 'unm' else post_unm(lambda c: unm_justified_codec(c.input['text'])))

def gen_name(r):
    k = r.randint(0, 9)
    if k == 0: return r.choice(['#chan', ':net', '#a.b', ':n:m', '#foo\\', 'a\\', '\\', 'a\\.b', 'a\\:b', '#é', '.', ':', '..', 'a.', '.a'])
    return ''.join(r.choice(['a', 'b', 'Z', '0', '.', ':', '\\', '#', 'é', '中', '-', '_', '\x7f', '\t', 'n', 'x41']) for _ in range(r.randint(1, 6)))

def stream_names(I, R, r, n):
    reg = I.registry
    for _ in range(n):
        names = [gen_name(r) for _ in range(r.choice([1, 1, 2, 3, 4]))]
        for nm in names[:2]:
            e = reg.escape(nm)
            R.add(Case({'op': 'esc', 'name': nm}, impl=wire.enc(e), kind='name', tags=('esc',)), 'esc\t' + wire.enc(nm))
            try:
                u = canon_res('ok', reg.unescape(nm));
                if has_surrogate(reg.unescape(nm)): u = None
            except UnicodeDecodeError:
                u = 'bad'
            R.add(Case({'op': 'unesc', 'name': nm}, impl=u, kind='name', tags=('unesc',)), 'unesc\t' + wire.enc(nm),
                  post_unm(lambda c: unm_justified_codec(c.input['name'])))
        j = reg.join(names)
        try:
            back = reg.split(j)
        except Exception as e:
            back = 'raised %s' % type(e).__name__
        ok = (back == names)
        fid = finding_of_names(names[:-1]) if not ok else finding_of_names(names[:-1])
        R.add(Case({'op': 'join', 'names': names}, impl=wire.enc(j), oracle_ok=ok, kind='name', finding=fid,
                   oracle_msg='' if ok else 'split(join(%r)) = %r' % (names, back),
                   tags=('join', 'n%d' % len(names)) + (('in-finding-class',) if fid else ())), 'join\t' + wire.enc_list(names))
        t = j if r.random() < 0.6 else gen_name(r) + '.' + gen_name(r)
        try:
            sp = reg.split(t)
            si = 'ok\t' + wire.enc_list(sp) if not any(has_surrogate(x) for x in sp) else None
        except UnicodeDecodeError:
            si = 'fail'
        R.add(Case({'op': 'split', 'name': t}, impl=si, kind='name', tags=('split',)), 'split\t' + wire.enc(t),
              lambda o, c: None if (o == 'fail' and c.impl is None) else o)

# ------------------------------------------------------------------------------------------
# run / replay
# ------------------------------------------------------------------------------------------
def explore(ctx, scale, seed_stream='c15'):
    I = Impl()
    R = Run()
    r = rng.make(seed_stream)
    stream_codec(I, R, r, 1500 * scale)
    stream_values(I, R, r, 12 * scale, 120)
    stream_texts(I, R, r, 3000 * scale)
    stream_files(I, R, r, 1500 * scale)
    stream_names(I, R, r, 1500 * scale)
    return I, R

def run(ctx):
    build = leanbuild.ensure(PROPERTY, THEOREMS, thorough=ctx.thorough, extractors=['Registry'])
    scale = 25 if ctx.thorough else 1
    I, R = explore(ctx, scale)
    if build.driver_ok:
        cases = R.fill()
    else:
        cases = R.cases
    def search(disagreements, broken):
        I2, R2 = explore(ctx, 4, seed_stream='c15-search')
        return [c for c in R2.cases if c.oracle_ok is False]
    return verdict.conclude(PROPERTY, ctx.tier, ctx.seed, build, cases, search=search, rule=RULE,
                            trusted_base=TRUSTED, finding_status={},
                            assumptions=['Python asserts enabled', 'strings are valid Unicode scalar sequences (no lone surrogates)',
                                         'integers have fewer digits than sys.get_int_max_str_digits()'],
                            t0=ctx.t0)

def replay(ctx, path):
    d = json.load(open(path))
    c = d.get('case') or d.get('first_disagreement')
    print(json.dumps(c, indent=1, ensure_ascii=False))
    return 0
