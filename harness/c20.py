"""C20 — loading / unloading / reloading plugins keeps the dispatcher consistent and ordered.

Implementation side: a live bot (real irclib.Irc, real Owner/Misc/User plugins, world.testing False)
plus six synthetic plugins VtOrd0..5 whose callBefore/callAfter sets and failure behaviour (module
raises ImportError / another exception, constructor raises, die() raises) are dictated per trial.
Random histories of `load` / `unload` / `reload` are sent as IRC commands of an owner; after every
step the harness records the reply, irc.callbacks, the order in which the plugins saw a PRIVMSG and
which probe commands answer.

Model side: lean/LimnoriaModel/C20/Model.lean runs the same history; the iteration order of the
Python sets — a parameter of the model — is instantiated with the order the implementation
produced, so the comparison is exact while any valid enumeration is accepted.
The property oracle (unique registration, declared constraints hold, Owner first, commands = union,
failed loads change nothing, Owner cannot be removed) is evaluated on the implementation only."""
import json, os, re, sys, types
from vlib import wire, rng, leanbuild, verdict, bot
from vlib.verdict import Case

PROPERTY = 'C20'
MANIFEST = {
 'level_text': 'Lean 4 theorems about a model of Irc.addCallback/getCallback/removeCallback, IrcCallback/Owner/Misc.callPrecedence and the control flow of Owner.load/unload/reload: for every iteration order of the Python sets the computed order is a permutation of the callbacks in which every resolved before/after edge holds (order_sound), Owner is first and Misc last (owner_first, misc_last), constraint sets admitting no order are rejected and leave the list unchanged (cycle_rejected) while every constraint set that admits an order is accepted (acyclic_accepted), the loop never needs more rounds than callbacks (fuel_enough); along every history of load/unload/reload with arbitrary failures the list keeps unique names, satisfied edges and Owner first (history_inv), failed loads and attempts on Owner change nothing (load_failure_preserves, owner_stays), a reload whose module cannot be imported (ImportError or any other exception) puts the untouched old instance back (reload_failure_preserves), a plugin naming itself in callBefore/callAfter is rejected as a cycle (self_reference_rejected), the answered commands are exactly those of the registered plugins (commands_union), also through the C14 model of findCallbacksForArgs/finalEval (commands_dispatch); the persisted supybot.plugins.<Name> flags follow load/unload (flag_tracks) and the start-up loader Owner._loadPlugins keeps the invariant, drops nothing and adds only flagged or forced-important plugins (startup_inv, unloaded_stays_out); all Irc objects (networks) refer to one list object that the commands only mutate in place, so every network sees the same list after any history (shared_view, shared_history), also networks connected or disconnected in the middle of it (late_network_sees_all); command renames (Owner.rename/unrename, re-applied by loadPluginClass on every load) change nothing but command names (renames_keep_identity). The model is tied to /repo by a differential run of seeded random histories against a live bot with synthetic plugins (arbitrary callBefore/callAfter incl. unknown names, cycles, case variants, raising __init__/die/callPrecedence/import with %-laden messages while the production logging path runs, method names shared between plugins as command and as helper), which also evaluates the property statement on the implementation after every step.',
 'level_note': 'Trusted: Lean kernel; axioms propext/Classical.choice/Quot.sound only; the correspondence harness and its synthetic plugins; names are ASCII (str.lower modelled on ASCII). Modelled and proved: the topological sort of addCallback with its set-order freedom, case-insensitive lookup/removal, the callPrecedence variants (a self-reference is a one-element cycle), the success/failure paths of load (incl. --deprecated) / unload / reload, the flag registration of conf.registerPlugin, the start-up loader with importantPlugins / alwaysLoadImportant, Irc objects created and killed during a history, Owner.rename / unrename and the re-application of renames at load time (a rename whose command no longer exists in the version on disk makes every later load of that plugin raise). Exercised only: importing modules from disk, conf.registerPlugin flags, command dispatch of the probe commands (C14 covers dispatch). Known finding kept in the model: reload loses the plugin when the new constructor raises or the new instance closes a cycle, because the old instance has been killed by then (reload_failure_partial, reload_ctor_counter).',
 'technique': 'Lean 4 proof (loop invariants over the extraction rounds, history induction) + differential correspondence on a live bot',
 'design_ref': 'DESIGN.md §6 C20',
}
THEOREMS = ['C20.order_sound', 'C20.owner_first', 'C20.misc_last', 'C20.cycle_rejected', 'C20.acyclic_accepted',
            'C20.fuel_enough', 'C20.duplicate_rejected', 'C20.history_inv', 'C20.load_failure_preserves',
            'C20.owner_stays', 'C20.reload_failure_preserves', 'C20.reload_failure_partial',
            'C20.reload_ctor_counter', 'C20.self_reference_rejected', 'C20.commands_union',
            'C20.shared_view', 'C20.shared_history', 'C20.startup_inv', 'C20.unloaded_stays_out', 'C20.flag_tracks',
            'C20.commands_dispatch', 'C20.late_network_sees_all', 'C20.renames_keep_identity']
TRUSTED = ['Lean 4.33.0 kernel; axioms ⊆ {propext, Classical.choice, Quot.sound}',
           'harness/c20.py generators, reply canonicalisation, synthetic plugins harness/plugins/VtOrd0..5',
           'plugin names are ASCII (str.lower modelled on the ASCII range)',
           'parameter: iteration order of Python sets (instantiated per step with the order the implementation produced; theorems hold for every order)']
RULE = ('one case = one trial: a random constraint assignment (acyclic / cyclic / self-referencing / unknown names / case variants) for six '
        'synthetic plugins and a random history of load/unload/reload commands (case variants, .py suffix, Owner/Misc/User as targets, '
        'injected import/constructor/die failures) sent to the live bot on either of two networks, the plugin module changing version (command set) between (re)loads; compared per step: '
        'reply class, irc.callbacks names on both networks, probe commands answered through the real dispatcher.  Non-trivial = at least one tag (all trials have some); distinct = distinct trial description.')

PLUGDIR = os.path.join(os.path.dirname(os.path.abspath(__file__)), 'plugins')
VT = ['VtOrd%d' % i for i in range(9)]
# name on disk != registered name: VtOrd6 lives in a directory spelt VTORD6, VtOrd7 in a directory called VtGreeter
# and VtOrd8 in VtOrd1Extra — a directory whose name extends VtOrd1's, in a plugin directory that is listed first
DIR_OF = {'VtOrd6': 'VTORD6', 'VtOrd7': 'VtGreeter', 'VtOrd8': 'VtOrd1Extra'}
CLASS_OF_DIR = dict((DIR_OF.get(v, v).lower(), v) for v in VT)
BASE = ('Owner', 'Misc', 'User')
F_RELOAD = 'C20-reload-loses-plugin'

_cfg = None
def get_bot():
    global _cfg
    if _cfg is None:
        _cfg = types.ModuleType('vt_c20')
        reset_cfg(_cfg)
        sys.modules['vt_c20'] = _cfg
    b = bot.full(plugins=BASE, plugin_dirs=[os.path.join(PLUGDIR, '_c20_first'), PLUGDIR])
    if not getattr(b, 'c20_ready', False):
        bot.register_welcome(b)
        u = b.ircdb.users.newUser(); u.name = 'boss'; u.addCapability('owner'); u.addHostmask('boss!b@h')
        b.ircdb.users.setUser(u)
        # a second network: its Irc object shares the callback list with the first (Irc.__init__ default argument)
        b.conf.registerNetwork('test2')
        b.conf.supybot.networks.test2.ssl.setValue(False)
        b.irc2 = b.irclib.Irc('test2')
        b.irc2.feedMsg(b.ircmsgs.IrcMsg(':server 001 %s :Welcome' % b.nick))
        while b.irc2.takeMsg() is not None:
            pass
        b.ircs = [b.irc, b.irc2]
        # the production logging path: supybot formats every record (the firewall around die()/callPrecedence()/__call__
        # reports what it swallows through it); records of level WARNING and above go to the scratch log file
        import logging
        logging.disable(logging.NOTSET)
        b.conf.supybot.log.level.set('WARNING')
        b.c20_ready = True
    return b, _cfg

def reset_cfg(c):
    c.before = {}; c.after = {}; c.init_raises = set(); c.die_raises = set(); c.import_fails = set()
    c.import_other = set(); c.log = []; c.seen = []; c.version = {}; c.serial = 0; c.deprecated = set(); c.prec_raises = set()

def say(b, text, which=0):
    """send a command of the owner on the given network, return the texts of the replies"""
    irc = b.ircs[which]
    irc.feedMsg(b.ircmsgs.privmsg('test', text, prefix='boss!b@h'))
    out = []
    for _ in range(1000):
        m = irc.takeMsg()
        if m is None:
            break
        out.append(m.args[1] if len(m.args) > 1 else str(m))
    return out

def names(b, which=0):
    return [cb.name() for cb in b.ircs[which].callbacks]

def canon_reply(rs):
    if len(rs) != 1:
        return 'replies:%d' % len(rs)
    r = rs[0]
    if r.startswith('The operation succeeded'): return 'success'
    if 'An error has occurred' in r: return 'exception'
    if 'is already loaded' in r: return 'error:already loaded'
    if 'is deprecated' in r: return 'error:deprecated'
    if 'is not a valid plugin' in r: return 'error:invalid plugin'
    if 'is not a valid command in' in r: return 'error:invalid command'
    if 'already has an attribute named' in r: return 'error:attribute exists'
    if "You can't unload" in r: return "error:can't unload Owner"
    if "You can't reload" in r: return "error:can't reload Owner"
    if r.startswith('Error:'): return 'error:no plugin'
    return 'other:' + r[:40]

def hard_reset(b, c):
    """bring the bot back to Owner, User, Misc, whatever the last trial left behind"""
    reset_cfg(c)
    for n in names(b):
        if n not in BASE:
            for cb in b.irc.removeCallback(n):
                try:
                    cb.die()
                except Exception:
                    pass
    for n in VT:
        try:
            b.conf.supybot.plugins.unregister(n)
        except Exception:
            pass
        try:
            b.conf.supybot.commands.renames.unregister(n)
        except Exception:
            pass
    while len(b.ircs) > 2:
        extra = b.ircs.pop()
        try:
            extra.die()
        except Exception:
            pass
        if extra in b.world.ircs:
            b.world.ircs.remove(extra)
    for n in BASE:
        b.conf.supybot.plugins.get(n).setValue(False)
    b.conf.supybot.commands.defaultPlugins.importantPlugins.setValue(set(BASE))
    b.conf.supybot.plugins.alwaysLoadImportant.setValue(True)
    for irc in b.ircs:
        if irc.callbacks is not b.irc.callbacks:
            irc.callbacks = b.irc.callbacks      # a previous trial may have left the networks with different lists
    for n in BASE:
        if b.irc.getCallback(n) is None:
            bot.load_plugin(b, n)
    for irc in b.ircs:
        while irc.takeMsg() is not None:
            pass

# ---------------- trial generation ----------------
OTHER_NAMES = ['User', 'Misc', 'Owner', 'Ghost', 'Nothere', 'user', 'MISC']

def case_variant(r, n):
    k = r.randint(0, 5)
    if k == 0: return n.lower()
    if k == 1: return n.upper()
    if k == 2: return n + '.py'
    if k == 3: return n[0].lower() + n[1:]
    return n

def gen_graph(r):
    """(before, after, class) for VtOrd0..5"""
    k = r.randint(0, 9)
    before = {}; after = {}
    cls = 'acyclic'
    # base: random DAG along a random permutation
    perm = VT[:]; r.shuffle(perm)
    dens = r.choice([0.0, 0.2, 0.4, 0.7])
    for i, a in enumerate(perm):
        for bname in perm[i + 1:]:
            if r.random() < dens:
                if r.random() < 0.5:
                    before.setdefault(a, []).append(r.choice([bname, bname.lower(), bname.upper()]) if r.random() < 0.3 else bname)
                else:
                    after.setdefault(bname, []).append(a)
    for n in VT:
        if r.random() < 0.25:
            (before if r.random() < 0.5 else after).setdefault(n, []).append(r.choice(['Ghost', 'Nothere', 'User', 'user']))
    if k == 0:
        cls = 'cyclic2'
        a, bname = r.sample(VT, 2)
        before.setdefault(a, []).append(bname); before.setdefault(bname, []).append(a)
    elif k == 1:
        cls = 'cyclic3'
        a, bname, cname = r.sample(VT, 3)
        before.setdefault(a, []).append(bname); after.setdefault(cname, []).append(bname); before.setdefault(cname, []).append(a)
    elif k == 2:
        cls = 'before-owner'
        before.setdefault(r.choice(VT), []).append(r.choice(['Owner', 'owner']))
    elif k == 3:
        cls = 'after-misc'
        after.setdefault(r.choice(VT), []).append('Misc')
    elif k == 4:
        cls = 'selfref'
        a = r.choice(VT)
        (before if r.random() < 0.5 else after).setdefault(a, []).append(r.choice([a, a.lower()]))
    elif k == 5:
        cls = 'mixed-with-user'
        before.setdefault(r.choice(VT), []).append('User'); after.setdefault(r.choice(VT), []).append('User')
    return before, after, cls

def gen_ops(r, n):
    ops = []
    for _ in range(n):
        x = r.random()
        tgt = r.choice(VT + ['VtGreeter', 'VtGreeter', 'VTORD6', 'VtOrd1Extra', 'VtOrd1', 'VtOrd1']) if r.random() < 0.85 else r.choice(['Owner', 'owner', 'OWNER', 'User', 'Misc', 'Ghost', 'Owner.py'])
        fault = ''
        y = r.random()
        if y < 0.04: fault = 'die+ctor'
        elif y < 0.08: fault = 'import'
        elif y < 0.13: fault = 'other'
        elif y < 0.21: fault = 'ctor'
        elif y < 0.27: fault = 'die'
        if x < 0.45: kind = 'load'
        elif x < 0.65: kind = 'unload'
        elif x < 0.82: kind = 'reload'
        elif x < 0.88: kind = 'startup'
        elif x < 0.94: kind = 'rename'
        elif x < 0.96: kind = 'unrename'
        elif x < 0.985: kind = 'connect'
        else: kind = 'disconnect'
        ops.append({'op': kind, 'name': case_variant(r, tgt) if tgt in VT or tgt.startswith('V') or r.random() < 0.5 else tgt, 'fault': fault,
                    'irc': 1 if r.random() < 0.5 else 0,          # the network the command arrives on
                    'bump': r.random() < 0.6,                      # the plugin's module "on disk" changes first
                    'dep': r.random() < 0.4,                       # load --deprecated
                    'sfaults': {v: r.choice(FAULTS[:3]) for v in VT if r.random() < 0.12} if kind == 'startup' else {}})
        if kind in ('rename', 'unrename'):
            v = r.choice(VT)
            ops[-1]['name'] = r.choice([v, v.lower(), v.upper()])
            ops[-1]['cmd'] = r.choice(['ord' + v[-1], 'alt' + v[-1], 'zz' + v[-1] + 'a', 'zz' + v[-1] + 'b'])
            ops[-1]['new'] = r.choice(['zz' + v[-1] + 'a', 'zz' + v[-1] + 'b', 'ord' + v[-1], 'alt' + v[-1]])
            ops[-1]['irc'] = r.choice([0, 1, 2])
        if kind in ('load', 'unload', 'reload', 'startup') and r.random() < 0.2:
            ops[-1]['irc'] = 2          # the network connected later, when there is one

    return ops

def reg_name(n):
    """the registered name (class name) this command argument designates, up to case"""
    for k in VT + list(BASE):
        if k.lower() == n.lower():
            return k
    return None

def flags_of(b):
    """supybot.plugins.<Name> for the plugins of the trial, in the order the start-up loader sees them"""
    return [(n, bool(v())) for (n, v) in b.conf.supybot.plugins.getValues(fullNames=False) if n in VT or n in BASE]

def enc_flags(fl):
    return '-' if not fl else ','.join('%s:%d' % (wire.enc(n), 1 if v else 0) for n, v in fl)

FAULTS = ('import', 'other', 'ctor', 'die')
def fault_bits(fault, deprecated=False, ignore=False):
    fs = set(fault.split('+'))
    return ''.join('1' if x in fs else '0' for x in FAULTS) + ('1' if deprecated else '0') + ('1' if ignore else '0')

def real_name(n):
    """the plugin class that plugin.loadPluginModule finds for this name (directories are matched without
    regard to case), None when there is no such directory"""
    n = n[:-3] if n.endswith('.py') else n
    if n.lower() in CLASS_OF_DIR:
        return CLASS_OF_DIR[n.lower()]
    for k in BASE:
        if k.lower() == n.lower():
            return k
    return None

# ---------------- running a trial on the implementation ----------------
def shared_name(n):
    """the method name VtOrd(2k) and VtOrd(2k+1) share: a command in the former, a helper in the latter"""
    return 'vtsh%d' % (int(n[-1]) // 2)

def commands_of(n, version):
    if n not in VT:
        return []
    return (['ord' + n[-1]] + (['alt' + n[-1]] if version % 2 == 1 else []) +
            ([shared_name(n)] if int(n[-1]) % 2 == 0 else []))

def describe_plugin(c, n, version=None):
    """model description of plugin n (its declared constraints, kind, probe command)"""
    kind = 'owner' if n == 'Owner' else 'misc' if n == 'Misc' else 'plain'
    enc = lambda xs: '-' if not xs else '+'.join(wire.enc(x) for x in xs)
    if n in getattr(c, 'prec_raises', ()):
        # its callPrecedence raises: the firewall answers ([], []) in its place, the plugin has no constraints
        return '%s/%s/-/-/%s' % (wire.enc(n), kind, enc(commands_of(n, c.version.get(n, 0) if version is None else version)))
    cmds = commands_of(n, c.version.get(n, 0) if version is None else version)
    return '%s/%s/%s/%s/%s' % (wire.enc(n), kind, enc(c.before.get(n, [])), enc(c.after.get(n, [])), enc(cmds))

def resolved_constraints(b, c):
    """(a, b, owner of the declaration, self-reference?) pairs 'a must come before b', resolved against the
    callback list itself (first callback with that name, case-insensitively) — not through Irc.getCallback"""
    cbs = list(b.irc.callbacks)
    def find(x):
        for cb in cbs:
            if cb.name().lower() == x.lower():
                return cb
        return None
    out = []
    for cb in cbs:
        n = cb.name()
        if n not in VT or n in getattr(c, 'prec_raises', ()):
            continue
        selfref = False
        decl = []
        for x in c.before.get(n, []):
            o = find(x)
            if o is not None:
                decl.append((n, o.name()))
                selfref = selfref or o is cb
        for x in c.after.get(n, []):
            o = find(x)
            if o is not None:
                decl.append((o.name(), n))
                selfref = selfref or o is cb
        for d in decl:
            if d[0] != d[1]:
                out.append((d[0], d[1], n, selfref))
    return out

def run_trial(b, c, trial):
    """returns (impl lines, model lines, problems, finding, tags)"""
    hard_reset(b, c)
    c.before = {k: list(v) for k, v in trial['before'].items()}
    c.after = {k: list(v) for k, v in trial['after'].items()}
    c.deprecated = set(trial.get('deprecated', ()))
    c.prec_raises = set(trial.get('prec_raises', ()))
    important = list(trial.get('important', BASE)); always = trial.get('always', True)
    b.conf.supybot.commands.defaultPlugins.importantPlugins.setValue(set(important))
    b.conf.supybot.plugins.alwaysLoadImportant.setValue(bool(always))
    impl = []; lines = []; problems = []; findings = set(); tags = set(['graph:' + trial['class']])
    probed = [None]
    lines.append('reset\t%s\t%s' % (','.join(describe_plugin(c, n) for n in names(b)), enc_flags(flags_of(b))))
    impl.append('ok')
    for si, op in enumerate(trial['ops']):
        before_names = names(b)
        before_flags = dict(flags_of(b))
        kind, nm, fault = op['op'], op['name'], op['fault']
        rn = real_name(nm)
        if rn not in VT:
            fault = ''            # the failure knobs exist only in the synthetic plugins
        which = op.get('irc', 0)
        if which >= len(b.ircs):
            which = 0
        dep = bool(op.get('dep')) and kind == 'load'
        extra_line = None
        if kind == 'connect':
            # a network is connected while plugins are loaded: irclib.Irc(network), as Owner._connect does (the start-up
            # loader it then runs is the separate 'startup' op)
            if len(b.ircs) < 3:
                if not hasattr(b.conf.supybot.networks, 'test3'):
                    b.conf.registerNetwork('test3')
                    b.conf.supybot.networks.test3.ssl.setValue(False)
                irc3 = b.irclib.Irc('test3')
                irc3.feedMsg(b.ircmsgs.IrcMsg(':server 001 %s :Welcome' % b.nick))
                while irc3.takeMsg() is not None:
                    pass
                b.ircs.append(irc3)
                extra_line = 'connect'
            reply = 'success'; nm = 'connect'; rn = None; fault = ''
        elif kind == 'disconnect':
            if len(b.ircs) > 2:
                b.ircs.pop().die()
                extra_line = 'disconnect\t2'
            reply = 'success'; nm = 'disconnect'; rn = None; fault = ''
        elif kind == 'rename':
            reply = canon_reply(say(b, 'rename %s %s %s' % (nm, op['cmd'], op['new']), which))
            extra_line = 'rename\t%d\t%s\t%s\t%s' % (which, wire.enc(nm), wire.enc(op['cmd']), wire.enc(op['new']))
            rn = reg_name(nm); fault = ''
        elif kind == 'startup':
            # Owner._loadPlugins(irc), as run when a network is connected; failures injected per plugin
            sf = {k: v for k, v in op.get('sfaults', {}).items()}
            c.import_fails = set(k for k, v in sf.items() if v == 'import')
            c.import_other = set(k for k, v in sf.items() if v == 'other')
            c.init_raises = set(k for k, v in sf.items() if v == 'ctor')
            try:
                b.irc.getCallback('Owner')._loadPlugins(b.ircs[which])
                reply = 'success'
            except Exception as e:
                reply = 'raised:' + type(e).__name__
                problems.append('step %d: the start-up loader raised %s: %s' % (si, type(e).__name__, e))
            for irc in b.ircs:
                while irc.takeMsg() is not None:
                    pass
            nm = 'startup'; rn = None
            tags.update('sfault:' + v for v in sf.values())
        else:
            if kind == 'unrename':
                # the reload inside unrename looks the plugin up on disk under its registered (class) name
                cls = reg_name(nm)
                rn = real_name(cls) if cls else None
                if rn not in VT:
                    fault = ''
            fs = set(fault.split('+'))
            c.import_fails = set([rn]) if 'import' in fs and rn else set()
            c.import_other = set([rn]) if 'other' in fs and rn else set()
            c.init_raises = set([rn]) if 'ctor' in fs and rn else set()
            c.die_raises = set([rn]) if 'die' in fs and rn else set()
            if op.get('bump') and rn in VT and kind in ('load', 'reload'):
                # the module "on disk" changes between two (re)loads: other command set, told apart by alt<i>
                c.version[rn] = c.version.get(rn, 0) + 1
                tags.add('version-bump')
            reply = canon_reply(say(b, '%s %s%s' % (kind, '--deprecated ' if dep else '', nm), which))
        c.import_fails = set(); c.import_other = set(); c.init_raises = set(); c.die_raises = set()
        after_names = names(b, 0)
        other_names = names(b, 1)
        third_names = names(b, 2) if len(b.ircs) > 2 else None
        nets = tuple(range(len(b.ircs)))
        for net in nets[1:]:
            if names(b, net) != after_names:
                problems.append('step %d (%s %s on network %d): network %d sees another callback list than network 0: %r vs %r' % (
                    si, kind, nm, which, net, names(b, net), after_names))
        # probes: every command is sent through the real dispatcher, on both networks
        answered = []
        last = (si == len(trial['ops']) - 1)
        probe = VT if (last or trial.get('probe_all')) else [v for v in VT if v == rn or v == reg_name(nm) or v == VT[(si * 5 + len(nm)) % len(VT)]]
        probed_cmds = set()
        for v in probe:
            inst = None
            for cb_ in b.irc.callbacks:
                if cb_.name() == v:
                    inst = cb_
            have = set(inst.listCommands()) if inst is not None else set()
            for cmd in ('ord' + v[-1], 'alt' + v[-1], 'zz' + v[-1] + 'a', 'zz' + v[-1] + 'b'):
                probed_cmds.add(cmd)
                should = cmd in have
                for net in nets:
                    rs = say(b, cmd, net)
                    ok = len(rs) == 1 and (rs[0].startswith('%s here g' % v) or rs[0].startswith('%s alt g' % v))
                    if net == 0 and ok:
                        answered.append(cmd)
                    if should and not (ok and rs[0].endswith(' g%d' % inst.vt_serial)):
                        problems.append('step %d (%s %s): %s is registered (instance %d, version %d, commands %r) but %s on network %d gives %r' % (
                            si, kind, nm, v, inst.vt_serial, inst.vt_version, sorted(have), cmd, net, rs))
                    elif not should and ok:
                        problems.append('step %d (%s %s): no registered plugin has the command %s, yet network %d answers %r' % (
                            si, kind, nm, cmd, net, rs))
            # the method name this plugin shares with its neighbour: a command in VtOrd(2k), a helper in VtOrd(2k+1)
            sh = shared_name(v); owner_n = 'VtOrd%d' % (2 * (int(v[-1]) // 2))
            owner_inst = None
            for cb_ in b.irc.callbacks:
                if cb_.name() == owner_n:
                    owner_inst = cb_
            if sh not in probed_cmds:
                probed_cmds.add(sh)
                for net in nets:
                    rs = say(b, sh, net)
                    ok = len(rs) == 1 and rs[0].startswith('%s shared g' % owner_n)
                    if net == 0 and ok:
                        answered.append(sh)
                    if owner_inst is not None and not (ok and rs[0].endswith(' g%d' % owner_inst.vt_serial)):
                        problems.append('step %d (%s %s): %s is registered and has the command %s, but network %d answers %r' % (
                            si, kind, nm, owner_n, sh, net, rs))
                    elif owner_inst is None and (ok or any('shared' in x or 'TypeError' in x for x in rs)):
                        problems.append('step %d (%s %s): no registered plugin has the command %s, yet network %d answers %r' % (
                            si, kind, nm, sh, net, rs))
            if inst is not None:
                listed = sh in inst.listCommands()
                if listed != (int(v[-1]) % 2 == 0):
                    problems.append('step %d: %s.listCommands() %s %s (a %s there)' % (
                        si, v, 'lists' if listed else 'does not list', sh, 'command' if int(v[-1]) % 2 == 0 else 'helper method, not a command'))
            if inst is not None and b.conf.supybot.plugins.get(v).public() is not True:
                problems.append('step %d: supybot.plugins.%s.public is not set for a loaded plugin' % (si, v))
        for net in nets:
            c.seen[:] = []
            say(b, 'vtorder probe', net)
            seen = list(c.seen)
            want_seen = [n for n in after_names if n in VT]
            if seen != want_seen:
                problems.append('step %d: on network %d the plugins saw the message in order %r, irc.callbacks says %r' % (si, net, seen, want_seen))
        after_flags = flags_of(b)
        impl.append('%s\t%s\t%s\t%s\t%s\t%s' % (reply, wire.enc_list(after_names), wire.enc_list(other_names),
                                              wire.enc_list(sorted(answered)), enc_flags(after_flags),
                                              '~' if third_names is None else wire.enc_list(third_names)))
        probed.append(probed_cmds)
        # model line
        isdep = rn in c.deprecated if rn else False
        fbits = fault_bits(fault, isdep, dep)
        avail = '~'
        if rn is not None and (rn in VT or rn in BASE):
            avail = describe_plugin(c, rn)
        if kind in ('connect', 'disconnect', 'rename'):
            if extra_line is None:
                # nothing happened (already connected / nothing to disconnect): the model does a no-op unload of a ghost
                lines.append('unload\t0\t%s\t000000' % wire.enc('NoSuchPluginAtAll'))
                impl[-1] = 'error:no plugin' + impl[-1][len(reply):]
            else:
                lines.append(extra_line)
        elif kind == 'unrename':
            lines.append('unrename\t%d\t%s\t%s\t%s\t%s' % (which, wire.enc(nm), avail, fbits, wire.enc_list(after_names)))
        elif kind == 'unload':
            lines.append('unload\t%d\t%s\t%s' % (which, wire.enc(nm), fbits))
        elif kind == 'startup':
            disk = ','.join('%s=%s' % (wire.enc(DIR_OF.get(n, n)), describe_plugin(c, n)) for n in list(BASE) + VT)
            fm = ','.join('%s:%s' % (wire.enc(v), fault_bits(sf.get(v, ''), v in c.deprecated, False)) for v in VT)
            lines.append('startup\t%d\t%s\t%s\t%s\t%s\t%s' % (which, disk, fm, wire.enc_list(important), '1' if always else '0',
                                                                wire.enc_list(after_names)))
            # what the start-up loader may add: flagged (or important while alwaysLoadImportant) plugins only
            for n in after_names:
                if n not in before_names and not (before_flags.get(n) or (n in important and always)):
                    problems.append('step %d: the start-up loader registered %s although supybot.plugins.%s is off' % (si, n, n))
            for n in before_names:
                if n not in after_names:
                    problems.append('step %d: the start-up loader dropped %s' % (si, n))
        else:
            lines.append('%s\t%d\t%s\t%s\t%s\t%s' % (kind, which, wire.enc(nm), avail, fbits, wire.enc_list(after_names)))
        if isdep:
            tags.add('deprecated' + ('+flag' if dep else ''))
        if kind == 'load' and reply == 'success' and rn and dict(after_flags).get(rn) is not True:
            problems.append('step %d: load %s succeeded but supybot.plugins.%s is %r' % (si, nm, rn, dict(after_flags).get(rn)))
        if kind == 'unload' and reply == 'success' and reg_name(nm) and dict(after_flags).get(reg_name(nm)) is not False:
            problems.append('step %d: unload %s succeeded but supybot.plugins.%s is %r' % (si, nm, reg_name(nm), dict(after_flags).get(reg_name(nm))))
        tags.update(['op:' + kind, 'reply:' + reply.split(':')[0]] + (['fault:' + fault] if fault else []))
        # ---- property oracle on the implementation ----
        low = [n.lower() for n in after_names]
        if len(set(low)) != len(low):
            problems.append('step %d: a plugin is registered twice: %r' % (si, after_names))
        if 'Owner' not in after_names:
            problems.append('step %d (%s %s): Owner is gone: %r' % (si, kind, nm, after_names))
        elif after_names[0] != 'Owner':
            problems.append('step %d (%s %s): Owner is not first: %r' % (si, kind, nm, after_names))
        for (a, bb, who, selfref) in resolved_constraints(b, c):
            if after_names.index(a) > after_names.index(bb):
                msg = 'step %d (%s %s): declared constraint of %s violated: %s must come before %s in %r' % (si, kind, nm, who, a, bb, after_names)
                problems.append(msg + (' [the plugin names itself]' if selfref else ''))
        isowner = (nm[:-3] if nm.endswith('.py') else nm).lower() == 'owner'
        if kind == 'load' and reply != 'success' and after_names != before_names:
            problems.append('step %d: failed load %s (%s) changed the list: %r -> %r' % (si, nm, reply, before_names, after_names))
        if kind in ('unload', 'reload') and nm.lower() == 'owner' and (after_names != before_names or not reply.startswith("error:can't")):
            problems.append('step %d: %s %s: %s, %r -> %r' % (si, kind, nm, reply, before_names, after_names))
        if kind in ('reload', 'unrename') and reply != 'success' and sorted(after_names) != sorted(before_names):
            msg = 'step %d: failed reload %s (%s, fault %s) lost a plugin: %r -> %r' % (si, nm, reply, fault or 'cycle', before_names, after_names)
            if 'ctor' in fault or (fault == '' and reply == 'exception'):
                findings.add(F_RELOAD); tags.add('finding:reload-loses')
                problems.append(msg + ' [known class: reload after the old instance was removed]')
            else:
                problems.append(msg)
        if kind == 'load' and reply == 'success' and rn and rn not in after_names:
            problems.append('step %d: load %s succeeded but %s is not registered' % (si, nm, rn))
        reg = reg_name(nm)
        if kind == 'unload' and reply in ('success', 'exception') and reg and reg in after_names:
            problems.append('step %d: unload %s -> %s but %s is still registered' % (si, nm, reply, reg))
        # name lookups on every network (they also prime whatever a network caches per object)
        for net in nets:
            for v in VT + list(BASE):
                cbv = b.ircs[net].getCallback(v.swapcase() if (si + net) % 2 else v)
                if (cbv is not None) != (v in after_names) or (cbv is not None and cbv.name() != v):
                    problems.append('step %d (%s %s on network %d): network %d answers getCallback(%r) = %r while irc.callbacks is %r' % (
                        si, kind, nm, which, net, v, None if cbv is None else cbv.name(), after_names))
    return impl, lines, problems, findings, tags, probed

def classify(problems, findings):
    """a trial whose only oracle failures are of a known class is attributed to that class"""
    unknown = [p for p in problems if '[known class' not in p]
    if unknown:
        return None, unknown
    if F_RELOAD in findings and any('[known class' in p for p in problems):
        return F_RELOAD, problems
    return None, problems

def gen_trial(r, maxops):
    before, after, cls = gen_graph(r)
    t = {'before': before, 'after': after, 'class': cls, 'ops': gen_ops(r, r.randint(3, maxops))}
    t['deprecated'] = sorted(v for v in VT if r.random() < 0.15)
    t['important'] = sorted(BASE) + ([r.choice(VT)] if r.random() < 0.3 else [])
    t['always'] = r.random() < 0.7
    t['prec_raises'] = sorted(v for v in VT if r.random() < 0.1)      # their callPrecedence() raises
    return t

WITNESS_RELOAD = {'before': {}, 'after': {}, 'class': 'witness',
                  'ops': [{'op': 'load', 'name': 'VtOrd2', 'fault': ''}, {'op': 'reload', 'name': 'VtOrd2', 'fault': 'ctor'}]}
WITNESS_SELF = {'before': {'VtOrd3': ['VtOrd3', 'Owner']}, 'after': {}, 'class': 'witness',
                'ops': [{'op': 'load', 'name': 'VtOrd3', 'fault': ''}]}

def load_corpus():
    p = os.path.join(os.path.dirname(os.path.dirname(os.path.abspath(__file__))), 'corpus', 'C20', 'trials.json')
    try:
        return json.load(open(p))
    except OSError:
        return []

def explore(ctx, n, stream='c20', maxops=10, corpus=()):
    try:
        b, c = get_bot()
    except Exception as e:
        # the bundled core plugins themselves cannot be registered (e.g. Owner-before-all / Misc-after-all rejected)
        import traceback
        case = Case({'op': 'bootstrap', 'plugins': list(BASE)}, impl='bootstrap-failed', model='ok', oracle_ok=False,
                    oracle_msg='loading %s into a fresh Irc raised %s: %s' % (list(BASE), type(e).__name__, str(e)[:300]),
                    tags=('bootstrap',), kind='bootstrap')
        explore.probed = [[None]]
        explore.bootstrap_failed = True
        return [case], [], [(0, 0)]
    r = rng.make(stream)
    cases = []; all_lines = []; spans = []; case_probed = []
    trials = [(t, 'corpus') for t in corpus] + [(gen_trial(r, maxops), 'gen') for _ in range(n)]
    # the trials run in forked workers (a long-lived bot process slows down: Owner.unload/reload call gc.collect()
    # on a heap that grows with every plugin module ever imported)
    def work(w, item):
        trial, kind = item
        try:
            impl, lines, problems, findings, tags, probed = run_trial(b, c, trial)
        except Exception as e:
            # the bot got into a state the harness cannot even walk through: that is a failure of the property's
            # subject (an inconsistent dispatcher), reported with the trial as replay
            import traceback
            return {'impl': ['harness-stopped'], 'lines': [], 'problems': ['the trial could not be completed: %s: %s (%s)' % (
                        type(e).__name__, e, traceback.format_exc().strip().split('\n')[-3].strip())],
                    'findings': [], 'tags': ['trial-aborted'], 'probed': [None]}
        return {'impl': impl, 'lines': lines, 'problems': problems, 'findings': sorted(findings), 'tags': sorted(tags),
                'probed': [None if x is None else sorted(x) for x in probed]}
    results = par_map(work, trials, nworkers=10)
    for (trial, kind), res in zip(trials, results):
        if not res or '__exc__' in res:
            raise RuntimeError('trial %r failed in its worker: %s' % (trial, (res or {}).get('__exc__', 'worker died')))
        fid, shown = classify(res['problems'], set(res['findings']))
        case = Case(trial, impl='\n'.join(res['impl']), oracle_ok=not res['problems'], oracle_msg='; '.join(shown[:3]),
                    tags=res['tags'], finding=fid, kind=kind)
        cases.append(case)
        case_probed.append([None if x is None else set(x) for x in res['probed']])
        spans.append((len(all_lines), len(res['lines'])))
        all_lines += res['lines']
    explore.probed = case_probed
    return cases, all_lines, spans

def par_map(fn, items, nworkers=10):
    """run fn(worker, item) for every item in forked workers (round-robin split); results in item order"""
    import traceback
    nworkers = max(1, min(nworkers, len(items)))
    procs = []
    for w in range(nworkers):
        r, wfd = os.pipe()
        pid = os.fork()
        if pid == 0:
            rc = 0
            try:
                os.close(r)
                out = []
                for i in range(w, len(items), nworkers):
                    try:
                        out.append([i, fn(w, items[i])])
                    except Exception:
                        out.append([i, {'__exc__': traceback.format_exc()[-2000:]}])
                data = json.dumps(out).encode()
                while data:
                    k = os.write(wfd, data)
                    data = data[k:]
            except BaseException:
                rc = 3
            os._exit(rc)
        os.close(wfd)
        procs.append((pid, r))
    res = [None] * len(items)
    for pid, r in procs:
        chunks = []
        while True:
            bts = os.read(r, 1 << 16)
            if not bts:
                break
            chunks.append(bts)
        os.close(r)
        os.waitpid(pid, 0)
        try:
            for i, v in json.loads(b''.join(chunks).decode()):
                res[i] = v
        except ValueError:
            pass
    return res

def fill_model(cases, all_lines, spans):
    if getattr(explore, 'bootstrap_failed', False):
        return cases
    outs = wire.run_driver(PROPERTY, all_lines)
    for c, (a, n), probed in zip(cases, spans, explore.probed):
        got = []
        for o, pr in zip(outs[a:a + n], probed):
            f = o.split('\t')
            if len(f) == 6 and pr is not None:
                # the model lists the commands of all registered plugins; keep the probed ones, sorted
                f[3] = wire.enc_list(sorted(x for x in wire.dec_list(f[3]) if x in pr))
            got.append('\t'.join(f))
        c.model = '\n'.join(got)
    return cases

def finding_status(ctx):
    if getattr(explore, 'bootstrap_failed', False):
        return {}
    b, c = get_bot()
    st = {}
    _, _, problems, findings, _, _ = run_trial(b, c, WITNESS_RELOAD)
    problems = [p for p in problems if '[known class' in p]
    st[F_RELOAD] = (F_RELOAD in findings, "reload of a loaded plugin whose new constructor raises: the old instance is already dead and unregistered, the plugin is gone (%s)" % (problems[0] if problems else 'no longer reproduces'))
    hard_reset(b, c)
    return st

def run(ctx):
    build = leanbuild.ensure(PROPERTY, THEOREMS, thorough=ctx.thorough, extractors=[])
    n = 9000 if ctx.thorough else 900
    cases, lines, spans = explore(ctx, n, corpus=[WITNESS_RELOAD, WITNESS_SELF] + load_corpus())
    if build.driver_ok:
        fill_model(cases, lines, spans)
    def search(disagreements, broken):
        os.environ['VERIF_SEED'] = str(ctx.seed + 7919)
        try:
            more, _, _ = explore(ctx, 1500, 'c20-search', corpus=[d.input for d in disagreements[:20]])
        finally:
            os.environ['VERIF_SEED'] = str(ctx.seed)
        return [c for c in more if c.oracle_ok is False]
    return verdict.conclude(PROPERTY, ctx.tier, ctx.seed, build, cases, search=search, rule=RULE,
                            finding_status=finding_status(ctx), trusted_base=TRUSTED,
                            assumptions=['Python asserts enabled', 'ASCII plugin names', 'commands are sent by an owner (capability checks are C01)'],
                            t0=ctx.t0)

def replay(ctx, path):
    d = json.load(open(path))
    c = d.get('case') or d.get('first_disagreement')
    print(json.dumps(c, indent=1)[:3000])
    if not c:
        return 0
    if c['input'].get('op') == 'bootstrap':
        try:
            get_bot(); print('implementation now: the core plugins load'); return 0
        except Exception as e:
            print('implementation now: loading the core plugins raises %s: %s' % (type(e).__name__, e)); return 1
    b, cfg = get_bot()
    impl, lines, problems, findings, tags, _ = run_trial(b, cfg, c['input'])
    print('implementation now:')
    for l in impl[1:]:
        f = l.split('\t')
        print('  ', f[0], wire.dec_list(f[1]), wire.dec_list(f[2]), wire.dec_list(f[3]), f[4] if len(f) > 4 else '')
    print('oracle:', problems or 'ok')
    return 1 if problems else 0
