"""C02 inventory: every call site in src/ and plugins/ that changes a capability set
(IrcUser / IrcChannel / supybot.capabilities).  The Lean side (C02/Props.lean) fixes the list; a
new site (a new command that grants capabilities) breaks that obligation."""
import ast, os
from vlib.extractlib import extractor, lstr, llist, write_if_changed, ExtractionError
from vlib import REPO

METHODS = {'addCapability', 'removeCapability'}

def _is_capset(node):
    """`x.capabilities` or `conf.supybot.capabilities()`"""
    if isinstance(node, ast.Attribute) and node.attr == 'capabilities':
        return True
    if isinstance(node, ast.Call) and isinstance(node.func, ast.Attribute) and node.func.attr == 'capabilities':
        return True
    return False

def _scan(path, rel, out):
    try:
        tree = ast.parse(open(path, encoding='utf-8').read(), path)
    except (OSError, SyntaxError) as e:
        raise ExtractionError('%s: %s' % (rel, e))
    def visit(node, qual):
        for ch in ast.iter_child_nodes(node):
            q = qual
            if isinstance(ch, (ast.ClassDef, ast.FunctionDef, ast.AsyncFunctionDef)):
                q = qual + [ch.name]
            if isinstance(ch, ast.Call) and isinstance(ch.func, ast.Attribute):
                f = ch.func
                if f.attr in METHODS or (f.attr in ('add', 'remove', 'discard', 'clear', 'update') and _is_capset(f.value)):
                    out.append('%s:%s:%s' % (rel, '.'.join(qual), f.attr))
            if isinstance(ch, ast.Assign):
                for t in ch.targets:
                    if isinstance(t, ast.Attribute) and t.attr == 'capabilities' and '.'.join(qual).endswith('__init__') is False:
                        out.append('%s:%s:assign' % (rel, '.'.join(qual)))
            visit(ch, q)
    visit(tree, [])

@extractor('CapSites')
def gen_capsites():
    out = []
    src = os.path.join(REPO, 'src')
    for f in sorted(os.listdir(src)):
        if f.endswith('.py'):
            _scan(os.path.join(src, f), 'src/' + f, out)
    pl = os.path.join(REPO, 'plugins')
    for d in sorted(os.listdir(pl)):
        p = os.path.join(pl, d, 'plugin.py')
        if os.path.exists(p):
            _scan(p, 'plugins/%s/plugin.py' % d, out)
    if not out:
        raise ExtractionError('no capability mutation site found (scan broken?)')
    out = sorted(set(out))
    body = ('import LimnoriaModel.Py.Basic\nnamespace Gen.CapSites\n\n'
            '/-- every call that changes a capability set: file:enclosing definition:method -/\n'
            'def sites : List String :=\n  [%s]\n\nend Gen.CapSites\n' % ',\n   '.join('"%s"' % s for s in out))
    write_if_changed('CapSites.lean', body, 'src/*.py, plugins/*/plugin.py')
