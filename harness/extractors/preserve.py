"""C16/C02 tables: the line-oriented database format of src/ircdb.py and src/unpreserve.py.
 * the keyword of every line the four writers emit, in emission order (IrcUser/IrcChannel/
   IrcNetwork.preserve, the record headers written by the three *Dictionary.flush, IgnoresDB.flush);
 * the command vocabulary of the three reader classes (public methods of the *Creator classes)
   plus the other attribute names `hasattr(creator, command)` finds;
 * the rfc1459 case table, IrcChannel.defaultOff, the isChannel defaults, and the shape of the
   Reader.read loop (the sequence of str methods applied to a line).
Fails closed: anything not in the expected syntactic shape is an ExtractionError."""
import ast
from vlib.extractlib import (extractor, parse, find_assign, find_func, literal, lchar, lstr, llist,
                             write_if_changed, ExtractionError)


def _fmt_of(node, what):
    """format string of the argument of a write(...) call: 'kw %s' % x   or   'kw ' + x"""
    if isinstance(node, ast.BinOp) and isinstance(node.op, ast.Mod) and isinstance(node.left, ast.Constant) \
            and isinstance(node.left.value, str):
        return node.left.value
    if isinstance(node, ast.BinOp) and isinstance(node.op, ast.Add) and isinstance(node.left, ast.Constant) \
            and isinstance(node.left.value, str):
        return node.left.value + '%s'
    raise ExtractionError('%s: write() argument is not "fmt" %% x / "kw " + x' % what)


def _writes(func, what, fname='write', attr=None):
    """format strings of the calls write(<fmt> % …) inside `func`, in source order; the calls
    writing os.linesep are returned as the marker '\\n'."""
    out = []
    for n in ast.walk(func):
        pass
    class V(ast.NodeVisitor):
        def visit_FunctionDef(self, node):
            if node is func:
                self.generic_visit(node)
            # nested `def write(s)` helper: skipped (it is the line writer itself)
        def visit_Call(self, node):
            f = node.func
            hit = (isinstance(f, ast.Name) and f.id == fname and attr is None) or \
                  (isinstance(f, ast.Attribute) and f.attr == 'write' and isinstance(f.value, ast.Name)
                   and f.value.id == attr)
            if hit and len(node.args) == 1:
                a = node.args[0]
                if isinstance(a, ast.Attribute) and a.attr == 'linesep':
                    out.append('\n')
                else:
                    out.append(_fmt_of(a, what))
            self.generic_visit(node)
    V().visit(func)
    if not out:
        raise ExtractionError('%s: no write() calls found' % what)
    return out


def _public_methods(tree, cls):
    for n in tree.body:
        if isinstance(n, ast.ClassDef) and n.name == cls:
            meths = [m.name for m in n.body if isinstance(m, ast.FunctionDef)]
            attrs = []
            for m in n.body:
                if isinstance(m, ast.Assign):
                    for t in m.targets:
                        if isinstance(t, ast.Name):
                            if t.id == '__slots__':
                                v = ast.literal_eval(m.value)
                                attrs += [v] if isinstance(v, str) else list(v)
                            else:
                                attrs.append(t.id)
            bases = [b.id for b in n.bases if isinstance(b, ast.Name)]
            return meths, attrs, bases
    raise ExtractionError('class %s not found' % cls)


def _creator(tree, cls):
    meths, attrs, bases = _public_methods(tree, cls)
    if bases != ['Creator']:
        raise ExtractionError('%s: expected the single base class Creator' % cls)
    cmds = [m for m in meths if not m.startswith('_') and m != 'finish']
    if 'finish' not in meths:
        raise ExtractionError('%s has no finish()' % cls)
    # everything else hasattr() can find with a lower-case name and that is not a command
    others = sorted(set(a for a in attrs + ['finish'] if a == a.lower() and not a.startswith('_')) - set(cmds))
    return cmds, others


def _reader_shape(tree):
    """the str-method pipeline of unpreserve.Reader.read, as a list of 'method(args)' strings"""
    f = find_func(tree, 'read', cls='Reader')
    calls = []
    for n in ast.walk(f):
        if isinstance(n, ast.Call) and isinstance(n.func, ast.Attribute) and \
                n.func.attr in ('strip', 'rstrip', 'lstrip', 'expandtabs', 'split', 'normalizeCommand', 'finish', 'badCommand'):
            args = []
            for a in n.args:
                try:
                    args.append(repr(ast.literal_eval(a)))
                except Exception:
                    args.append('_')
            calls.append((n.lineno, n.col_offset, '%s(%s)' % (n.func.attr, ','.join(args))))
    calls.sort()
    norm = find_func(tree, 'normalizeCommand', cls='Reader')
    if not (len(norm.body) >= 1 and isinstance(norm.body[-1], ast.Return) and
            ast.unparse(norm.body[-1].value) == 's.lower()'):
        raise ExtractionError('Reader.normalizeCommand is not `return s.lower()`')
    return [c[2] for c in calls]


@extractor('Preserve')
def gen_preserve():
    tree = parse('src/ircdb.py')
    utree = parse('src/ircutils.py')
    rtree = parse('src/unpreserve.py')
    # ---- writers
    user_w = _writes(find_func(tree, 'preserve', cls='IrcUser'), 'IrcUser.preserve')
    chan_w = _writes(find_func(tree, 'preserve', cls='IrcChannel'), 'IrcChannel.preserve')
    net_w = _writes(find_func(tree, 'preserve', cls='IrcNetwork'), 'IrcNetwork.preserve')
    hdr = {}
    for cls in ('UsersDictionary', 'ChannelsDictionary', 'NetworksDictionary', 'IgnoresDB'):
        hdr[cls] = _writes(find_func(tree, 'flush', cls=cls), cls + '.flush', attr='fd')
    indents = []
    for cls in ('UsersDictionary', 'ChannelsDictionary', 'NetworksDictionary'):
        f = find_func(tree, 'flush', cls=cls)
        ind = [literal(k.value, 'indent') for n in ast.walk(f) if isinstance(n, ast.Call) and
               isinstance(n.func, ast.Attribute) and n.func.attr == 'preserve' for k in n.keywords if k.arg == 'indent']
        if len(ind) != 1 or not isinstance(ind[0], str):
            raise ExtractionError('%s.flush: expected one preserve(fd, indent=<str>) call' % cls)
        indents.append(ind[0])
    # ---- readers
    ucmd, uoth = _creator(tree, 'IrcUserCreator')
    ccmd, coth = _creator(tree, 'IrcChannelCreator')
    ncmd, noth = _creator(tree, 'IrcNetworkCreator')
    shape = _reader_shape(rtree)
    # ---- case table
    call = find_assign(utree, '_rfc1459trans')
    src = ast.unparse(call)
    want_prefix = "utils.str.MultipleReplacer(dict(list(zip(string.ascii_uppercase + "
    if not src.startswith(want_prefix) or ', string.ascii_lowercase + ' not in src:
        raise ExtractionError('_rfc1459trans: unexpected shape %s' % src)
    consts = [n.value for n in ast.walk(call) if isinstance(n, ast.Constant) and isinstance(n.value, str)]
    if len(consts) != 2 or len(consts[0]) != len(consts[1]):
        raise ExtractionError('_rfc1459trans: expected two string constants of equal length')
    import string
    pairs = list(zip(string.ascii_uppercase + consts[0], string.ascii_lowercase + consts[1]))
    tl = find_func(utree, 'toLower')
    if 'rfc1459' not in ast.unparse(tl) or '_rfc1459trans(s)' not in ast.unparse(tl):
        raise ExtractionError('toLower no longer defaults to _rfc1459trans')
    # ---- channel defaults
    default_off = literal(find_assign(tree, 'defaultOff', cls='IrcChannel'), 'IrcChannel.defaultOff')
    if not (isinstance(default_off, tuple) and all(isinstance(x, str) for x in default_off)):
        raise ExtractionError('IrcChannel.defaultOff: expected a tuple of strings')
    isch = find_func(utree, 'isChannel')
    dflt = [literal(d, 'isChannel default') for d in isch.args.defaults]
    if len(dflt) != 2 or not isinstance(dflt[0], str) or not isinstance(dflt[1], int):
        raise ExtractionError('isChannel: expected defaults (chantypes:str, channellen:int)')
    uh = literal(find_assign(utree, 'userHostmaskRe').args[0], 'userHostmaskRe pattern')

    def strs(xs):
        return llist(lstr(x) for x in xs)
    body = 'import LimnoriaModel.Py.Basic\nnamespace Gen.Preserve\n\n'
    body += '/-- format strings of the write() calls of IrcUser.preserve, in source order -/\n'
    body += 'def userWrites : List Py.Str :=\n  %s\n\n' % strs(user_w)
    body += '/-- … of IrcChannel.preserve -/\ndef chanWrites : List Py.Str :=\n  %s\n\n' % strs(chan_w)
    body += '/-- … of IrcNetwork.preserve -/\ndef netWrites : List Py.Str :=\n  %s\n\n' % strs(net_w)
    body += '/-- fd.write() calls of the four flush methods -/\n'
    body += 'def usersFlush : List Py.Str :=\n  %s\n' % strs(hdr['UsersDictionary'])
    body += 'def channelsFlush : List Py.Str :=\n  %s\n' % strs(hdr['ChannelsDictionary'])
    body += 'def networksFlush : List Py.Str :=\n  %s\n' % strs(hdr['NetworksDictionary'])
    body += 'def ignoresFlush : List Py.Str :=\n  %s\n\n' % strs(hdr['IgnoresDB'])
    body += '/-- indent= argument of the preserve() calls in the three flush methods -/\n'
    body += 'def flushIndents : List Py.Str :=\n  %s\n\n' % strs(indents)
    body += '/-- command methods of the reader classes (public methods other than finish) and the other\nlower-case attribute names `hasattr` finds on an instance -/\n'
    body += 'def userCommands : List Py.Str :=\n  %s\n' % strs(ucmd)
    body += 'def userOtherAttrs : List Py.Str :=\n  %s\n' % strs(uoth)
    body += 'def chanCommands : List Py.Str :=\n  %s\n' % strs(ccmd)
    body += 'def chanOtherAttrs : List Py.Str :=\n  %s\n' % strs(coth)
    body += 'def netCommands : List Py.Str :=\n  %s\n' % strs(ncmd)
    body += 'def netOtherAttrs : List Py.Str :=\n  %s\n\n' % strs(noth)
    body += '/-- str-method calls of unpreserve.Reader.read in source order -/\n'
    body += 'def readerShape : List Py.Str :=\n  %s\n\n' % strs(shape)
    body += '/-- ircutils._rfc1459trans as (upper, lower) pairs -/\n'
    body += 'def rfc1459 : List (Char × Char) :=\n  %s\n\n' % llist('(%s, %s)' % (lchar(a), lchar(b)) for a, b in pairs)
    body += 'def defaultOff : List Py.Str :=\n  %s\n' % strs(default_off)
    body += 'def chantypes : Py.Str := %s\n' % lstr(dflt[0])
    body += 'def channellen : Nat := %d\n' % dflt[1]
    body += 'def userHostmaskRe : Py.Str := %s\n' % lstr(uh)
    body += '\nend Gen.Preserve\n'
    write_if_changed('Preserve.lean', body, 'src/ircdb.py, src/ircutils.py, src/unpreserve.py')
