"""C10 tables: ircutils mode-argument tables and rfc1459 case table, irclib nick setters, the sigil
and mode-letter literals of ChannelState / IrcState.  Everything is read from the AST of the
current working tree; an unexpected shape is an ExtractionError (fail closed)."""
import ast
from vlib.extractlib import (extractor, parse, find_assign, find_func, literal, lchar, lstr, llist,
                             write_if_changed, ExtractionError)


def _strconst(node, what):
    if isinstance(node, ast.Constant) and isinstance(node.value, str):
        return node.value
    raise ExtractionError('%s: expected a string literal' % what)


def _eval_ascii(node, what):
    """evaluate  string.ascii_uppercase + r'...'  style expressions"""
    import string
    if isinstance(node, ast.Constant) and isinstance(node.value, str):
        return node.value
    if isinstance(node, ast.BinOp) and isinstance(node.op, ast.Add):
        return _eval_ascii(node.left, what) + _eval_ascii(node.right, what)
    if (isinstance(node, ast.Attribute) and isinstance(node.value, ast.Name) and node.value.id == 'string'
            and node.attr in ('ascii_uppercase', 'ascii_lowercase')):
        return getattr(string, node.attr)
    raise ExtractionError('%s: unsupported expression %s' % (what, ast.dump(node)[:80]))


def _find_call(node, name):
    for n in ast.walk(node):
        if isinstance(n, ast.Call) and isinstance(n.func, ast.Name) and n.func.id == name:
            return n
    return None


def _rfc1459(tree):
    v = find_assign(tree, '_rfc1459trans')
    if not (isinstance(v, ast.Call) and isinstance(v.func, ast.Attribute) and v.func.attr == 'MultipleReplacer'):
        raise ExtractionError('_rfc1459trans: expected utils.str.MultipleReplacer(...)')
    z = _find_call(v, 'zip')
    if z is None or len(z.args) != 2:
        raise ExtractionError('_rfc1459trans: zip(a, b) not found')
    a = _eval_ascii(z.args[0], '_rfc1459trans'); b = _eval_ascii(z.args[1], '_rfc1459trans')
    if len(a) != len(b) or len(set(a)) != len(a):
        raise ExtractionError('_rfc1459trans: key/value strings of different length or duplicate keys')
    # toLower(): casemapping None/'rfc1459' must use _rfc1459trans
    f = find_func(tree, 'toLower')
    src = ast.dump(f)
    if '_rfc1459trans' not in src:
        raise ExtractionError('toLower no longer uses _rfc1459trans')
    return list(zip(a, b))


def _in_consts(func, what):
    """all string constants used as right operand of `in` / `not in` / `==` or as lstrip argument, in source order"""
    out = []
    for n in ast.walk(func):
        if isinstance(n, ast.Compare) and len(n.ops) == 1 and isinstance(n.ops[0], (ast.In, ast.NotIn, ast.Eq)):
            c = n.comparators[0]
            if isinstance(c, ast.Constant) and isinstance(c.value, str):
                out.append((type(n.ops[0]).__name__, c.value, getattr(n, 'lineno', 0), getattr(n, 'col_offset', 0)))
        if isinstance(n, ast.Call) and isinstance(n.func, ast.Attribute) and n.func.attr == 'lstrip' and n.args:
            c = n.args[0]
            if isinstance(c, ast.Constant) and isinstance(c.value, str):
                out.append(('lstrip', c.value, n.lineno, n.col_offset))
    out.sort(key=lambda t: (t[2], t[3]))
    return out


def _add_user(tree):
    f = find_func(tree, 'addUser', cls='ChannelState')
    cs = _in_consts(f, 'addUser')
    kinds = [(k, v) for k, v, _, _ in cs]
    # expected: lstrip(ALL); `user[0] in ALL`; `marker in OPS`; `marker == '%'`; `marker == '+'`
    if [k for k, _ in kinds] != ['lstrip', 'In', 'In', 'Eq', 'Eq']:
        raise ExtractionError('ChannelState.addUser: unexpected shape %r' % (kinds,))
    strip_all, while_all, ops, half, voice = [v for _, v in kinds]
    if len(half) != 1 or len(voice) != 1:
        raise ExtractionError('ChannelState.addUser: halfop/voice markers are not single characters')
    # which set each branch adds to
    adds = []
    for n in ast.walk(f):
        if (isinstance(n, ast.Call) and isinstance(n.func, ast.Attribute) and n.func.attr == 'add'
                and isinstance(n.func.value, ast.Attribute) and isinstance(n.func.value.value, ast.Name)
                and n.func.value.value.id == 'self'):
            adds.append((n.lineno, n.func.value.attr))
    adds.sort()
    if [a for _, a in adds] != ['ops', 'halfops', 'voices', 'users']:
        raise ExtractionError('ChannelState.addUser: unexpected add() targets %r' % (adds,))
    return strip_all, while_all, ops, half, voice


def _one_const(tree, func, cls, kind, what):
    f = find_func(tree, func, cls=cls)
    cs = [v for k, v, _, _ in _in_consts(f, what) if k == kind]
    if len(cs) != 1:
        raise ExtractionError('%s: expected exactly one %s string constant, found %r' % (what, kind, cs))
    return cs[0]


def _getset(tree):
    """ChannelState.doMode.getSet: char -> attribute"""
    f = find_func(tree, 'doMode', cls='ChannelState')
    inner = [n for n in f.body if isinstance(n, ast.FunctionDef) and n.name == 'getSet']
    if len(inner) != 1:
        raise ExtractionError('ChannelState.doMode.getSet not found')
    pairs = []
    node = inner[0].body[0]
    while isinstance(node, ast.If):
        t = node.test
        if not (isinstance(t, ast.Compare) and isinstance(t.ops[0], ast.Eq) and isinstance(t.comparators[0], ast.Constant)):
            raise ExtractionError('getSet: unexpected test')
        a = node.body[0]
        if not (isinstance(a, ast.Assign) and isinstance(a.value, ast.Attribute) and a.value.value.id == 'self'):
            raise ExtractionError('getSet: unexpected branch body')
        pairs.append((t.comparators[0].value, a.value.attr))
        if len(node.orelse) == 1 and isinstance(node.orelse[0], ast.If):
            node = node.orelse[0]
        else:
            break
    return pairs


@extractor('ChanState')
def gen_chanstate():
    ut = parse('src/ircutils.py')
    lt = parse('src/irclib.py')
    plus = literal(find_assign(ut, '_plusRequireArguments'), '_plusRequireArguments')
    minus = literal(find_assign(ut, '_minusRequireArguments'), '_minusRequireArguments')
    if not (isinstance(plus, str) and isinstance(minus, str)):
        raise ExtractionError('_plus/_minusRequireArguments: expected str')
    trans = _rfc1459(ut)
    ns = find_assign(lt, '_nickSetters', cls='Irc')
    if not (isinstance(ns, ast.Call) and isinstance(ns.func, ast.Name) and ns.func.id == 'set' and len(ns.args) == 1):
        raise ExtractionError('Irc._nickSetters: expected set([...])')
    setters = literal(ns.args[0], '_nickSetters')
    if not all(isinstance(x, str) for x in setters):
        raise ExtractionError('_nickSetters: expected strings')
    strip_all, while_all, ops, half, voice = _add_user(lt)
    tracked = _one_const(lt, 'doMode', 'ChannelState', 'In', 'ChannelState.doMode')
    setforbid = _one_const(lt, 'setMode', 'ChannelState', 'NotIn', 'ChannelState.setMode')
    unsetforbid = _one_const(lt, 'unsetMode', 'ChannelState', 'NotIn', 'ChannelState.unsetMode')
    getset = _getset(lt)
    if not all(len(c) == 1 and a in ('ops', 'halfops', 'voices', 'bans') for c, a in getset):
        raise ExtractionError('getSet: unexpected pairs %r' % (getset,))
    f324 = find_func(lt, 'do324', cls='IrcState')
    skip324 = sorted(set(v for k, v, _, _ in _in_consts(f324, 'do324') if k == 'NotIn'))
    if len(skip324) != 1:
        raise ExtractionError('IrcState.do324: expected one "not in" constant, found %r' % (skip324,))
    strip353 = sorted(set(v for k, v, _, _ in _in_consts(find_func(lt, 'do353', cls='IrcState'), 'do353') if k == 'lstrip'))
    if len(strip353) != 1:
        raise ExtractionError('IrcState.do353: expected one lstrip constant, found %r' % (strip353,))
    ic = find_func(ut, 'isChannel')
    defaults = dict(zip([a.arg for a in ic.args.args][-len(ic.args.defaults):], [literal(d, 'isChannel default') for d in ic.args.defaults]))
    if set(defaults) != {'chantypes', 'channellen'}:
        raise ExtractionError('isChannel: unexpected defaults %r' % (defaults,))
    attr = {'ops': 0, 'halfops': 1, 'voices': 2, 'bans': 3}
    body = 'import LimnoriaModel.Py.Basic\nnamespace Gen\n\n'
    body += '/-- ircutils._plusRequireArguments -/\ndef plusRequireArguments : Py.Str := %s\n' % lstr(plus)
    body += '/-- ircutils._minusRequireArguments -/\ndef minusRequireArguments : Py.Str := %s\n' % lstr(minus)
    body += '/-- ircutils._rfc1459trans (pairs upper ↦ lower) -/\ndef rfc1459Trans : List (Char × Char) :=\n  %s\n' % llist('(%s, %s)' % (lchar(a), lchar(b)) for a, b in trans)
    body += '/-- irclib.Irc._nickSetters (sorted) -/\ndef nickSetters : List Py.Str :=\n  %s\n' % llist(lstr(x) for x in sorted(setters))
    body += '/-- ChannelState.addUser: characters stripped to obtain the nick -/\ndef sigilsStrip : Py.Str := %s\n' % lstr(strip_all)
    body += '/-- ChannelState.addUser: characters consumed by the marker loop -/\ndef sigilsLoop : Py.Str := %s\n' % lstr(while_all)
    body += '/-- ChannelState.addUser: markers that mean "op" -/\ndef sigilsOp : Py.Str := %s\n' % lstr(ops)
    body += 'def sigilHalfop : Char := %s\ndef sigilVoice : Char := %s\n' % (lchar(half), lchar(voice))
    body += '/-- IrcState.do353 (userhost-in-names): characters stripped from the item to obtain nick and hostmask -/\ndef sigils353 : Py.Str := %s\n' % lstr(strip353[0])
    body += '/-- ChannelState.doMode: mode letters handled as sets / ignored lists -/\ndef trackedModes : Py.Str := %s\n' % lstr(tracked)
    body += '/-- ChannelState.doMode.getSet: letter ↦ 0 ops, 1 halfops, 2 voices, 3 bans -/\ndef modeSets : List (Char × Nat) := %s\n' % llist('(%s, %d)' % (lchar(c), attr[a]) for c, a in getset)
    body += '/-- ChannelState.setMode / unsetMode assertions -/\ndef setModeForbidden : Py.Str := %s\ndef unsetModeForbidden : Py.Str := %s\n' % (lstr(setforbid), lstr(unsetforbid))
    body += '/-- IrcState.do324: letters skipped -/\ndef skip324 : Py.Str := %s\n' % lstr(skip324[0])
    body += '/-- ircutils.isChannel defaults -/\ndef chantypes : Py.Str := %s\ndef channellen : Nat := %d\n' % (lstr(defaults['chantypes']), defaults['channellen'])
    body += '\nend Gen\n'
    write_if_changed('ChanState.lean', body, 'src/ircutils.py, src/irclib.py')
