"""C12: constants of the reply-splitting code -> lean/LimnoriaModel/Gen/Reply.lean.
Sources: src/utils/str.py (splitBytes), src/ircutils.py (FormatContext, FormatParser),
src/callbacks.py (_makeReply, NestedCommandsIrcProxy.reply), src/ircmsgs.py (privmsg/notice).
Every constant is looked up in the syntactic place where the model uses it; anything that is not
found in that shape is an ExtractionError (fail closed)."""
import ast
from vlib.extractlib import (extractor, parse, find_func, lchar, lstr, write_if_changed, ExtractionError)


def _const(node, typ, what):
    if isinstance(node, ast.Constant) and isinstance(node.value, typ) and not isinstance(node.value, bool):
        return node.value
    raise ExtractionError('%s: expected a %s literal' % (what, typ.__name__))


def _is_self_attr(node, attr, base='self'):
    return (isinstance(node, ast.Attribute) and node.attr == attr and
            isinstance(node.value, ast.Name) and node.value.id == base)


def _walk(node, typ):
    return [n for n in ast.walk(node) if isinstance(n, typ)]


def _split_bytes(tree):
    f = find_func(tree, 'splitBytes')
    loops = [n for n in f.body if isinstance(n, ast.For)]
    if len(loops) != 1:
        raise ExtractionError('splitBytes: expected one for loop')
    it = loops[0].iter
    if not (isinstance(it, ast.Call) and isinstance(it.func, ast.Name) and it.func.id == 'range' and len(it.args) == 1):
        raise ExtractionError('splitBytes: expected `for i in range(N)`')
    tries = _const(it.args[0], int, 'splitBytes range')
    # the slices must be word[size-i:] / word[0:size-i]
    src = ast.dump(loops[0])
    if src.count("BinOp(left=Name(id='size', ctx=Load()), op=Sub(), right=Name(id='i', ctx=Load()))") < 3:
        raise ExtractionError('splitBytes: expected slices at size-i')
    return tries


def _min_wrap_size(tree):
    """byteTextWrap: `size = max(size, N)` before the loop"""
    f = find_func(tree, 'byteTextWrap')
    for n in f.body:
        if isinstance(n, ast.Assign) and isinstance(n.targets[0], ast.Name) and n.targets[0].id == 'size' and \
                isinstance(n.value, ast.Call) and isinstance(n.value.func, ast.Name) and n.value.func.id == 'max' and \
                len(n.value.args) == 2 and isinstance(n.value.args[0], ast.Name) and n.value.args[0].id == 'size':
            return _const(n.value.args[1], int, 'byteTextWrap minimum size')
    raise ExtractionError('byteTextWrap: `size = max(size, N)` not found')


def _ctx_size(tree):
    f = find_func(tree, 'size', cls='FormatContext')
    has = {}
    for n in f.body:
        if isinstance(n, ast.Assign) and len(n.targets) == 1 and isinstance(n.targets[0], ast.Name):
            v = n.value
            if (isinstance(v, ast.Compare) and len(v.ops) == 1 and isinstance(v.ops[0], ast.IsNot) and
                    isinstance(v.comparators[0], ast.Constant) and v.comparators[0].value is None and
                    isinstance(v.left, ast.Attribute)):
                has[n.targets[0].id] = v.left.attr
    if has != {'has_fg': 'fg', 'has_bg': 'bg'}:
        raise ExtractionError('FormatContext.size: expected has_fg/has_bg = self.fg/bg is not None')
    # prefix_size = self.bold + self.reverse + self.underline + has_fg + has_bg
    base = [n for n in f.body if isinstance(n, ast.Assign) and isinstance(n.targets[0], ast.Name)
            and n.targets[0].id == 'prefix_size']
    if len(base) != 1:
        raise ExtractionError('FormatContext.size: prefix_size assignment not found')
    names = sorted([n.attr for n in _walk(base[0].value, ast.Attribute)] +
                   [n.id for n in _walk(base[0].value, ast.Name) if n.id != 'self'])
    if names != ['bold', 'has_bg', 'has_fg', 'reverse', 'underline'] or \
            any(not isinstance(o.op, ast.Add) for o in _walk(base[0].value, ast.BinOp)):
        raise ExtractionError('FormatContext.size: prefix_size is not the sum of the five flags')
    ifs = [n for n in f.body if isinstance(n, ast.If)]
    if len(ifs) != 2:
        raise ExtractionError('FormatContext.size: expected two if statements')
    a, b = ifs

    def aug(body, what):
        if len(body) == 1 and isinstance(body[0], ast.AugAssign) and isinstance(body[0].op, ast.Add) \
                and isinstance(body[0].target, ast.Name) and body[0].target.id == 'prefix_size':
            return _const(body[0].value, int, what)
        raise ExtractionError('%s: expected prefix_size += N' % what)
    if not (isinstance(a.test, ast.Name) and a.test.id == 'has_bg' and len(a.orelse) == 1 and
            isinstance(a.orelse[0], ast.If) and isinstance(a.orelse[0].test, ast.Name) and
            a.orelse[0].test.id == 'has_fg' and not a.orelse[0].orelse):
        raise ExtractionError('FormatContext.size: expected if has_bg … elif has_fg …')
    with_bg = aug(a.body, 'size/has_bg')
    fg_only = aug(a.orelse[0].body, 'size/has_fg')
    if not (isinstance(b.test, ast.Name) and b.test.id == 'prefix_size' and len(b.body) == 1 and
            isinstance(b.body[0], ast.Return) and isinstance(b.body[0].value, ast.BinOp) and
            isinstance(b.body[0].value.op, ast.Add) and len(b.orelse) == 1 and isinstance(b.orelse[0], ast.Return)
            and _const(b.orelse[0].value, int, 'size else') == 0):
        raise ExtractionError('FormatContext.size: expected if prefix_size: return prefix_size + N else: return 0')
    end = _const(b.body[0].value.right, int, 'size end')
    return with_bg, fg_only, end


def _ctx_start_end(tree):
    f = find_func(tree, 'start', cls='FormatContext')
    order = []
    for n in f.body:
        if isinstance(n, ast.If) and _is_self_attr(n.test, n.test.attr if isinstance(n.test, ast.Attribute) else ''):
            b = n.body
            if len(b) == 1 and isinstance(b[0], ast.Assign) and isinstance(b[0].value, ast.BinOp) and \
                    isinstance(b[0].value.op, ast.Add) and isinstance(b[0].value.right, ast.Name) and b[0].value.right.id == 's':
                order.append((n.test.attr, _const(b[0].value.left, str, 'start prefix')))
    if [o[0] for o in order] != ['bold', 'reverse', 'underline'] or any(len(o[1]) != 1 for o in order):
        raise ExtractionError('FormatContext.start: expected bold, reverse, underline prefixes in this order')
    src = ast.dump(f)
    if "Attribute(value=Name(id='self', ctx=Load()), attr='fg', ctx=Load()), ops=[IsNot()]" not in src or \
            "Attribute(value=Name(id='self', ctx=Load()), attr='bg', ctx=Load()), ops=[IsNot()]" not in src or \
            'mircColor' not in src:
        raise ExtractionError('FormatContext.start: colour part not in the expected shape')
    g = find_func(tree, 'end', cls='FormatContext')
    ifs = [n for n in g.body if isinstance(n, ast.If)]
    if len(ifs) != 1 or len(ifs[0].body) != 1 or not isinstance(ifs[0].body[0], ast.AugAssign):
        raise ExtractionError('FormatContext.end: expected one `if …: s += reset`')
    reset = _const(ifs[0].body[0].value, str, 'end reset')
    t = ifs[0].test
    d = ast.dump(t)
    ok = isinstance(t, ast.BoolOp) and isinstance(t.op, ast.Or) and len(t.values) == 5 and \
        d.count('IsNot()') == 2 and all(("attr='%s'" % a) in d for a in ('bold', 'reverse', 'underline', 'fg', 'bg'))
    if not ok:
        raise ExtractionError('FormatContext.end: condition is not bold or reverse or underline or fg is not None or bg is not None')
    return dict(order), reset


def _parser(tree):
    f = find_func(tree, 'parse', cls='FormatParser')
    loops = [n for n in f.body if isinstance(n, ast.While)]
    if len(loops) != 1:
        raise ExtractionError('FormatParser.parse: expected one while loop')
    chain = loops[0].body[0]
    table = {}
    while isinstance(chain, ast.If):
        t = chain.test
        if not (isinstance(t, ast.Compare) and isinstance(t.left, ast.Name) and t.left.id == 'c' and
                len(t.ops) == 1 and isinstance(t.ops[0], ast.Eq)):
            raise ExtractionError('FormatParser.parse: expected c == <char> tests')
        ch = _const(t.comparators[0], str, 'parse char')
        first = chain.body[0]
        if isinstance(first, ast.Assign) and isinstance(first.targets[0], ast.Attribute) and \
                isinstance(first.value, ast.UnaryOp) and isinstance(first.value.op, ast.Not):
            kind = first.targets[0].attr
            if len(chain.body) != 2 or 'max_context_size' not in ast.dump(chain.body[1]):
                raise ExtractionError('FormatParser.parse: toggle of %s without max_context_size update' % kind)
        elif isinstance(first, ast.Expr) and isinstance(first.value, ast.Call) and isinstance(first.value.func, ast.Attribute):
            kind = first.value.func.attr          # reset / getColor
            if kind == 'getColor' and (len(chain.body) != 2 or 'max_context_size' not in ast.dump(chain.body[1])):
                raise ExtractionError('FormatParser.parse: getColor without max_context_size update')
            if kind == 'reset' and len(chain.body) != 1:
                raise ExtractionError('FormatParser.parse: reset branch changed')
        else:
            raise ExtractionError('FormatParser.parse: unknown branch')
        table[kind] = ch
        chain = chain.orelse[0] if len(chain.orelse) == 1 else None
    if sorted(table) != ['bold', 'getColor', 'reset', 'reverse', 'underline'] or any(len(v) != 1 for v in table.values()):
        raise ExtractionError('FormatParser.parse: expected bold/reverse/underline/reset/getColor branches')
    g = find_func(tree, 'getInt', cls='FormatParser')
    loops = [n for n in g.body if isinstance(n, ast.While)]
    if len(loops) != 1:
        raise ExtractionError('FormatParser.getInt: expected one while loop')
    t = loops[0].test
    if not (isinstance(t, ast.BoolOp) and isinstance(t.op, ast.And) and len(t.values) == 3 and
            isinstance(t.values[0], ast.Name) and t.values[0].id == 'c' and isinstance(t.values[1], ast.Compare)
            and isinstance(t.values[1].ops[0], ast.In) and isinstance(t.values[2], ast.Compare)
            and isinstance(t.values[2].left, ast.Name) and t.values[2].left.id == 'digits'
            and isinstance(t.values[2].ops[0], ast.Lt)):
        raise ExtractionError("FormatParser.getInt: expected `while c and c in '<digits>' and digits < N`")
    digits = _const(t.values[1].comparators[0], str, 'getInt digits')
    max_digits = _const(t.values[2].comparators[0], int, 'getInt max digits')
    incs = [n for n in ast.walk(loops[0]) if isinstance(n, ast.AugAssign) and isinstance(n.target, ast.Name)
            and n.target.id == 'digits' and isinstance(n.op, ast.Add) and _const(n.value, int, 'digits +=') == 1]
    if len(incs) != 1:
        raise ExtractionError('FormatParser.getInt: expected one `digits += 1`')
    base = limit = None
    for n in ast.walk(loops[0]):
        if isinstance(n, ast.Assign) and isinstance(n.targets[0], ast.Name) and n.targets[0].id == 'j' and \
                isinstance(n.value, ast.BinOp) and isinstance(n.value.op, ast.Mult):
            base = _const(n.value.right, int, 'getInt base')
        if isinstance(n, ast.If) and isinstance(n.test, ast.Compare) and isinstance(n.test.left, ast.Name) and \
                n.test.left.id == 'j' and isinstance(n.test.ops[0], ast.GtE):
            limit = _const(n.test.comparators[0], int, 'getInt limit')
    if base is None or limit is None:
        raise ExtractionError('FormatParser.getInt: j = i * B / if j >= L not found')
    return table, digits, base, limit, max_digits


def _strings(node):
    return [n.value for n in ast.walk(node) if isinstance(n, ast.Constant) and isinstance(n.value, str)]


def _callbacks(tree):
    f = find_func(tree, 'reply', cls='NestedCommandsIrcProxy')
    strs = _strings(f)
    ints = [n.value for n in ast.walk(f) if isinstance(n, ast.Constant) and isinstance(n.value, int)
            and not isinstance(n.value, bool)]
    probe_t = [s for s in strs if s.startswith(':%s')]
    if len(probe_t) != 1:
        raise ExtractionError('reply: wire template of the probe not found')
    # allowedLength = 512 - (len(probe.encode()) …)
    max_line = None
    tab = None
    probe_payload = None
    for n in ast.walk(f):
        if isinstance(n, ast.Assign) and isinstance(n.targets[0], ast.Name) and n.targets[0].id == 'allowedLength' \
                and isinstance(n.value, ast.BinOp) and isinstance(n.value.op, ast.Sub) and isinstance(n.value.left, ast.Constant):
            max_line = _const(n.value.left, int, 'reply max line')
        if isinstance(n, ast.BinOp) and isinstance(n.op, ast.Mult) and isinstance(n.right, ast.Name) and n.right.id == 's_size':
            tab = _const(n.left, int, 'reply tab factor')
        if isinstance(n, ast.Assign) and isinstance(n.targets[0], ast.Name) and n.targets[0].id == 'probe' and \
                isinstance(n.value, ast.Call) and isinstance(n.value.func, ast.Name) and n.value.func.id == '_makeReply':
            probe_payload = _const(n.value.args[2], str, 'reply probe payload')
    if max_line is None or tab is None or probe_payload is None:
        raise ExtractionError('reply: 512 - len(probe) / 8 * s_size / probe payload not found')
    mores = [s for s in strs if s in ('more message', 'more messages')]
    if sorted(set(mores)) != ['more message', 'more messages']:
        raise ExtractionError("reply: 'more message' / 'more messages' not found")
    count_t = [s for s in strs if s.startswith('(%i')]
    if len(set(count_t)) != 1:
        raise ExtractionError("reply: '(%i %s)' template not found")
    join_t = [s for s in strs if s == '%s %s']
    if len(join_t) != 1:
        raise ExtractionError("reply: '%s %s' chunk/suffix template not found")
    # every message of the chunked branch goes through `sendMsg` (one queue for the whole reply)
    loops = [n for n in ast.walk(f) if isinstance(n, ast.While) and 'instant' in ast.dump(n.test)]
    if len(loops) != 1:
        raise ExtractionError('reply: `while instant > 1 and msgs` loop not found')
    sends = [n for n in ast.walk(loops[0]) if isinstance(n, ast.Call) and
             ((isinstance(n.func, ast.Name) and n.func.id in ('sendMsg',)) or
              (isinstance(n.func, ast.Attribute) and n.func.attr in ('queueMsg', 'sendMsg')))]
    if len(sends) != 1 or not isinstance(sends[0].func, ast.Name):
        raise ExtractionError('reply: the instant loop must send through sendMsg(response)')
    # the reply attributes, noLengthCheck included, are reset after every final reply
    rs = find_func(tree, '_resetReplyAttributes', cls='NestedCommandsIrcProxy')
    reset = sorted(t.attr for n in rs.body if isinstance(n, ast.Assign) and isinstance(n.value, ast.Constant)
                   and n.value.value is None for t in n.targets if isinstance(t, ast.Attribute))
    if reset != ['action', 'noLengthCheck', 'notice', 'private', 'to']:
        raise ExtractionError('_resetReplyAttributes: expected to/action/notice/private/noLengthCheck = None, found %r' % (reset,))
    fin = [n for n in ast.walk(f) if isinstance(n, ast.Try) and n.finalbody and
           '_resetReplyAttributes' in ast.dump(n.finalbody[0])]
    if len(fin) != 1:
        raise ExtractionError('reply: `finally: self._resetReplyAttributes()` not found')
    g = find_func(tree, '_makeReply')
    gs = _strings(g)
    nick_t = [s for s in gs if s == '%s: %s']
    if len(nick_t) != 1:
        raise ExtractionError("_makeReply: '%s: %s' not found")
    empty = [s for s in gs if s.startswith('Error: I tried')]
    if len(empty) != 1:
        raise ExtractionError('_makeReply: empty-message text not found')
    errp = [s for s in gs if s == 'Error: ']
    if len(errp) != 1:
        raise ExtractionError("_makeReply: 'Error: ' prefix not found")
    ctcp = None
    for n in ast.walk(g):
        if isinstance(n, ast.Call) and isinstance(n.func, ast.Attribute) and n.func.attr == 'strip' and len(n.args) == 1:
            ctcp = _const(n.args[0], str, '_makeReply strip')
    if ctcp is None or len(ctcp) != 1:
        raise ExtractionError('_makeReply: s.strip(<char>) not found')
    return dict(mores=mores, probe=probe_t[0], max_line=max_line, tab=tab, probe_payload=probe_payload,
                count=count_t[0], join=join_t[0], nick=nick_t[0], empty=empty[0], ctcp=ctcp, errp=errp[0])


def _command(tree, fname):
    f = find_func(tree, fname)
    for n in ast.walk(f):
        if isinstance(n, ast.keyword) and n.arg == 'command':
            return _const(n.value, str, fname + ' command')
    raise ExtractionError('%s: command= not found' % fname)


def _strip(tree):
    """the characters removed by stripBold/Reverse/Underline/Italic + the reset in stripFormatting, and the colour regex"""
    out = {}
    for fn in ('stripBold', 'stripReverse', 'stripUnderline', 'stripItalic'):
        f = find_func(tree, fn)
        cs = [n for n in ast.walk(f) if isinstance(n, ast.Call) and isinstance(n.func, ast.Attribute) and n.func.attr == 'replace']
        if len(cs) != 1 or len(cs[0].args) != 2 or _const(cs[0].args[1], str, fn) != '':
            raise ExtractionError("%s: expected s.replace(<char>, '')" % fn)
        out[fn] = _const(cs[0].args[0], str, fn)
        if len(out[fn]) != 1:
            raise ExtractionError('%s: expected one character' % fn)
    f = find_func(tree, 'stripFormatting')
    calls = [n.func.id for n in ast.walk(f) if isinstance(n, ast.Call) and isinstance(n.func, ast.Name)]
    if sorted(calls) != ['stripBold', 'stripColor', 'stripItalic', 'stripReverse', 'stripUnderline']:
        raise ExtractionError('stripFormatting: expected the five strip* calls')
    first = [n for n in f.body if isinstance(n, ast.Assign)][0]
    if not (isinstance(first.value, ast.Call) and isinstance(first.value.func, ast.Name) and first.value.func.id == 'stripColor'):
        raise ExtractionError('stripFormatting: stripColor must come first')
    ret = [n for n in f.body if isinstance(n, ast.Return)]
    if len(ret) != 1 or not (isinstance(ret[0].value, ast.Call) and isinstance(ret[0].value.func, ast.Attribute)
                             and ret[0].value.func.attr == 'replace'):
        raise ExtractionError("stripFormatting: expected return s.replace(<reset>, '')")
    out['reset'] = _const(ret[0].value.args[0], str, 'stripFormatting reset')
    from vlib.extractlib import find_assign
    rx = find_assign(tree, '_stripColorRe')
    if not (isinstance(rx, ast.Call) and len(rx.args) == 1):
        raise ExtractionError('_stripColorRe: expected re.compile(<literal>)')
    out['regex'] = _const(rx.args[0], str, '_stripColorRe')
    return out


def _po_entries(path):
    """(msgid, msgstr) pairs of a .po file, read the way supybot.i18n.parse reads them"""
    out = []
    key = None
    cur = None            # 'id' / 'str'
    mid = mstr = ''

    def flush():
        if mid != '' or key is not None:
            out.append((mid, mstr if mstr != '' else mid))
    for raw in open(path, encoding='utf-8'):
        line = raw.rstrip('\n')
        if line.startswith('msgid "'):
            if cur == 'str':
                flush()
            mid = line[len('msgid "'):-1]; mstr = ''; cur = 'id'; key = True
        elif line.startswith('msgstr "'):
            mstr = line[len('msgstr "'):-1]; cur = 'str'
        elif line.startswith('"') and line.endswith('"') and cur == 'id':
            mid += line[1:-1]
        elif line.startswith('"') and line.endswith('"') and cur == 'str':
            mstr += line[1:-1]
        else:
            if cur == 'str':
                flush(); cur = None; key = None; mid = mstr = ''
    if cur == 'str':
        flush()
    return out


def _po_normalize(s, remove_newline):
    """supybot.i18n.normalize"""
    import re
    s = s.replace('\\n\\n', '\n\n').replace('\\n', ' ').replace('\\"', '"')
    if s:
        st = s[0] in ' \n\t\r'; en = s[-1] in ' \n\t\r'
        if remove_newline:
            s = ' '.join(filter(bool, re.split('[\r\n]+', s)))
        s = ' '.join(filter(bool, s.split('\t')))
        s = ' '.join(filter(bool, s.split(' ')))
        if st: s = ' ' + s
        if en: s += ' '
    return s.strip('\n').strip('\t')


def _locales(msgids):
    """translations of `msgids` in every shipped core locale: {lang: [text, ...]} (untranslated = the msgid)"""
    import os
    from vlib import REPO
    d = os.path.join(REPO, 'locales')
    try:
        files = sorted(f for f in os.listdir(d) if f.endswith('.po'))
    except OSError as e:
        raise ExtractionError('locales/: %s' % e)
    if not files:
        raise ExtractionError('locales/: no .po file')
    out = {}
    for f in files:
        table = {}
        for (mid, mstr) in _po_entries(os.path.join(d, f)):
            t = _po_normalize(mstr, False)
            if t:
                table[_po_normalize(mid, True)] = t
        out[f[:-3]] = [table.get(_po_normalize(m, True), m) for m in msgids]
    return out


@extractor('Reply')
def gen_reply():
    tries = _split_bytes(parse('src/utils/str.py'))
    min_size = _min_wrap_size(parse('src/utils/str.py'))
    iu = parse('src/ircutils.py')
    with_bg, fg_only, end = _ctx_size(iu)
    start, reset = _ctx_start_end(iu)
    table, digits, base, limit, max_digits = _parser(iu)
    for k in ('bold', 'reverse', 'underline'):
        if start[k] != table[k]:
            raise ExtractionError('FormatContext.start and FormatParser.parse disagree on the %s character' % k)
    if reset != table['reset']:
        raise ExtractionError('FormatContext.end and FormatParser.parse disagree on the reset character')
    strip = _strip(iu)
    if (strip['stripBold'], strip['stripReverse'], strip['stripUnderline'], strip['reset']) != \
            (table['bold'], table['reverse'], table['underline'], table['reset']):
        raise ExtractionError('strip* and FormatParser.parse disagree on a control character')
    cb = _callbacks(parse('src/callbacks.py'))
    im = parse('src/ircmsgs.py')
    act = [x for x in _strings(find_func(im, 'action')) if '%s' in x and 'ACTION' in x]
    if len(act) != 1 or act[0].count('%s') != 1:
        raise ExtractionError('ircmsgs.action: CTCP ACTION template not found')
    act_pre, act_suf = act[0].split('%s')
    from vlib.extractlib import find_assign as _fa, literal as _lit
    irc_max = _lit(_fa(parse('src/irclib.py'), 'MAX_LINE_SIZE'), 'MAX_LINE_SIZE')
    if not isinstance(irc_max, int):
        raise ExtractionError('irclib.MAX_LINE_SIZE is not an int')
    loc = _locales([sorted(set(cb['mores']))[0], sorted(set(cb['mores']))[1], cb['empty'], cb['errp']])
    body = 'import LimnoriaModel.Py.Basic\nnamespace Gen\n\n'
    def nat(name, v, doc):
        return '/-- %s -/\ndef %s : Nat := %d\n' % (doc, name, v)
    def ch(name, v, doc):
        return '/-- %s -/\ndef %s : Char := %s\n' % (doc, name, lchar(v))
    def st(name, v, doc):
        return '/-- %s -/\ndef %s : Py.Str := %s\n' % (doc, name, lstr(v))
    body += nat('splitBytesTries', tries, 'utils.str.splitBytes: `for i in range(N)`')
    body += nat('minWrapSize', min_size, 'utils.str.byteTextWrap: `size = max(size, N)`')
    body += nat('sizeWithBg', with_bg, 'FormatContext.size: `if has_bg: prefix_size += N`')
    body += nat('sizeFgOnly', fg_only, 'FormatContext.size: `elif has_fg: prefix_size += N`')
    body += nat('sizeEnd', end, 'FormatContext.size: `return prefix_size + N`')
    body += ch('boldChar', table['bold'], 'FormatParser.parse / FormatContext.start')
    body += ch('reverseChar', table['reverse'], 'FormatParser.parse / FormatContext.start')
    body += ch('underlineChar', table['underline'], 'FormatParser.parse / FormatContext.start')
    body += ch('resetChar', table['reset'], 'FormatParser.parse / FormatContext.end')
    body += ch('colorChar', table['getColor'], 'FormatParser.parse')
    body += ch('italicChar', strip['stripItalic'], 'ircutils.stripItalic')
    body += st('stripColorRe', strip['regex'], 'ircutils._stripColorRe')
    body += st('digitChars', digits, "FormatParser.getInt: `while c and c in '…'`")
    body += nat('colorBase', base, 'FormatParser.getInt: `j = i * N`')
    body += nat('colorLimit', limit, 'FormatParser.getInt: `if j >= N`')
    body += nat('colorDigits', max_digits, 'FormatParser.getInt: `digits < N`')
    body += nat('maxLine', cb['max_line'], 'reply: `allowedLength = N - len(probe)`')
    body += nat('tabFactor', cb['tab'], 'reply: `N * s_size` in the suffix reserve')
    body += st('probeTemplate', cb['probe'], 'reply: wire form of the probe')
    body += st('probePayload', cb['probe_payload'], 'reply: payload of the probe')
    body += st('countTemplate', cb['count'], 'reply: suffix text')
    body += st('joinTemplate', cb['join'], 'reply: chunk + suffix')
    body += st('moreSingular', sorted(set(cb['mores']))[0], 'reply')
    body += st('morePlural', sorted(set(cb['mores']))[1], 'reply')
    body += st('nickPrefixTemplate', cb['nick'], '_makeReply')
    body += st('emptyReply', cb['empty'], '_makeReply')
    body += ch('ctcpChar', cb['ctcp'], "_makeReply: `s.strip('\\x01')`")
    body += st('privmsgCmd', _command(im, 'privmsg'), 'ircmsgs.privmsg')
    body += st('noticeCmd', _command(im, 'notice'), 'ircmsgs.notice')
    body += nat('ircMaxLine', irc_max, 'irclib.MAX_LINE_SIZE (Irc._truncateMsg)')
    body += st('errorPrefix', cb['errp'], "_makeReply: `_('Error: ') + s`")
    body += st('actionPrefix', act_pre, 'ircmsgs.action')
    body += st('actionSuffix', act_suf, 'ircmsgs.action')
    body += ('/-- locales/*.po: (language, more message, more messages, empty-message error, error prefix) -/\n'
             'def localeTexts : List (Py.Str × Py.Str × Py.Str × Py.Str × Py.Str) :=\n  [' +
             ',\n   '.join('(%s, %s, %s, %s, %s)' % ((lstr(k),) + tuple(lstr(x) for x in v)) for k, v in sorted(loc.items())) + ']\n')
    body += '\nend Gen\n'
    write_if_changed('Reply.lean', body, 'src/{utils/str,ircutils,callbacks,ircmsgs}.py')
