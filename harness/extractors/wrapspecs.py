"""C02: the converter specification (`wrap(f, [...])`) of every command that C02.Cmd models, read
from the plugin sources with ast.  The Lean side (C02/Props.lean `wrapSpecs_table`) fixes the list
the model's converters were written against: a command whose argument handling changes (say
'otherUser' -> 'something', or a dropped 'private' / 'op') breaks that obligation."""
import ast, os
from vlib.extractlib import extractor, write_if_changed, ExtractionError
from vlib import REPO

# (file, qualified name inside the plugin module)
COMMANDS = [
    ('plugins/User/plugin.py', 'User.register'), ('plugins/User/plugin.py', 'User.unregister'),
    ('plugins/User/plugin.py', 'User.changename'), ('plugins/User/plugin.py', 'User.identify'),
    ('plugins/User/plugin.py', 'User.unidentify'), ('plugins/User/plugin.py', 'User.hostmask.add'),
    ('plugins/User/plugin.py', 'User.hostmask.remove'), ('plugins/User/plugin.py', 'User.set.password'),
    ('plugins/User/plugin.py', 'User.set.secure'),
    ('plugins/Admin/plugin.py', 'Admin.capability.add'), ('plugins/Admin/plugin.py', 'Admin.capability.remove'),
    ('plugins/Admin/plugin.py', 'Admin.ignore.add'), ('plugins/Admin/plugin.py', 'Admin.ignore.remove'),
    ('plugins/Channel/plugin.py', 'Channel.capability.add'), ('plugins/Channel/plugin.py', 'Channel.capability.remove'),
    ('plugins/Channel/plugin.py', 'Channel.capability.setdefault'), ('plugins/Channel/plugin.py', 'Channel.capability.set'),
    ('plugins/Channel/plugin.py', 'Channel.capability.unset'), ('plugins/Channel/plugin.py', 'Channel.disable'),
    ('plugins/Channel/plugin.py', 'Channel.enable'),
    ('plugins/Owner/plugin.py', 'Owner.defaultcapability'),
]

def _find(tree, qual):
    """the `name = wrap(name, spec)` assignment at class path qual[:-1]"""
    node = tree
    for name in qual[:-1]:
        nxt = [n for n in node.body if isinstance(n, ast.ClassDef) and n.name == name]
        if len(nxt) != 1:
            return None
        node = nxt[0]
    hits = []
    for n in node.body:
        if isinstance(n, ast.Assign) and len(n.targets) == 1 and isinstance(n.targets[0], ast.Name) \
                and n.targets[0].id == qual[-1] and isinstance(n.value, ast.Call) \
                and isinstance(n.value.func, ast.Name) and n.value.func.id == 'wrap':
            hits.append(n.value)
    return hits[0] if len(hits) == 1 else None

@extractor('WrapSpecs')
def gen_wrapspecs():
    rows = []
    trees = {}
    for rel, q in COMMANDS:
        if rel not in trees:
            p = os.path.join(REPO, rel)
            try:
                trees[rel] = ast.parse(open(p, encoding='utf-8').read(), p)
            except (OSError, SyntaxError) as e:
                raise ExtractionError('%s: %s' % (rel, e))
        call = _find(trees[rel], q.split('.'))
        if call is None:
            raise ExtractionError('%s: no unique `%s = wrap(...)`' % (rel, q))
        if not call.args or not (isinstance(call.args[0], ast.Name) and call.args[0].id == q.split('.')[-1]):
            raise ExtractionError('%s: wrap of %s does not wrap the method of that name' % (rel, q))
        spec = ast.unparse(call.args[1]) if len(call.args) > 1 else '[]'
        spec = ' '.join(spec.split())
        if any(ord(c) > 126 or c in '"\\' for c in spec):
            raise ExtractionError('%s: %s has a spec outside the plain alphabet: %r' % (rel, q, spec))
        rows.append((q, spec))
    body = ('import LimnoriaModel.Py.Basic\nnamespace Gen.WrapSpecs\n\n'
            '/-- command (class path in its plugin module) with the converter list given to `wrap` -/\n'
            'def specs : List (String × String) :=\n  [%s]\n\nend Gen.WrapSpecs\n'
            % ',\n   '.join('("%s", "%s")' % r for r in rows))
    write_if_changed('WrapSpecs.lean', body, ', '.join(sorted(trees)))
