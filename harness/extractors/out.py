"""Tables for C06 (every outgoing message is one well-formed line): MAX_LINE_SIZE, the characters
isValidArgument rejects, how _truncateMsg measures and cuts, and the inventory of IrcMsg constructions
that do not go through the validating keyword branch (string branch or msg=)."""
import ast, os
from vlib import REPO
from vlib.extractlib import (extractor, parse, find_assign, find_func, literal, lchar, lstring, llist,
                             write_if_changed, ExtractionError)

HELPERS = None
def _helpers():
    """names of the module-level functions of ircmsgs.py that take a msg= parameter"""
    tree = parse('src/ircmsgs.py')
    out = set()
    for n in tree.body:
        if isinstance(n, ast.FunctionDef) and any(a.arg == 'msg' for a in n.args.args):
            out.add(n.name)
    return out

def _sites(relpath, helpers):
    import warnings
    with warnings.catch_warnings():
        warnings.simplefilter('ignore')
        tree = parse(relpath)
    out = []
    class V(ast.NodeVisitor):
        def __init__(self): self.stack = []
        def visit_FunctionDef(self, n):
            self.stack.append(n.name); self.generic_visit(n); self.stack.pop()
        visit_AsyncFunctionDef = visit_FunctionDef
        def visit_ClassDef(self, n):
            self.stack.append(n.name); self.generic_visit(n); self.stack.pop()
        def visit_Call(self, n):
            f = n.func
            name = f.attr if isinstance(f, ast.Attribute) else f.id if isinstance(f, ast.Name) else None
            where = '.'.join(self.stack) or '<module>'
            if name == 'IrcMsg':
                kws = {k.arg for k in n.keywords}
                if n.args or 's' in kws:
                    out.append((relpath, where, 'string'))
                elif 'msg' in kws:
                    out.append((relpath, where, 'msg='))
            elif name in helpers and isinstance(f, ast.Attribute) and isinstance(f.value, ast.Name) and f.value.id == 'ircmsgs':
                if any(k.arg == 'msg' for k in n.keywords):
                    out.append((relpath, where, 'msg='))
            self.generic_visit(n)
    V().visit(tree)
    return out

@extractor('Out')
def gen_out():
    irclib = parse('src/irclib.py')
    ircutils = parse('src/ircutils.py')
    mls = literal(find_assign(irclib, 'MAX_LINE_SIZE'), 'MAX_LINE_SIZE')
    if not isinstance(mls, int): raise ExtractionError('MAX_LINE_SIZE is not an int')
    # isValidArgument: return 'a' not in s and 'b' not in s ...
    fn = find_func(ircutils, 'isValidArgument')
    rets = [n for n in fn.body if isinstance(n, ast.Return)]
    if len(rets) != 1 or not isinstance(rets[0].value, ast.BoolOp) or not isinstance(rets[0].value.op, ast.And):
        raise ExtractionError('isValidArgument: expected `return c1 not in s and c2 not in s ...`')
    chars = []
    for v in rets[0].value.values:
        if not (isinstance(v, ast.Compare) and len(v.ops) == 1 and isinstance(v.ops[0], ast.NotIn)
                and isinstance(v.left, ast.Constant) and isinstance(v.left.value, str) and len(v.left.value) == 1
                and isinstance(v.comparators[0], ast.Name) and v.comparators[0].id == 's'):
            raise ExtractionError('isValidArgument: unexpected clause ' + ast.dump(v))
        chars.append(v.left.value)
    # safeArgument: `if isValidArgument(s): return s else: return repr(s)`
    sa = find_func(ircutils, 'safeArgument')
    last = sa.body[-1]
    ok = (isinstance(last, ast.If) and isinstance(last.test, ast.Call) and getattr(last.test.func, 'id', None) == 'isValidArgument'
          and isinstance(last.body[0], ast.Return) and isinstance(last.body[0].value, ast.Name)
          and isinstance(last.orelse[0], ast.Return) and isinstance(last.orelse[0].value, ast.Call)
          and getattr(last.orelse[0].value.func, 'id', None) == 'repr')
    if not ok: raise ExtractionError('safeArgument: expected `if isValidArgument(s): return s / else: return repr(s)`')
    # _truncateMsg: `if len(X) > MAX_LINE_SIZE` with X = <str>.encode(...) ; slice [:MAX_LINE_SIZE-k]
    tm = find_func(irclib, '_truncateMsg', cls='Irc')
    counts_bytes = False; reserve = None
    encoded_names = set()
    for n in ast.walk(tm):
        if isinstance(n, ast.Assign) and isinstance(n.value, ast.Call) and isinstance(n.value.func, ast.Attribute) and n.value.func.attr == 'encode':
            for t in n.targets:
                if isinstance(t, ast.Name): encoded_names.add(t.id)
    ifs = [n for n in ast.walk(tm) if isinstance(n, ast.If) and isinstance(n.test, ast.Compare)
           and any(isinstance(c, ast.Name) and c.id == 'MAX_LINE_SIZE' for c in n.test.comparators)]
    if len(ifs) != 1: raise ExtractionError('_truncateMsg: expected one `if len(...) > MAX_LINE_SIZE`')
    t = ifs[0].test
    if not (isinstance(t.ops[0], ast.Gt) and isinstance(t.left, ast.Call) and getattr(t.left.func, 'id', None) == 'len'
            and isinstance(t.left.args[0], ast.Name)):
        raise ExtractionError('_truncateMsg: unexpected length test')
    measured = t.left.args[0].id
    counts_bytes = measured in encoded_names
    for n in ast.walk(ifs[0]):
        if isinstance(n, ast.Subscript) and isinstance(n.slice, ast.Slice) and isinstance(n.slice.upper, ast.BinOp) \
                and isinstance(n.slice.upper.op, ast.Sub) and getattr(n.slice.upper.left, 'id', None) == 'MAX_LINE_SIZE' \
                and isinstance(n.slice.upper.right, ast.Constant):
            reserve = n.slice.upper.right.value
            cut_bytes = isinstance(n.value, ast.Name) and n.value.id in encoded_names
    if reserve is None: raise ExtractionError('_truncateMsg: slice [:MAX_LINE_SIZE-k] not found')
    # the encoder error handler _truncateMsg sizes the line with (must be the driver's)
    trunc_errors = 'strict'
    for n in ast.walk(tm):
        if isinstance(n, ast.Call) and isinstance(n.func, ast.Attribute) and n.func.attr == 'encode':
            if len(n.args) >= 2 and isinstance(n.args[1], ast.Constant): trunc_errors = n.args[1].value
            for kw in n.keywords:
                if kw.arg == 'errors' and isinstance(kw.value, ast.Constant): trunc_errors = kw.value.value
    sock = parse('src/drivers/Socket.py')
    sm = find_func(sock, '_sendIfMsgs', cls='SocketDriver')
    encs = [n for n in ast.walk(sm) if isinstance(n, ast.Call) and isinstance(n.func, ast.Attribute) and n.func.attr == 'encode']
    if len(encs) != 1: raise ExtractionError('SocketDriver._sendIfMsgs: expected exactly one .encode() call')
    drv_errors = 'strict'
    if len(encs[0].args) >= 2 and isinstance(encs[0].args[1], ast.Constant): drv_errors = encs[0].args[1].value
    for kw in encs[0].keywords:
        if kw.arg == 'errors' and isinstance(kw.value, ast.Constant): drv_errors = kw.value.value
    # takeMsg: the label tag must be added before _truncateMsg (adding it resets msg._str)
    # (takeMsg proper, or the helper holding one round of it since fix ef8529c)
    tks = [find_func(irclib, 'takeMsg', cls='Irc')]
    try:
        tks.append(find_func(irclib, '_takeMsg', cls='Irc'))
    except ExtractionError:
        pass
    label_line = None; trunc_line = None
    for n in [x for t_ in tks for x in ast.walk(t_)]:
        if isinstance(n, ast.Call) and isinstance(n.func, ast.Attribute) and n.func.attr == '_truncateMsg':
            trunc_line = n.lineno
        if isinstance(n, ast.Assign) and any(isinstance(t, ast.Attribute) and t.attr == '_str' for t in n.targets):
            label_line = max(label_line or 0, n.lineno)
    if trunc_line is None: raise ExtractionError('Irc.takeMsg: call of _truncateMsg not found')
    str_reset_after_truncate = label_line is not None and label_line > trunc_line
    # Filter: the filter commands that may be installed as an outFilter
    import warnings
    with warnings.catch_warnings():
        warnings.simplefilter('ignore')
        filt = parse('plugins/Filter/plugin.py')
    fc = literal(find_assign(filt, '_filterCommands', cls='Filter'), 'Filter._filterCommands')
    if not (isinstance(fc, list) and all(isinstance(x, str) for x in fc)): raise ExtractionError('Filter._filterCommands: expected a list of str')
    # inventory
    helpers = _helpers()
    sites = []
    for root in ('src', 'plugins'):
        for dp, dn, fns in os.walk(os.path.join(REPO, root)):
            dn.sort()
            for f in sorted(fns):
                if f.endswith('.py') and f != 'test.py' and not f.startswith('test_'):
                    rel = os.path.relpath(os.path.join(dp, f), REPO)
                    if rel.startswith('src/ircmsgs.py'):
                        continue          # the helpers themselves forward msg=; covered by the call sites
                    try:
                        sites += _sites(rel, helpers)
                    except ExtractionError:
                        raise
    sites = sorted(set(sites))
    body = ('namespace Gen\n\n'
            '/-- irclib.MAX_LINE_SIZE -/\ndef maxLineSize : Nat := %d\n\n'
            '/-- the characters ircutils.isValidArgument rejects -/\ndef invalidArgChars : List Char := %s\n\n'
            '/-- Irc._truncateMsg measures the UTF-8 bytes of the non-tag part, and cuts the bytes -/\n'
            'def truncateCountsBytes : Bool := %s\ndef truncateCutsBytes : Bool := %s\n'
            '/-- … and keeps MAX_LINE_SIZE minus this many bytes before appending CR LF -/\ndef truncateReserve : Nat := %d\n\n'
            '/-- the `errors` argument of str.encode in Irc._truncateMsg and in SocketDriver._sendIfMsgs -/\n'
            'def truncateErrors : String := %s\ndef driverErrors : String := %s\n\n'
            '/-- Irc.takeMsg resets msg._str (label tag) after _truncateMsg stored the cut there -/\n'
            'def strResetAfterTruncate : Bool := %s\n\n'
            '/-- Filter._filterCommands: what a channel op may install as an outFilter -/\n'
            'def filterOutCommands : List String := %s\n\n'
            '/-- IrcMsg constructions that bypass the argument assertion: (file, enclosing scope, branch) -/\n'
            'def rawMsgSites : List (String × String × String) :=\n  %s\n\nend Gen\n') % (
        mls, llist(lchar(c) for c in chars), 'true' if counts_bytes else 'false', 'true' if cut_bytes else 'false', reserve,
        lstring(trunc_errors), lstring(drv_errors), 'true' if str_reset_after_truncate else 'false', llist(lstring(x) for x in fc),
        llist('(%s, %s, %s)' % (lstring(a), lstring(b), lstring(c)) for a, b, c in sites))
    write_if_changed('Out.lean', body, 'src/irclib.py, src/ircutils.py, src/**/*.py, plugins/**/*.py')
