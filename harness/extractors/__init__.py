"""One module per property (or shared table): each registers extractors with @extractor."""
import os, importlib
for _f in sorted(os.listdir(os.path.dirname(__file__))):
    if _f.endswith('.py') and not _f.startswith('_'):
        importlib.import_module('extractors.' + _f[:-3])
