"""Exception-flow facts of the driver loop (C07): the __firewalled__ maps, the exception classes
named in the except clauses the property rests on, the `errors=` argument of the driver's encode."""
import ast
from vlib.extractlib import (extractor, parse, find_assign, find_func, lstring, llist,
                             write_if_changed, ExtractionError)

def _firewalled(tree, cls):
    node = find_assign(tree, '__firewalled__', cls=cls)
    if not isinstance(node, ast.Dict):
        raise ExtractionError('%s.__firewalled__ is not a dict literal' % cls)
    out = []
    for k, v in zip(node.keys, node.values):
        if not (isinstance(k, ast.Constant) and isinstance(k.value, str)):
            raise ExtractionError('%s.__firewalled__: non-literal key' % cls)
        has_handler = not (isinstance(v, ast.Constant) and v.value is None)
        out.append((k.value, has_handler))
    return out

def _exc_name(t):
    """'' for a bare except; the (last component of the) class name otherwise"""
    if t is None: return ''
    if isinstance(t, ast.Name): return t.id
    if isinstance(t, ast.Attribute): return t.attr
    raise ExtractionError('except clause with an unsupported type expression: %s' % ast.dump(t))

def _tries(fn):
    return [n for n in ast.walk(fn) if isinstance(n, ast.Try)]

def _calls_attr(node, attr):
    for n in ast.walk(node):
        if isinstance(n, ast.Call):
            f = n.func
            if isinstance(f, ast.Attribute) and f.attr == attr: return True
            if isinstance(f, ast.Name) and f.id == attr: return True
    return False

def _lean_pairs(ps):
    return llist('(%s, %s)' % (lstring(a), 'true' if b else 'false') for a, b in ps)

@extractor('Firewall')
def gen_firewall():
    irclib = parse('src/irclib.py')
    log = parse('src/log.py')
    drv = parse('src/drivers/__init__.py')
    sock = parse('src/drivers/Socket.py')
    # log.firewall: def firewall(f, errorHandler): def m(...): try: return f(...) except X: ... try: return errorHandler(...) except Y
    fw = find_func(log, 'firewall')
    inner = [n for n in fw.body if isinstance(n, ast.FunctionDef) and n.name == 'm']
    if len(inner) != 1: raise ExtractionError('log.firewall: inner wrapper m not found')
    ts = [n for n in inner[0].body if isinstance(n, ast.Try)]
    if len(ts) != 1 or len(ts[0].handlers) != 1: raise ExtractionError('log.firewall: expected one try with one handler')
    outer = _exc_name(ts[0].handlers[0].type)
    hts = [n for n in ast.walk(ts[0].handlers[0]) if isinstance(n, ast.Try)]
    if len(hts) != 1 or len(hts[0].handlers) != 1: raise ExtractionError('log.firewall: expected one try around errorHandler')
    handler = _exc_name(hts[0].handlers[0].type)
    # re-raise when testing: `if testing: raise`
    # drivers.run: try: driver.run() except <X>
    run = find_func(drv, 'run')
    rt = [t for t in _tries(run) if _calls_attr(ast.Module(body=t.body, type_ignores=[]), 'run')]
    if len(rt) != 1 or len(rt[0].handlers) != 1: raise ExtractionError('drivers.run: try around driver.run() not found')
    run_catch = _exc_name(rt[0].handlers[0].type)
    # drivers.parseMsg: try: IrcMsg(s) except ircmsgs.MalformedIrcMsg
    pm = find_func(drv, 'parseMsg')
    pt = [t for t in _tries(pm) if _calls_attr(ast.Module(body=t.body, type_ignores=[]), 'IrcMsg')]
    parse_catch = [_exc_name(h.type) for t in pt for h in t.handlers]
    # Irc.feedMsg: the three protected regions
    fm = find_func(irclib, 'feedMsg', cls='Irc')
    regions = []
    for t in _tries(fm):
        body = ast.Module(body=t.body, type_ignores=[])
        for what in ('addMsg', 'inFilter', 'callback'):
            if _calls_attr(body, what):
                if len(t.handlers) != 1: raise ExtractionError('Irc.feedMsg: try around %s has %d handlers' % (what, len(t.handlers)))
                regions.append((what, _exc_name(t.handlers[0].type)))
                break
    # which handlers of Irc itself are called outside any try in feedMsg: method(msg)
    unprotected_dispatch = any(isinstance(n, ast.Call) and isinstance(n.func, ast.Name) and n.func.id == 'method'
                               for st in fm.body if not isinstance(st, ast.Try) for n in ast.walk(st))
    # SocketDriver._sendIfMsgs: data.encode(<encoding>, <errors>)
    sm = find_func(sock, '_sendIfMsgs', cls='SocketDriver')
    enc = [n for n in ast.walk(sm) if isinstance(n, ast.Call) and isinstance(n.func, ast.Attribute) and n.func.attr == 'encode']
    if len(enc) != 1: raise ExtractionError('SocketDriver._sendIfMsgs: expected exactly one .encode() call, found %d' % len(enc))
    errors = 'strict'
    if len(enc[0].args) >= 2:
        a = enc[0].args[1]
        if not (isinstance(a, ast.Constant) and isinstance(a.value, str)): raise ExtractionError('.encode(): non-literal errors argument')
        errors = a.value
    for kw in enc[0].keywords:
        if kw.arg == 'errors':
            if not (isinstance(kw.value, ast.Constant) and isinstance(kw.value.value, str)): raise ExtractionError('.encode(): non-literal errors argument')
            errors = kw.value.value
    # SocketDriver._read: the except clauses of its try, and is feedMsg called inside it
    rd = find_func(sock, '_read', cls='SocketDriver')
    rts = [n for n in rd.body if isinstance(n, ast.Try)]
    if len(rts) != 1: raise ExtractionError('SocketDriver._read: expected one top-level try')
    read_catches = [_exc_name(h.type) for h in rts[0].handlers]
    # log calls on the read/write path whose message is formatted before the call (the supybot Logger
    # formats msg % args itself: pre-formatted server text would be formatted twice)
    preformatted = []
    def scan(fn, where):
        for n in ast.walk(fn):
            if isinstance(n, ast.Call) and isinstance(n.func, ast.Attribute) and n.func.attr in ('debug', 'info', 'warning', 'error', 'critical', 'exception') \
                    and n.args:
                a0 = n.args[0]
                pre = (isinstance(a0, ast.BinOp) and isinstance(a0.op, ast.Mod)) or isinstance(a0, ast.JoinedStr) or \
                      (isinstance(a0, ast.Call) and isinstance(a0.func, ast.Attribute) and a0.func.attr == 'format')
                if pre:
                    preformatted.append(where)
    scan(pm, 'parseMsg')
    for name in ('_read', '_sendIfMsgs', '_handleSocketError', 'run', '_select'):
        scan(find_func(sock, name, cls='SocketDriver'), 'SocketDriver.' + name)
    scan(run, 'drivers.run')
    scan(fm, 'Irc.feedMsg')
    # every plugin class of the bundled plugins and the hooks (methods named in IrcCallback's or
    # Commands' __firewalled__) it overrides in its body
    import os, warnings
    from vlib import REPO
    cbtree = parse('src/callbacks.py')
    commands_fw = _firewalled(cbtree, 'Commands')
    hook_names = set(k for k, _ in _firewalled(irclib, 'IrcCallback')) | set(k for k, _ in commands_fw)
    PLUGIN_BASES = {'Plugin', 'PluginRegexp', 'Privmsg', 'PrivmsgCommandAndRegexp', 'IrcCallback', 'PluginMixin', 'Commands'}
    hook_defs = []
    pdir = os.path.join(REPO, 'plugins')
    for pl in sorted(os.listdir(pdir)):
        f = os.path.join(pdir, pl, 'plugin.py')
        if not os.path.isfile(f): continue
        with warnings.catch_warnings():
            warnings.simplefilter('ignore')
            t = parse(os.path.relpath(f, REPO))
        local = {}
        for n in t.body:
            if isinstance(n, ast.ClassDef):
                bases = [b.attr if isinstance(b, ast.Attribute) else b.id if isinstance(b, ast.Name) else '?' for b in n.bases]
                local[n.name] = (bases, n)
        def is_plugin(name, seen=()):
            if name in PLUGIN_BASES: return True
            if name in local and name not in seen:
                return any(is_plugin(b, seen + (name,)) for b in local[name][0])
            return False
        for name, (bases, node) in sorted(local.items()):
            if any(is_plugin(b, (name,)) for b in bases):
                own_fw = any(isinstance(x, ast.Assign) and any(isinstance(tg, ast.Name) and tg.id == '__firewalled__' for tg in x.targets) for x in node.body)
                if own_fw:
                    raise ExtractionError('%s.%s defines its own __firewalled__: extend the extractor' % (pl, name))
                hooks = sorted(x.name for x in node.body if isinstance(x, (ast.FunctionDef, ast.AsyncFunctionDef)) and x.name in hook_names)
                if hooks:
                    hook_defs.append((pl, name, hooks))
    # log.deadlyExceptions: the classes the log formatter re-raises instead of formatting (every except clause that logs
    # what it caught lets them through again)
    dn = find_assign(log, 'deadlyExceptions')
    if not (isinstance(dn, ast.List) and all(isinstance(x, ast.Name) for x in dn.elts)):
        raise ExtractionError('log.deadlyExceptions: expected a list of class names')
    deadly = [x.id for x in dn.elts]
    # SocketDriver.setTimeout: the connected socket must keep a finite timeout (settimeout(None) = blocking mode:
    # a recv() with nothing to read would never return and drivers.run() would hang for every network)
    st_fn = find_func(sock, 'setTimeout', cls='SocketDriver')
    blocking = False; found = False
    for n in ast.walk(sock):
        if isinstance(n, ast.Call) and isinstance(n.func, ast.Attribute) and n.func.attr in ('settimeout', 'setblocking') and n.args:
            found = True
            a0 = n.args[0]
            if n.func.attr == 'settimeout' and isinstance(a0, ast.Constant) and a0.value is None: blocking = True
            if n.func.attr == 'setblocking' and isinstance(a0, ast.Constant) and a0.value: blocking = True
    if not found: raise ExtractionError('SocketDriver: no settimeout call found')
    # _read performs exactly one recv per call
    recvs = [n for n in ast.walk(rd) if isinstance(n, ast.Call) and isinstance(n.func, ast.Attribute) and n.func.attr == 'recv']
    body = ('namespace Gen\n\n'
            '/-- irclib.Irc.__firewalled__: (method, has an error handler) -/\n'
            'def ircFirewalled : List (String × Bool) :=\n  %s\n\n'
            '/-- irclib.IrcState.__firewalled__ -/\n'
            'def ircStateFirewalled : List (String × Bool) :=\n  %s\n\n'
            '/-- irclib.IrcCallback.__firewalled__ -/\n'
            'def ircCallbackFirewalled : List (String × Bool) :=\n  %s\n\n'
            '/-- log.firewall: class caught around f(...), class caught around errorHandler(...) ("" = bare) -/\n'
            'def firewallCatch : String := %s\n'
            'def firewallHandlerCatch : String := %s\n\n'
            '/-- drivers.run: class caught around driver.run() ("" = bare except) -/\n'
            'def driversRunCatch : String := %s\n\n'
            '/-- drivers.parseMsg: classes caught around IrcMsg(s) -/\n'
            'def parseMsgCatches : List String := %s\n\n'
            '/-- Irc.feedMsg: (protected call, class caught) for the try blocks, in source order -/\n'
            'def feedMsgRegions : List (String × String) :=\n  %s\n\n'
            '/-- Irc.feedMsg calls the Irc\'s own handler `method(msg)` outside any try -/\n'
            'def feedMsgDispatchUnprotected : Bool := %s\n\n'
            '/-- SocketDriver._sendIfMsgs: the `errors` argument of str.encode -/\n'
            'def encodeErrors : String := %s\n\n'
            '/-- SocketDriver._read: classes of its except clauses, in order -/\n'
            'def readCatches : List String := %s\n\n'
            '/-- functions of the read/write path containing a log call whose message is formatted before the call -/\n'
            'def preformattedLogCalls : List String := %s\n\n'
            '/-- some settimeout(None)/setblocking(True) in the socket driver; number of recv() calls in _read -/\n'
            'def socketMayBlock : Bool := %s\ndef readRecvCalls : Nat := %d\n\n'
            '/-- log.deadlyExceptions: re-raised by the log formatter -/\n'
            'def deadlyExceptions : List String := %s\n\n'
            '/-- callbacks.Commands.__firewalled__ -/\n'
            'def commandsFirewalled : List (String × Bool) :=\n  %s\n\n'
            '/-- every plugin class of plugins/*/plugin.py that overrides a hook named in a __firewalled__ map: (plugin, class, hooks) -/\n'
            'def pluginHookDefs : List (String × String × List String) :=\n  %s\n\n'
            'end Gen\n') % (
        _lean_pairs(_firewalled(irclib, 'Irc')), _lean_pairs(_firewalled(irclib, 'IrcState')),
        _lean_pairs(_firewalled(irclib, 'IrcCallback')), lstring(outer), lstring(handler), lstring(run_catch),
        llist(lstring(x) for x in parse_catch),
        llist('(%s, %s)' % (lstring(a), lstring(b)) for a, b in regions),
        'true' if unprotected_dispatch else 'false', lstring(errors), llist(lstring(x) for x in read_catches),
        llist(lstring(x) for x in sorted(set(preformatted))),
        'true' if blocking else 'false', len(recvs),
        llist(lstring(x) for x in deadly),
        _lean_pairs(commands_fw),
        llist('(%s, %s, %s)' % (lstring(a), lstring(b), llist(lstring(h) for h in hs)) for a, b, hs in hook_defs))
    write_if_changed('Firewall.lean', body, 'src/irclib.py, src/log.py, src/drivers/__init__.py, src/drivers/Socket.py')
