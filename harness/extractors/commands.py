"""Command inventory for C01 (capability gate): for every bundled plugin, every command
(including nested `class x(callbacks.Commands)` groups and the commands inherited from
plugins.ChannelIdDatabasePlugin) with its `wrap` spec flattened to the items the gate model
knows:

  ("cap", c)        'owner' / 'admin' / ('checkCapability', c)      -> commands.checkCapability
  ("capNoOwner", c) ('checkCapabilityButIgnoreOwner', c)
  ("chancap", c)    'op' / 'halfop' / 'voice' / ('checkChannelCapability', c)
  ("channel", "")   'channel' (getChannel: fixes state.channel)
  ("other", name)   any other converter (unmodelled; may consume arguments / raise)
  ("ctx", name)     a context (optional/first/any/many/rest/additional/getopts/commalist/reverse):
                    unmodelled, and optional/first/rest/any(continueOnError) swallow errors raised
                    inside them, so a capability converter nested in a context is NOT a guard;
                    such nestings are listed in `Gen.capInsideContext` (expected: none).

plus the call-graph facts the gate theorem rests on:

  Gen.callCommandCallers   every call site of `.callCommand(` outside a `callCommand` override
                           calling its parent (expected: only Commands._callCommand)
  Gen.callGateCallers      every call site of `._callCommand` (expected: finalEval x2, commands.thread)
  Gen.proxySites           every re-dispatch site `self.Proxy(...)` / `NestedCommandsIrcProxy(...)`
                           with the expression passed as `msg`
  Gen.gateShape            shape facts of Commands._callCommand / checkCommandCapability
ast-based; any deviation from the expected syntactic shape is an ExtractionError."""
import ast, os, re
from vlib import REPO
from vlib.extractlib import (extractor, parse, find_func, lstr, lstring, llist, write_if_changed,
                             ExtractionError)

CONTEXTS = {'optional', 'additional', 'first', 'any', 'many', 'rest', 'getopts', 'commalist', 'reverse'}
CAP_SIMPLE = {'owner': ('cap', 'owner'), 'admin': ('cap', 'admin'),
              'op': ('chancap', 'op'), 'halfop': ('chancap', 'halfop'), 'voice': ('chancap', 'voice')}
CAP_ARG = {'checkCapability': 'cap', 'checkCapabilityButIgnoreOwner': 'capNoOwner',
           'checkChannelCapability': 'chancap'}
COMMAND_ARGS = ['self', 'irc', 'msg', 'args']
NONARG_WRAPPERS = {'thread', 'internationalizeDocstring', 'urlSnarfer', 'process'}


def canonical_name(s):
    """callbacks.canonicalName: drop TAB, '-', '_' and blanks (a trailing run is kept), lower"""
    special = '\t-_ '
    tail = ''
    while s and s[-1] in special:
        tail = s[-1] + tail
        s = s[:-1]
    return ''.join(x for x in s if x not in special).lower() + tail


def _fname(node):
    if isinstance(node, ast.Name):
        return node.id
    if isinstance(node, ast.Attribute):
        return node.attr
    return None


def _contains_cap(node):
    """does a (context) node mention a capability converter anywhere inside?"""
    for n in ast.walk(node):
        if isinstance(n, ast.Constant) and isinstance(n.value, str) and (n.value in CAP_SIMPLE or n.value in CAP_ARG):
            return True
    return False


def spec_item(node, where, nested_caps):
    if isinstance(node, ast.Constant):
        if node.value is None:
            return ('other', 'anything')
        if isinstance(node.value, str):
            s = node.value
            if s in CAP_SIMPLE:
                return CAP_SIMPLE[s]
            if s in CAP_ARG:
                raise ExtractionError('%s: converter %r without its capability argument' % (where, s))
            if s == 'channel':
                return ('channel', '')
            return ('other', s)
        raise ExtractionError('%s: unexpected constant %r in a wrap spec' % (where, node.value))
    if isinstance(node, ast.Tuple):
        if not node.elts or not (isinstance(node.elts[0], ast.Constant) and isinstance(node.elts[0].value, str)):
            raise ExtractionError('%s: tuple spec without a literal converter name' % where)
        s = node.elts[0].value
        if s in CAP_ARG:
            if len(node.elts) != 2 or not (isinstance(node.elts[1], ast.Constant) and isinstance(node.elts[1].value, str)):
                raise ExtractionError('%s: capability of %r is not a string literal' % (where, s))
            return (CAP_ARG[s], node.elts[1].value)
        if s in CAP_SIMPLE:
            return CAP_SIMPLE[s]
        if s == 'channel':
            return ('channel', '')
        return ('other', s)
    if isinstance(node, ast.Call):
        f = _fname(node.func)
        if f in CONTEXTS:
            if _contains_cap(node) and f != 'getopts':
                nested_caps.append('%s: %s(...)' % (where, f))
            if f == 'getopts' and _contains_cap(node):
                # option *names* such as 'voice'/'op' are dict keys; converters are the values
                for a in node.args:
                    if isinstance(a, ast.Dict):
                        for v in a.values:
                            if _contains_cap(v):
                                nested_caps.append('%s: getopts value' % where)
            return ('ctx', f)
        raise ExtractionError('%s: unexpected call %s(...) in a wrap spec' % (where, f))
    if isinstance(node, ast.Name) and node.id in _ENV:
        # a module-level name bound to a spec element (e.g. `boolean_or_int = first('boolean', 'int')`)
        return spec_item(_ENV[node.id], where, nested_caps)
    raise ExtractionError('%s: unexpected spec element %s' % (where, ast.dump(node)[:60]))


_ENV = {}


def parse_spec(node, where, nested_caps):
    if node is None:
        return []
    if not isinstance(node, (ast.List, ast.Tuple)):
        raise ExtractionError('%s: wrap spec is not a list literal' % where)
    return [spec_item(e, where, nested_caps) for e in node.elts]


def _is_command_def(fn):
    a = fn.args
    names = [x.arg for x in a.posonlyargs + a.args]
    return names[:4] == COMMAND_ARGS


def _unwrap_target(node):
    """wrap(f, ...) / wrap(thread(f), ...): the Name of the function being wrapped"""
    while isinstance(node, ast.Call) and _fname(node.func) in NONARG_WRAPPERS and len(node.args) >= 1:
        node = node.args[0]
    return node.id if isinstance(node, ast.Name) else None


def _wrap_call(node):
    """node is `wrap(f, spec?, ...)` possibly inside thread(...)/internationalizeDocstring(...)"""
    while isinstance(node, ast.Call) and _fname(node.func) in NONARG_WRAPPERS and len(node.args) >= 1:
        node = node.args[0]
    if isinstance(node, ast.Call) and _fname(node.func) == 'wrap':
        return node
    return None


def class_rows(cls, plugin, prefix, where, nested_caps, rows, seen):
    """walk a class body (statements in order, descending into if/try blocks)"""
    defs = {}

    def visit(stmts):
        for n in stmts:
            if isinstance(n, (ast.If,)):
                visit(n.body); visit(n.orelse)
            elif isinstance(n, ast.Try):
                visit(n.body); visit(n.orelse); visit(n.finalbody)
                for h in n.handlers:
                    visit(h.body)
            elif isinstance(n, ast.FunctionDef):
                defs[n.name] = n
                w = None
                for d in n.decorator_list:
                    if isinstance(d, ast.Call) and _fname(d.func) == 'wrap':
                        w = ('spec', d.args[0] if d.args else None)
                    elif _fname(d) == 'wrap':
                        w = ('spec', None)
                if w is not None:
                    add(n.name, True, parse_spec(w[1], '%s.%s' % (where, n.name), nested_caps))
                elif _is_command_def(n) and len(n.args.posonlyargs + n.args.args) == 4 and n.name == canonical_name(n.name):
                    add(n.name, False, [])
            elif isinstance(n, ast.Assign) and len(n.targets) == 1 and isinstance(n.targets[0], ast.Name):
                name = n.targets[0].id
                wc = _wrap_call(n.value)
                if wc is not None:
                    tgt = _unwrap_target(wc.args[0]) if wc.args else None
                    if tgt is None:
                        raise ExtractionError('%s.%s: wrap() of something that is not a plain function name' % (where, name))
                    spec = None
                    if len(wc.args) >= 2:
                        spec = wc.args[1]
                    for kw in wc.keywords:
                        if kw.arg == 'specList':
                            spec = kw.value
                    add(name, True, parse_spec(spec, '%s.%s' % (where, name), nested_caps))
                elif isinstance(n.value, ast.Name) and tuple(prefix + [n.value.id]) in seen:
                    # alias of an existing command: `foo = bar`
                    r = seen[tuple(prefix + [n.value.id])]
                    add(name, r[0], r[1])
            elif isinstance(n, ast.ClassDef):
                bases = [_fname(b) for b in n.bases]
                if 'Commands' in bases:
                    gname = n.name
                    for m in n.body:
                        # `def name(self): return '<literal>'` renames the group (Config.reset_)
                        if isinstance(m, ast.FunctionDef) and m.name == 'name':
                            if (len(m.body) == 1 and isinstance(m.body[0], ast.Return)
                                    and isinstance(m.body[0].value, ast.Constant) and isinstance(m.body[0].value.value, str)):
                                gname = m.body[0].value.value
                            else:
                                raise ExtractionError('%s.%s: name() override is not a literal' % (where, n.name))
                    class_rows(n, plugin, prefix + [canonical_name(gname)], where + '.' + n.name, nested_caps, rows, seen)

    def add(name, wrapped, spec):
        if name != canonical_name(name):
            return
        key = tuple(prefix + [name])
        seen[key] = (wrapped, spec)

    visit(cls.body)


def plugin_rows(path, nested_caps):
    rel = os.path.relpath(path, REPO)
    tree = parse(rel)
    cname = None
    _ENV.clear()
    for n in tree.body:
        if isinstance(n, ast.Assign) and len(n.targets) == 1 and isinstance(n.targets[0], ast.Name):
            _ENV[n.targets[0].id] = n.value
    for n in tree.body:
        if isinstance(n, ast.Assign) and any(isinstance(t, ast.Name) and t.id == 'Class' for t in n.targets):
            if isinstance(n.value, ast.Name):
                cname = n.value.id
    if cname is None:
        raise ExtractionError('%s: no `Class = <name>` assignment' % rel)
    cls = None
    for n in tree.body:
        if isinstance(n, ast.ClassDef) and n.name == cname:
            cls = n
    if cls is None:
        raise ExtractionError('%s: class %s not found' % (rel, cname))
    seen = {}
    bases = [_fname(b) for b in cls.bases]
    if 'ChannelIdDatabasePlugin' in bases:
        base_tree = parse('plugins/__init__.py')
        for n in base_tree.body:
            if isinstance(n, ast.ClassDef) and n.name == 'ChannelIdDatabasePlugin':
                class_rows(n, cname, [], 'plugins.ChannelIdDatabasePlugin', nested_caps, None, seen)
                break
        else:
            raise ExtractionError('plugins/__init__.py: ChannelIdDatabasePlugin not found')
    elif not any(b in ('Plugin', 'Privmsg', 'PluginRegexp') for b in bases):
        raise ExtractionError('%s: unexpected base classes %s of %s' % (rel, bases, cname))
    class_rows(cls, cname, [], rel + ':' + cname, nested_caps, None, seen)
    threaded = False
    for n in cls.body:
        if isinstance(n, ast.Assign) and any(isinstance(t, ast.Name) and t.id == 'threaded' for t in n.targets):
            threaded = bool(isinstance(n.value, ast.Constant) and n.value.value)
    return cname, threaded, [(list(k), v[0], v[1]) for k, v in sorted(seen.items())]


# ------------------------------------------------------------------------------------------
# call-graph facts
# ------------------------------------------------------------------------------------------
def _py_files():
    out = []
    for base in ('src', 'plugins'):
        for root, dirs, files in os.walk(os.path.join(REPO, base)):
            dirs[:] = sorted(d for d in dirs if d not in ('__pycache__', 'locales', 'local'))
            for f in sorted(files):
                if f.endswith('.py') and f not in ('test.py',) and not root.endswith('/tests'):
                    out.append(os.path.relpath(os.path.join(root, f), REPO))
    return [p for p in out if not p.startswith('src/test')]


class _Sites(ast.NodeVisitor):
    def __init__(self, rel):
        self.rel = rel; self.stack = []
        self.callCommand = []; self.gate = []; self.proxy = []; self.getMethod = []; self.defmut = []; self.nocap = []
    def visit_FunctionDef(self, n):
        self.stack.append(n.name); self.generic_visit(n); self.stack.pop()
    visit_AsyncFunctionDef = visit_FunctionDef
    def visit_ClassDef(self, n):
        self.stack.append(n.name); self.generic_visit(n); self.stack.pop()
    def where(self):
        return '%s:%s' % (self.rel, '.'.join(self.stack))
    def visit_Call(self, n):
        f = n.func
        if isinstance(f, ast.Attribute):
            if f.attr == 'callCommand':
                # an override delegating to its parent: inside a function itself named callCommand
                if not (self.stack and self.stack[-1] == 'callCommand'):
                    self.callCommand.append(self.where())
            elif f.attr == '_callCommand':
                self.gate.append(self.where())
            elif f.attr == 'getCommandMethod':
                if not (self.stack and self.stack[-1] == 'getCommandMethod'):
                    self.getMethod.append(self.where())
            elif f.attr in ('add', 'remove', 'discard', 'clear', 'update', 'pop', 'difference_update', 'intersection_update') \
                    and ast.unparse(f.value) == 'conf.supybot.capabilities()':
                self.defmut.append('%s:%s' % (self.where(), f.attr))
            elif f.attr in ('setValue', 'set') and ast.unparse(f.value) == 'conf.supybot.capabilities':
                self.defmut.append('%s:%s' % (self.where(), f.attr))
            elif f.attr == 'errorNoCapability':
                mode = 'default'
                for kw in n.keywords:
                    if kw.arg == 'Raise':
                        mode = 'True' if (isinstance(kw.value, ast.Constant) and kw.value.value is True) else \
                               ('False' if (isinstance(kw.value, ast.Constant) and kw.value.value is False) else 'dynamic')
                    elif kw.arg is None:
                        mode = 'dynamic'
                self.nocap.append((self.where(), mode))
            elif f.attr == 'Proxy':
                self.proxy.append((self.where(), ast.unparse(n.args[1]) if len(n.args) > 1 else '?', len(n.args)))
        elif isinstance(f, ast.Name) and f.id == 'NestedCommandsIrcProxy':
            self.proxy.append((self.where(), ast.unparse(n.args[1]) if len(n.args) > 1 else '?', len(n.args)))
        # CommandThread(target=X._callCommand, ...): the attribute is not called, it is passed
        for kw in n.keywords:
            if kw.arg == 'target' and isinstance(kw.value, ast.Attribute) and kw.value.attr == '_callCommand':
                self.gate.append(self.where())
            if kw.arg == 'target' and isinstance(kw.value, ast.Attribute) and kw.value.attr == 'callCommand':
                self.callCommand.append(self.where())
        self.generic_visit(n)


def _gate_shape():
    """shape facts of Commands._callCommand and checkCommandCapability (callbacks.py)"""
    tree = parse('src/callbacks.py')
    f = find_func(tree, '_callCommand', cls='Commands')
    src = ast.unparse(f)
    facts = []
    # (1) the Y check comes first, on command[-1]
    facts.append(('y-check-on-last', 'checkCommandCapability(msg, self, command[-1])' in src))
    # (2) the loop runs over the whole fullCommandName (no slice), appending before the check
    loop = [n for n in ast.walk(f) if isinstance(n, ast.For)]
    ok_loop = (len(loop) == 1 and isinstance(loop[0].iter, ast.Name) and loop[0].iter.id == 'fullCommandName'
               and ast.unparse(loop[0].body[0]) == 'prefix.append(name)'
               and 'checkCommandCapability(msg, self, prefix)' in ast.unparse(loop[0].body[1]))
    facts.append(('loop-over-full-name', ok_loop))
    # (3) every `if cap:` is followed by errorNoCapability + return
    ifs = [n for n in ast.walk(f) if isinstance(n, ast.If) and ast.unparse(n.test) == 'cap']
    ok_ifs = len(ifs) == 2 and all(len(i.body) == 2 and 'errorNoCapability(cap)' in ast.unparse(i.body[0])
                                   and isinstance(i.body[1], ast.Return) for i in ifs)
    facts.append(('deny-returns', ok_ifs))
    # (4) callCommand is reached only after the loop, inside the same try
    calls = [n for n in ast.walk(f) if isinstance(n, ast.Call) and isinstance(n.func, ast.Attribute) and n.func.attr == 'callCommand']
    facts.append(('single-callCommand', len(calls) == 1 and calls[0].lineno > loop[0].end_lineno if loop else False))
    # (5) fullCommandName construction
    facts.append(('full-name', 'if len(command) == 1 or command[0] != self.canonicalName():' in src
                  and 'fullCommandName = [self.canonicalName()] + command' in src))
    g = find_func(tree, 'checkCommandCapability')
    gs = ast.unparse(g)
    facts.append(('cc-anti-first', gs.find('checkCapability(antiCommand)') != -1
                  and gs.find('checkCapability(antiCommand)') < gs.find('checkAtEnd = [commandName]')))
    facts.append(('cc-channel-anti', 'checkCapability(ircdb.makeChannelCapability(channel, antiCommand))' in gs))
    facts.append(('cc-raise', 'raise RuntimeError(capability)' in gs and 'if ircdb.checkCapability(msg.prefix, capability):' in gs))
    facts.append(('cc-default', 'default &= ircdb.channels.getChannel(channel).defaultAllow' in gs
                  and 'default = conf.supybot.capabilities.default()' in gs))
    facts.append(('cc-return', 'return not (default or any(lambda x: ircdb.checkCapability(msg.prefix, x), checkAtEnd))' in gs))
    facts.append(('cc-uses-msg-channel', 'if msg.channel:\n            channel = msg.channel' in gs and 'msg.args' not in gs))
    facts.append(('cc-plugin-lower', 'plugin = cb.name().lower()' in gs and "commandName = '.'.join(commandName)" in gs))
    # RichReplyMethods: a refusal with Raise (the default of errorNoCapability) RAISES, whatever the message text
    en = find_func(tree, 'errorNoCapability', cls='RichReplyMethods')
    es = ast.unparse(en)
    facts.append(('nocap-raise-default', "if 'Raise' not in kwargs:\n        kwargs['Raise'] = True" in es))
    facts.append(('nocap-raises-without-text', "if s:\n        return self._error(s, **kwargs)\n    elif kwargs['Raise']:\n        raise Error()" in es))
    er = find_func(tree, '_error', cls='RichReplyMethods')
    facts.append(('error-raise-unconditional', ast.unparse(er).replace(' ', '').startswith(
        'def_error(self,s,Raise=False,**kwargs):\nifRaise:\nraiseError(s)\nelse:')))
    # Config: every write goes through _setValue (checkCanSetValue first), once per listed channel
    ct = parse('plugins/Config/plugin.py')
    sv = ast.unparse(find_func(ct, '_setValue', cls='Config'))
    facts.append(('config-setvalue-checks', 'checkCanSetValue(irc, msg, group)' in sv and sv.find('checkCanSetValue') < sv.find('group.set(value)')))
    chs = find_func(ct, 'channel', cls='Config')
    loops = [n for n in ast.walk(chs) if isinstance(n, ast.For) and ast.unparse(n.iter) == 'channels']
    ok_loop = bool(loops) and 'self._setValue(irc, msg, group.get(channel), value)' in ast.unparse(loops[0]) \
        and "self._setValue(irc, msg, group.get(':' + network.network).get(channel), value)" in ast.unparse(loops[0]) \
        and '.set(value)' not in ast.unparse(chs)
    facts.append(('config-channel-checks-each', ok_loop))
    cfgsrc = ast.unparse(ct)
    facts.append(('config-set-only-in-setvalue', cfgsrc.count('.set(') == 1 and cfgsrc.count('.setValue(') == 0))
    # Channel.capability add/remove: the capability argument is ALWAYS qualified with the channel the caller was
    # checked for (so `#b,op` given to an #a op becomes the #a capability `#a,#b,op`); set/unset edit that channel's record
    cht = parse('plugins/Channel/plugin.py')
    capcls = None
    for n in ast.walk(cht):
        if isinstance(n, ast.ClassDef) and n.name == 'capability':
            capcls = n
    ok_q = False
    if capcls is not None:
        fns = {f.name: ast.unparse(f) for f in capcls.body if isinstance(f, ast.FunctionDef)}
        ok_q = all(k in fns for k in ('add', 'remove', 'set', 'unset')) \
            and 'c = ircdb.makeChannelCapability(channel, c)\n        user.addCapability(c)' in fns['add'] \
            and 'cap = ircdb.makeChannelCapability(channel, c)' in fns['remove'] and 'user.removeCapability(cap)' in fns['remove'] \
            and all('ircdb.channels.getChannel(channel)' in fns[k] and 'ircdb.channels.setChannel(channel, chan)' in fns[k] for k in ('set', 'unset')) \
            and all('isChannelCapability' not in fns[k] for k in ('add', 'remove', 'set', 'unset'))
    facts.append(('chancap-args-qualified', ok_q))
    # Channel._voice: the weaker #chan,voice only when the caller names himself alone (or nobody)
    vf = ast.unparse(find_func(cht, '_voice', cls='Channel'))
    facts.append(('voice-self-only', "if len(nicks) == 1 and msg.nick in nicks:\n            capability = 'voice'\n        else:\n            capability = 'op'" in vf
                  and "nicks = [msg.nick]\n        capability = 'voice'" in vf
                  and 'capability = ircdb.makeChannelCapability(channel, capability)\n    if ircdb.checkCapability(msg.prefix, capability):' in vf))
    # Owner.doPrivmsg: ignore test precedes tokenising / dispatch
    ot = parse('plugins/Owner/plugin.py')
    d = find_func(ot, 'doPrivmsg', cls='Owner')
    ds = ast.unparse(d)
    i_ign = ds.find('ignored = ircdb.checkIgnored(msg.prefix)')
    i_tok = ds.find('callbacks.tokenize(')
    i_prx = ds.find('self.Proxy(irc, msg, tokens)')
    ok_ign = 0 <= i_ign < i_tok < i_prx and re.search(r'if ignored:\n\s+self\.log\.info\([^\n]*\)\n\s+return', ds) is not None
    facts.append(('owner-ignore-first', ok_ign))
    # DefaultCapabilities.setValue re-adds -owner
    it = parse('src/ircdb.py')
    sv = find_func(it, 'setValue', cls='DefaultCapabilities')
    ss = ast.unparse(sv)
    facts.append(('defaults-readd-antiowner', "self.value.add('-owner')" in ss
                  and "if '-owner' not in set(self.value) and (not allowDefaultOwner):" in ss))
    return facts


@extractor('Commands')
def gen_commands():
    pdir = os.path.join(REPO, 'plugins')
    nested_caps = []
    plugins = []
    for name in sorted(os.listdir(pdir)):
        p = os.path.join(pdir, name, 'plugin.py')
        if os.path.isfile(p):
            cname, threaded, rows = plugin_rows(p, nested_caps)
            if cname != name:
                raise ExtractionError('plugins/%s: Class is %s' % (name, cname))
            plugins.append((cname, threaded, rows))
    if len(plugins) < 20:
        raise ExtractionError('only %d plugins found' % len(plugins))
    cc, gate, proxy, getm, defmut, nocap = [], [], [], [], [], []
    for rel in _py_files():
        tree = parse(rel)
        v = _Sites(rel)
        v.visit(tree)
        cc += v.callCommand; gate += v.gate; proxy += v.proxy; getm += v.getMethod; defmut += v.defmut; nocap += v.nocap
    facts = _gate_shape()

    def row(plugin, path, wrapped, spec):
        return '  ⟨%s, %s, %s, %s⟩' % (lstr(plugin), llist(lstr(x) for x in path), 'true' if wrapped else 'false',
                                        llist('(%s, %s)' % (lstring(k), lstr(a)) for k, a in spec))
    rows_txt = []
    n = 0
    for cname, threaded, rows in plugins:
        for path, wrapped, spec in rows:
            rows_txt.append(row(cname, path, wrapped, spec)); n += 1
    body = ('import LimnoriaModel.Py.Basic\nnamespace Gen\n\n'
            '/-- one command of a bundled plugin: class name, command path inside the plugin (group names then\n'
            'the method name), whether it is wrapped, and the top-level items of its wrap spec -/\n'
            'structure CommandRow where\n  plugin : Py.Str\n  path : List Py.Str\n  wrapped : Bool\n'
            '  spec : List (String × Py.Str)\nderiving DecidableEq, Repr\n\n'
            '/-- %d commands of %d plugins -/\n'
            'def commands : List CommandRow := [\n%s\n]\n\n'
            '/-- plugins whose class sets `threaded = True` -/\n'
            'def threadedPlugins : List Py.Str := %s\n\n'
            '/-- capability converters nested inside a context (which may swallow their error) -/\n'
            'def capInsideContext : List String := %s\n\n'
            '/-- call sites of `.callCommand(` (parent delegation inside an override excluded) -/\n'
            'def callCommandCallers : List String := %s\n\n'
            '/-- call sites / thread targets of `._callCommand` -/\n'
            'def callGateCallers : List String := %s\n\n'
            '/-- call sites of `.getCommandMethod(` (recursion excluded) -/\n'
            'def getCommandMethodCallers : List String := %s\n\n'
            '/-- re-dispatch sites: (where, expression passed as msg, number of positional arguments) -/\n'
            'def proxySites : List (String × String × Nat) := %s\n\n'
            '/-- code that mutates the default capability set `conf.supybot.capabilities()` in place or assigns it\n'
            '(anything else goes through the registry `set`, i.e. `DefaultCapabilities.setValue`) -/\n'
            'def defaultCapsMutators : List String := %s\n\n'
            '/-- every call site of `errorNoCapability` with how `Raise` is passed (default = True): a refusal is a\n'
            '`raise`, so nothing after the call runs -/\n'
            'def noCapabilitySites : List (String × String) := %s\n\n'
            '/-- shape facts of the gate code (name, holds) -/\n'
            'def gateShape : List (String × Bool) := %s\n\nend Gen\n'
            % (n, len(plugins), ',\n'.join(rows_txt),
               llist(lstr(c) for c, t, _ in plugins if t),
               llist(lstring(x) for x in nested_caps),
               llist(lstring(x) for x in sorted(cc)),
               llist(lstring(x) for x in sorted(gate)),
               llist(lstring(x) for x in sorted(getm)),
               llist('(%s, %s, %d)' % (lstring(w), lstring(m), k) for w, m, k in sorted(proxy)),
               llist(lstring(x) for x in sorted(defmut)),
               llist('(%s, %s)' % (lstring(w), lstring(m)) for w, m in sorted(nocap)),
               llist('(%s, %s)' % (lstring(k), 'true' if v else 'false') for k, v in facts)))
    write_if_changed('Commands.lean', body, 'plugins/*/plugin.py, plugins/__init__.py, src/callbacks.py, src/commands.py')
