"""C14: the characters callbacks.canonicalName strips -> Gen/CanonicalName.lean
  special = '\\t-_'   and, under `if not preserve_spaces:`,   special += ' '
Fails closed when the function no longer has that shape."""
import ast
from vlib.extractlib import (extractor, parse, find_func, literal, lstr, write_if_changed, ExtractionError)

@extractor('CanonicalName')
def gen_canonicalname():
    cb = parse('src/callbacks.py')
    fn = find_func(cb, 'canonicalName')
    base = None; extra = None
    for n in ast.walk(fn):
        if isinstance(n, ast.Assign) and len(n.targets) == 1 and isinstance(n.targets[0], ast.Name) and n.targets[0].id == 'special':
            if base is not None:
                raise ExtractionError('canonicalName: more than one assignment to special')
            base = literal(n.value, 'canonicalName special')
        if isinstance(n, ast.AugAssign) and isinstance(n.target, ast.Name) and n.target.id == 'special' and isinstance(n.op, ast.Add):
            if extra is not None:
                raise ExtractionError('canonicalName: more than one special += ...')
            extra = literal(n.value, 'canonicalName special +=')
    if not isinstance(base, str) or not isinstance(extra, str):
        raise ExtractionError('canonicalName: special = <str> / special += <str> not found')
    # the result must be built as ''.join(x for x in command if x not in special).lower() + reAppend
    src = ast.unparse(fn)
    if ".lower() + reAppend" not in src or "command[-1] in special" not in src:
        raise ExtractionError('canonicalName: body no longer strips trailing specials / lower-cases the rest')
    body = ('import LimnoriaModel.Py.Basic\nnamespace Gen\n\n'
            '/-- the characters callbacks.canonicalName removes (kept when trailing): `special` with preserve_spaces=False -/\n'
            'def canonicalSpecial : Py.Str := %s\n\nend Gen\n' % lstr(base + extra))
    write_if_changed('CanonicalName.lean', body, 'src/callbacks.py')
