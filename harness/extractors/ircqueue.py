"""C19: the priority tables of irclib.IrcMsgQueue, the rate-limited command of `dequeue`, and the
commands whose echo `Irc.takeMsg` emulates -> Gen/IrcQueue.lean."""
import ast
from vlib.extractlib import (extractor, parse, find_assign, find_func, lstr, llist,
                             write_if_changed, ExtractionError)


def _frozenset_of_strs(node, what):
    # frozenset([...literal strings...])
    if not (isinstance(node, ast.Call) and isinstance(node.func, ast.Name) and node.func.id in ('frozenset', 'set')
            and len(node.args) == 1 and not node.keywords):
        raise ExtractionError('%s: expected frozenset([...])' % what)
    try:
        v = ast.literal_eval(node.args[0])
    except Exception as e:
        raise ExtractionError('%s: not a literal: %s' % (what, e))
    if not (isinstance(v, (list, tuple, set)) and v and all(isinstance(x, str) and x for x in v)):
        raise ExtractionError('%s: expected a non-empty collection of non-empty strings' % what)
    return sorted(set(v))


@extractor('IrcQueue')
def gen_ircqueue():
    tree = parse('src/irclib.py')
    high = _frozenset_of_strs(find_assign(tree, '_high'), '_high')
    low = _frozenset_of_strs(find_assign(tree, '_low'), '_low')
    # IrcMsgQueue.dequeue: exactly one comparison `msg.command == '<X>'`
    deq = find_func(tree, 'dequeue', cls='IrcMsgQueue')
    lim = []
    for n in ast.walk(deq):
        if (isinstance(n, ast.Compare) and len(n.ops) == 1 and isinstance(n.ops[0], ast.Eq)
                and isinstance(n.left, ast.Attribute) and n.left.attr == 'command'
                and isinstance(n.comparators[0], ast.Constant) and isinstance(n.comparators[0].value, str)):
            lim.append(n.comparators[0].value)
    if len(lim) != 1:
        raise ExtractionError('IrcMsgQueue.dequeue: expected exactly one `msg.command == <str>` test, found %r' % (lim,))
    # IrcMsgQueue.enqueue must classify with `msg.command in _high` / `elif msg.command in _low`
    enq = find_func(tree, 'enqueue', cls='IrcMsgQueue')
    order = []
    for n in ast.walk(enq):
        if (isinstance(n, ast.Compare) and len(n.ops) == 1 and isinstance(n.ops[0], ast.In)
                and isinstance(n.left, ast.Attribute) and n.left.attr == 'command'
                and isinstance(n.comparators[0], ast.Name)):
            order.append(n.comparators[0].id)
    if order != ['_high', '_low']:
        raise ExtractionError('IrcMsgQueue.enqueue: expected `command in _high` then `command in _low`, found %r' % (order,))
    # Irc.takeMsg: `msg.command.upper() in (<str>, ...)` (echo emulation)
    take = find_func(tree, 'takeMsg', cls='Irc')
    nodes = list(ast.walk(take))
    try:
        # since the repair the body of one round lives in `_takeMsg` (takeMsg loops over it)
        nodes += list(ast.walk(find_func(tree, '_takeMsg', cls='Irc')))
    except ExtractionError:
        pass
    echo = []
    for n in nodes:
        if (isinstance(n, ast.Compare) and len(n.ops) == 1 and isinstance(n.ops[0], ast.In)
                and isinstance(n.left, ast.Call) and isinstance(n.left.func, ast.Attribute)
                and n.left.func.attr == 'upper' and isinstance(n.comparators[0], (ast.Tuple, ast.List))):
            try:
                echo.append(list(ast.literal_eval(n.comparators[0])))
            except Exception as e:
                raise ExtractionError('Irc.takeMsg echo commands: %s' % e)
    if len(echo) != 1 or not all(isinstance(x, str) for x in echo[0]):
        raise ExtractionError('Irc.takeMsg: expected exactly one `msg.command.upper() in (...)` test, found %r' % (echo,))
    # IrcMsgQueue.enqueue: is the `msg in self` test, and is every append, inside `with self.lock:`?
    def under_lock(fn):
        locked = set()
        for n in ast.walk(fn):
            if isinstance(n, ast.With) and any(isinstance(i.context_expr, ast.Attribute) and i.context_expr.attr == 'lock'
                                               for i in n.items):
                for c in ast.walk(n):
                    locked.add(id(c))
        tests = [n for n in ast.walk(fn) if isinstance(n, ast.Compare) and len(n.ops) == 1 and isinstance(n.ops[0], ast.In)
                 and isinstance(n.comparators[0], ast.Name) and n.comparators[0].id == 'self']
        appends = [n for n in ast.walk(fn) if isinstance(n, ast.Call) and isinstance(n.func, ast.Attribute)
                   and n.func.attr == 'enqueue']
        if len(tests) != 1 or len(appends) != 3:
            raise ExtractionError('IrcMsgQueue.enqueue: expected one `msg in self` test and three appends, found %d, %d'
                                  % (len(tests), len(appends)))
        return all(id(n) in locked for n in tests + appends)
    enq_locked = under_lock(enq)
    body = ('import LimnoriaModel.Py.Basic\nnamespace Gen\n\n'
            '/-- irclib._high (sorted) -/\ndef highPriority : List Py.Str :=\n  %s\n\n'
            '/-- irclib._low (sorted) -/\ndef lowPriority : List Py.Str :=\n  %s\n\n'
            '/-- the command `IrcMsgQueue.dequeue` rate-limits -/\ndef rateLimitedCommand : Py.Str := %s\n\n'
            '/-- `Irc.takeMsg`: commands whose echo is emulated -/\ndef echoCommands : List Py.Str :=\n  %s\n\n'
            '/-- `IrcMsgQueue.enqueue`: the `msg in self` test and the appends are inside `with self.lock:` -/\n'
            'def enqueueLocked : Bool := %s\n\nend Gen\n'
            % (llist(lstr(x) for x in high), llist(lstr(x) for x in low), lstr(lim[0]),
               llist(lstr(x) for x in echo[0]), 'true' if enq_locked else 'false'))
    write_if_changed('IrcQueue.lean', body, 'src/irclib.py')
