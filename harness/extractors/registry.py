"""C15 — constants and inventories of src/registry.py, src/utils/str.py and src/conf.py on which the
Lean model of the configuration registry rests (Gen/Registry.lean)."""
import ast, string
from vlib.extractlib import (extractor, parse, find_assign, find_func, literal, lchar, lstr, lstring,
                             llist, write_if_changed, ExtractionError)


def _cls(tree, name):
    for n in tree.body:
        if isinstance(n, ast.ClassDef) and n.name == name:
            return n
    raise ExtractionError('class %s not found' % name)


def _calls(node, attr=None, name=None):
    """all Call nodes below `node` whose func is `<x>.<attr>` or `<name>`"""
    out = []
    for n in ast.walk(node):
        if isinstance(n, ast.Call):
            f = n.func
            if attr is not None and isinstance(f, ast.Attribute) and f.attr == attr:
                out.append(n)
            if name is not None and isinstance(f, ast.Name) and f.id == name:
                out.append(n)
    return out


def _str_const(node, what):
    if isinstance(node, ast.Constant) and isinstance(node.value, str):
        return node.value
    raise ExtractionError('%s: expected a string literal' % what)


def _one(xs, what):
    if len(xs) != 1:
        raise ExtractionError('%s: expected exactly one occurrence, found %d' % (what, len(xs)))
    return xs[0]


def _base_name(b):
    if isinstance(b, ast.Name):
        return b.id
    if isinstance(b, ast.Attribute):
        return b.attr
    return '?'


def _value_classes(tree, roots):
    """classes (name, bases) deriving transitively from a name in `roots`, in source order"""
    known = set(roots)
    out = []
    changed = True
    classes = [n for n in ast.walk(tree) if isinstance(n, ast.ClassDef)]
    while changed:
        changed = False
        for c in classes:
            if c.name in known:
                continue
            bases = [_base_name(b) for b in c.bases]
            if any(b in known for b in bases):
                known.add(c.name)
                changed = True
    for c in sorted(classes, key=lambda c: c.lineno):
        if c.name in known and c.name not in roots:
            out.append((c.name, [_base_name(b) for b in c.bases]))
    return out, known


@extractor('Registry')
def gen_registry():
    reg = parse('src/registry.py')
    ustr = parse('src/utils/str.py')
    conf = parse('src/conf.py')

    # --- String._printable = string.printable[:-4]
    node = find_assign(reg, '_printable', cls='String')
    ok = (isinstance(node, ast.Subscript) and isinstance(node.value, ast.Attribute)
          and isinstance(node.value.value, ast.Name) and node.value.value.id == 'string'
          and node.value.attr == 'printable' and isinstance(node.slice, ast.Slice)
          and node.slice.lower is None and node.slice.step is None)
    if not ok:
        raise ExtractionError('String._printable: expected string.printable[:<int>]')
    upper = literal(node.slice.upper, 'String._printable slice bound')
    if not isinstance(upper, int):
        raise ExtractionError('String._printable: slice bound is not an int')
    printable = string.printable[:upper]

    # --- String.set: the quote characters of `v[0] not in '\'"'`
    sset = find_func(reg, 'set', cls='String')
    quotes = None
    for n in ast.walk(sset):
        if isinstance(n, ast.Compare) and len(n.ops) == 1 and isinstance(n.ops[0], ast.NotIn):
            quotes = _str_const(n.comparators[0], 'String.set quote characters')
    if quotes is None:
        raise ExtractionError("String.set: `v[0] not in '<quotes>'` not found")
    # --- String._needsQuoting: source text of the returned expression (compared verbatim by a table lemma)
    nq = find_func(reg, '_needsQuoting', cls='String')
    rets = [n for n in ast.walk(nq) if isinstance(n, ast.Return)]
    needs_quoting_src = ast.unparse(_one(rets, 'String._needsQuoting return').value)

    # --- ENCODING (python 3 branch)
    enc = find_assign(reg, 'ENCODING')
    if not (isinstance(enc, ast.IfExp)):
        raise ExtractionError('ENCODING: expected `a if PY2 else b`')
    encoding = _str_const(enc.orelse, 'ENCODING')

    # --- open_registry: regexps and the strip set
    opn = find_func(reg, 'open_registry')
    slash_end = _str_const(_one(_calls(opn, attr='compile'), 'open_registry re.compile').args[0], 'slashEnd')
    kvc = _one(_calls(opn, name='_unescapedFind'), 'open_registry _unescapedFind(acc, <sep>)')
    kv_sep = _str_const(kvc.args[1], 'key/value separator')
    rstrips = [_str_const(c.args[0], 'rstrip arg') for c in _calls(opn, attr='rstrip')]
    strips = [_str_const(c.args[0], 'strip arg') for c in _calls(opn, attr='strip') if c.args]
    if len(rstrips) != 1 or len(strips) != 1:
        raise ExtractionError('open_registry: expected one rstrip(<chars>) and one strip(<chars>)')

    # --- close(): the line format
    cls = find_func(reg, 'close')
    fmts = []
    for n in ast.walk(cls):
        if isinstance(n, ast.BinOp) and isinstance(n.op, ast.Mod) and isinstance(n.left, ast.Constant) \
                and isinstance(n.left.value, str) and isinstance(n.right, ast.Tuple):
            fmts.append(n.left.value)
    line_fmt = _one(fmts, "close(): '%s: %s\\n' % (name, s)")
    header = literal(find_assign(reg, 'CONF_FILE_HEADER'), 'CONF_FILE_HEADER')

    # --- names
    spl = find_func(reg, 'split')
    name_sep = _str_const(_one(_calls(spl, name='_unescapedFind'), 'split _unescapedFind(name, <sep>, start)').args[1], 'name separator')
    uf = find_func(reg, '_unescapedFind')
    uf_body = [st for st in uf.body if not (isinstance(st, ast.Expr) and isinstance(st.value, ast.Constant))]
    unescaped_find_src = '; '.join(ast.unparse(st).replace('\n', ' ') for st in uf_body)
    unescaped_find_src = ' '.join(unescaped_find_src.split())
    esc = find_func(reg, 'escape'); unesc = find_func(reg, 'unescape')
    esc_repl = [(_str_const(c.args[0], 'escape replace'), _str_const(c.args[1], 'escape replace')) for c in _calls(esc, attr='replace')]
    unesc_repl = [(_str_const(c.args[0], 'unescape replace'), _str_const(c.args[1], 'unescape replace')) for c in _calls(unesc, attr='replace')]
    esc_repl.sort(key=lambda p: p[0]); # order of the two single-character replacements is immaterial
    # unescape order matters: keep source order (ast.walk is breadth-first: outer call first) -> use line order
    unesc_calls = sorted(_calls(unesc, attr='replace'), key=lambda c: (c.lineno, c.col_offset))
    unesc_repl = [(_str_const(c.args[0], 'unescape replace'), _str_const(c.args[1], 'unescape replace')) for c in unesc_calls]

    # --- lists
    def splitter_re(cname):
        f = find_func(reg, 'splitter', cls=cname)
        return _str_const(_one(_calls(f, attr='split'), cname + '.splitter re.split').args[0], cname + '.splitter')
    def joiner(cname):
        j = find_assign(reg, 'joiner', cls=cname)
        if not (isinstance(j, ast.Attribute) and j.attr == 'join'):
            raise ExtractionError(cname + ".joiner: expected '<sep>'.join")
        return _str_const(j.value, cname + '.joiner')
    comma_re = splitter_re('CommaSeparatedListOfStrings')
    comma_set_re = splitter_re('CommaSeparatedSetOfStrings')
    comma_join = joiner('CommaSeparatedListOfStrings')
    comma_set_join = joiner('CommaSeparatedSetOfStrings')
    space_join = joiner('SpaceSeparatedListOf')
    sp = find_func(reg, 'splitter', cls='SpaceSeparatedListOf')
    spc = _one(_calls(sp, attr='split'), 'SpaceSeparatedListOf.splitter')
    if spc.args or spc.keywords:
        raise ExtractionError('SpaceSeparatedListOf.splitter: expected s.split() without arguments')
    sl = find_func(reg, '__str__', cls='SeparatedListOf')
    empties = [n.value.value for n in ast.walk(sl) if isinstance(n, ast.Return) and isinstance(n.value, ast.Constant)]
    empty_list_str = _one(empties, "SeparatedListOf.__str__ `return ' '`")

    # --- NormalizedString.serialize: width and prefix arithmetic
    ns = find_func(reg, 'serialize', cls='NormalizedString')
    wrap = _one(_calls(ns, attr='wrap'), 'NormalizedString.serialize textwrap.wrap')
    kw = {k.arg: k.value for k in wrap.keywords}
    w = kw.get('width')
    # width=max(<int>, <int>-prefixLen)
    if not (isinstance(w, ast.Call) and isinstance(w.func, ast.Name) and w.func.id == 'max' and len(w.args) == 2
            and isinstance(w.args[0], ast.Constant) and isinstance(w.args[1], ast.BinOp) and isinstance(w.args[1].op, ast.Sub)
            and isinstance(w.args[1].left, ast.Constant) and isinstance(w.args[1].right, ast.Name) and w.args[1].right.id == 'prefixLen'):
        raise ExtractionError('NormalizedString.serialize: expected width=max(<int>, <int>-prefixLen)')
    wrap_min = w.args[0].value
    wrap_width = w.args[1].left.value
    flags = {}
    for nm in ('break_long_words', 'break_on_hyphens'):
        if nm not in kw or not isinstance(kw[nm], ast.Constant) or not isinstance(kw[nm].value, bool):
            raise ExtractionError('NormalizedString.serialize: expected %s=<bool> in textwrap.wrap(...)' % nm)
        flags[nm] = kw[nm].value
    extra_kw = sorted(set(kw) - {'width', 'break_long_words', 'break_on_hyphens'})
    if extra_kw:
        raise ExtractionError('NormalizedString.serialize: unexpected textwrap options %s' % extra_kw)
    pl = None
    for n in ast.walk(ns):
        if isinstance(n, ast.Assign) and isinstance(n.targets[0], ast.Name) and n.targets[0].id == 'prefixLen':
            v = n.value
            if isinstance(v, ast.BinOp) and isinstance(v.op, ast.Add) and isinstance(v.right, ast.Constant):
                pl = v.right.value
    if pl is None:
        raise ExtractionError('NormalizedString.serialize: expected prefixLen = len(self._name) + <int>')

    # --- toBool tables
    tb = find_func(ustr, 'toBool')
    tabs = []
    for n in ast.walk(tb):
        if isinstance(n, ast.Compare) and len(n.ops) == 1 and isinstance(n.ops[0], ast.In):
            t = literal(n.comparators[0], 'toBool table')
            if not (isinstance(t, tuple) and all(isinstance(x, str) for x in t)):
                raise ExtractionError('toBool: expected tuples of strings')
            tabs.append((n.lineno, t))
    tabs.sort()
    if len(tabs) != 2:
        raise ExtractionError('toBool: expected two membership tests')
    bs = find_func(reg, 'set', cls='Boolean')
    toggles = [n.comparators[0].value for n in ast.walk(bs) if isinstance(n, ast.Compare) and isinstance(n.ops[0], ast.Eq)
               and isinstance(n.comparators[0], ast.Constant) and isinstance(n.comparators[0].value, str)]
    toggle = _one(toggles, "Boolean.set `== 'toggle'`")

    # --- normalizeWhitespace
    nw = find_func(ustr, 'normalizeWhitespace')
    edge = sorted(set(n.comparators[0].value for n in ast.walk(nw) if isinstance(n, ast.Compare)
                      and isinstance(n.ops[0], ast.In) and isinstance(n.comparators[0], ast.Constant)))
    if len(edge) != 1:
        raise ExtractionError("normalizeWhitespace: expected one `in '<blank chars>'` set")
    nw_consts = [n.value for n in ast.walk(nw) if isinstance(n, ast.Constant) and isinstance(n.value, str)
                 and n is not nw.body[0].value]
    nw_newline_re = _str_const(_one(_calls(nw, attr='compile'), 'normalizeWhitespace re.compile').args[0], 'newline_re')
    nw_splits = [_str_const(c.args[0], 'normalizeWhitespace split') for c in sorted(_calls(nw, attr='split'), key=lambda c: c.lineno)
                 if c.args and isinstance(c.args[0], ast.Constant)]

    # --- inventory of value classes
    rclasses, known = _value_classes(reg, {'Value'})
    cclasses, _ = _value_classes(conf, known)
    MODELLED = {'Boolean', 'Integer', 'NonNegativeInteger', 'PositiveInteger', 'String', 'NormalizedString',
                'StringSurroundedBySpaces', 'StringWithSpaceOnRight', 'SeparatedListOf', 'SpaceSeparatedListOf',
                'SpaceSeparatedListOfStrings', 'SpaceSeparatedSetOfStrings', 'CommaSeparatedListOfStrings',
                'CommaSeparatedSetOfStrings'}

    # --- ircutils.isChannel defaults (which names the start-up scan and getSpecific take for channels)
    iru = parse('src/ircutils.py')
    isch = find_func(iru, 'isChannel')
    argn = [a.arg for a in isch.args.args]
    defs = dict(zip(argn[len(argn) - len(isch.args.defaults):], isch.args.defaults))
    if 'chantypes' not in defs or 'channellen' not in defs:
        raise ExtractionError('ircutils.isChannel: expected defaults for chantypes and channellen')
    chantypes = _str_const(defs['chantypes'], 'isChannel chantypes default')
    channellen = literal(defs['channellen'], 'isChannel channellen default')
    if not isinstance(channellen, int):
        raise ExtractionError('isChannel channellen default is not an int')
    isch_src = ast.unparse(_one([n for n in ast.walk(isch) if isinstance(n, ast.Return)], 'isChannel return').value)

    # --- the interpreter's decimal digit table (int() accepts every Unicode decimal digit): code points of the zeros;
    #     Unicode lays the ten digits of a script out contiguously, which is checked here
    import unicodedata, sys as _sys
    zeros = []
    for cp in range(128, _sys.maxunicode + 1):
        dv = unicodedata.decimal(chr(cp), None)
        if dv is not None:
            if dv == 0:
                zeros.append(cp)
            elif not zeros or cp - zeros[-1] != dv:
                raise ExtractionError('decimal digits of U+%04X are not a contiguous run of ten' % cp)
    for z in zeros:
        if [unicodedata.decimal(chr(z + i), None) for i in range(10)] != list(range(10)):
            raise ExtractionError('decimal digits from U+%04X are not a contiguous run of ten' % z)

    # --- utils.str.perlReToPythonRe: brace tables; the interpreter's re.escape specials and single-letter re flags
    openers = literal(find_assign(ustr, '_openers'), '_openers'); closers = literal(find_assign(ustr, '_closers'), '_closers')
    if not (isinstance(openers, str) and isinstance(closers, str) and len(openers) == len(closers)):
        raise ExtractionError('_openers/_closers: expected two strings of equal length')
    p2p = find_func(ustr, 'perlReToPythonRe')
    matcher_fmt = [n.left.value for n in ast.walk(p2p) if isinstance(n, ast.BinOp) and isinstance(n.op, ast.Mod)
                   and isinstance(n.left, ast.Constant) and isinstance(n.left.value, str) and '%s' in n.left.value and '(' in n.left.value]
    matcher_fmt = _one(matcher_fmt, "perlReToPythonRe matcher r'm?%s(...)%s(.*)'")
    import re as _re, string as _string
    re_specials = ''.join(chr(c) for c in range(128) if _re.escape(chr(c)) != chr(c))
    re_flag_letters = ''.join(c for c in _string.ascii_uppercase if isinstance(getattr(_re, c, None), int))

    # --- finite tables of conf.py validators
    oss_tables = []
    for cdef in sorted((n for n in ast.walk(conf) if isinstance(n, ast.ClassDef)), key=lambda c: c.lineno):
        if any(_base_name(b) == 'OnlySomeStrings' for b in cdef.bases):
            t = literal(find_assign(conf, 'validStrings', cls=cdef.name), cdef.name + '.validStrings')
            if not (isinstance(t, tuple) and all(isinstance(x, str) for x in t)):
                raise ExtractionError(cdef.name + '.validStrings: expected a tuple of strings')
            oss_tables.append((cdef.name, list(t)))
    def char_table(cname):
        f = find_func(conf, 'setValue', cls=cname)
        consts = [n.comparators[0].value for n in ast.walk(f) if isinstance(n, ast.Compare) and len(n.ops) == 1
                  and isinstance(n.ops[0], ast.NotIn) and isinstance(n.comparators[0], ast.Constant) and isinstance(n.comparators[0].value, str)]
        return _one(consts, cname + ".setValue `x not in '<chars>'`")
    prefix_chars = char_table('ValidPrefixChars')
    quotes_chars = char_table('ValidQuotes')

    # --- every setValue checks before it stores (a rejected value is never in force, not even for a moment)
    def is_error_call(n):
        return isinstance(n, ast.Call) and isinstance(n.func, ast.Attribute) and n.func.attr == 'error'
    def is_store_call(n):
        return isinstance(n, ast.Call) and isinstance(n.func, ast.Attribute) and n.func.attr in ('setValue', '_setValue')
    def has(node, pred):
        return any(pred(n) for n in ast.walk(node))
    def seq_ok(stmts, stored):
        """walk statements in order; returns (ok, stored_after)"""
        ok = True
        for st in stmts:
            if isinstance(st, ast.If):
                if stored and has(st.test, is_error_call): ok = False
                o1, s1 = seq_ok(st.body, stored); o2, s2 = seq_ok(st.orelse, stored)
                ok = ok and o1 and o2; stored = stored or s1 or s2
            elif isinstance(st, ast.Try):
                o1, s1 = seq_ok(st.body, stored); ok = ok and o1
                for h in st.handlers:
                    oh, sh = seq_ok(h.body, stored); ok = ok and oh      # the handler runs when the body raised before storing
                o3, s3 = seq_ok(st.orelse + st.finalbody, stored or s1); ok = ok and o3
                stored = stored or s1 or s3
            elif isinstance(st, (ast.For, ast.While, ast.With)):
                o1, s1 = seq_ok(st.body, stored); ok = ok and o1; stored = stored or s1
                if s1 and has(st, is_error_call) and isinstance(st, (ast.For, ast.While)): ok = False   # a later iteration could reject
            else:
                if stored and has(st, is_error_call): ok = False
                if has(st, is_store_call): stored = True
                if isinstance(st, ast.Assign) and any(isinstance(t, ast.Attribute) and t.attr == 'value' and isinstance(t.value, ast.Name) and t.value.id == 'self' for t in st.targets):
                    stored = True
        return ok, stored
    import glob, os as _os
    from vlib import REPO as _REPO
    cts = []
    srcs = [('registry', reg), ('conf', conf)]
    for f in sorted(glob.glob(_os.path.join(_REPO, 'plugins', '*', 'config.py'))):
        try:
            srcs.append(('plugins.' + _os.path.basename(_os.path.dirname(f)), ast.parse(open(f, encoding='utf-8').read(), f)))
        except SyntaxError as e:
            raise ExtractionError('%s: %s' % (f, e))
    for mod, tree_ in srcs:
        for cdef in sorted((n for n in ast.walk(tree_) if isinstance(n, ast.ClassDef)), key=lambda c: c.lineno):
            for m in cdef.body:
                if isinstance(m, ast.FunctionDef) and m.name in ('setValue', 'set') and cdef.bases:
                    if mod.startswith('plugins.') and not any(_base_name(b) in known or _base_name(b) in dict(cclasses) or True for b in cdef.bases):
                        continue
                    o, _s = seq_ok(m.body, False)
                    cts.append(('%s.%s.%s' % (mod, cdef.name, m.name), o))

    # --- which methods every value class overrides (so that no class is silently skipped)
    WATCH = ('set', 'setValue', '_setValue', '__str__', 'serialize', '__call__', 'normalize', 'error', 'splitter', 'joiner')
    def overrides(tree, names):
        out = []
        for c in sorted((n for n in ast.walk(tree) if isinstance(n, ast.ClassDef)), key=lambda c: c.lineno):
            if c.name in names:
                ms = [m.name for m in c.body if isinstance(m, (ast.FunctionDef, ast.AsyncFunctionDef)) and m.name in WATCH]
                ms += [t.id for m in c.body if isinstance(m, ast.Assign) for t in m.targets if isinstance(t, ast.Name) and t.id in WATCH]
                out.append((c.name, ms))
        return out
    r_over = overrides(reg, set(n for n, _ in rclasses))
    c_over = overrides(conf, set(n for n, _ in cclasses))
    MODELLED_CONF = {'SocketTimeout'}

    L = []
    L.append('import LimnoriaModel.Py.Basic\nnamespace Gen\nnamespace Registry\n')
    def d(doc, name, ty, val):
        L.append('/-- %s -/\ndef %s : %s :=\n  %s\n' % (doc, name, ty, val))
    d('registry.String._printable', 'stringPrintable', 'Py.Str', lstr(printable))
    d("the quote characters of String.set (`v[0] not in ...`)", 'stringQuotes', 'Py.Str', lstr(quotes))
    d('source of the expression returned by String._needsQuoting', 'needsQuotingSrc', 'String', lstring(needs_quoting_src))
    d('registry.ENCODING on Python 3', 'encoding', 'String', lstring(encoding))
    d('open_registry: slashEnd regexp', 'slashEndRe', 'String', lstring(slash_end))
    d('open_registry: key/value separator searched with _unescapedFind', 'kvSeparator', 'Py.Str', lstr(kv_sep))
    d('open_registry: line.rstrip(chars)', 'lineRstrip', 'Py.Str', lstr(rstrips[0]))
    d('open_registry: value.strip(chars)', 'valueStrip', 'Py.Str', lstr(strips[0]))
    d('close(): format of a value line', 'lineFormat', 'String', lstring(line_fmt))
    d('CONF_FILE_HEADER', 'confFileHeader', 'Py.Str', lstr(header))
    d('registry.split: separator searched with _unescapedFind', 'nameSeparator', 'Py.Str', lstr(name_sep))
    d('registry._unescapedFind: its statements', 'unescapedFindSrc', 'String', lstring(unescaped_find_src))
    d('escape(): str.replace pairs (sorted)', 'escapeReplace', 'List (String × String)', llist('(%s, %s)' % (lstring(a), lstring(b)) for a, b in esc_repl))
    d('unescape(): str.replace pairs in source order', 'unescapeReplace', 'List (String × String)', llist('(%s, %s)' % (lstring(a), lstring(b)) for a, b in unesc_repl))
    d('CommaSeparatedListOfStrings.splitter regexp', 'commaSplitRe', 'String', lstring(comma_re))
    d('CommaSeparatedSetOfStrings.splitter regexp', 'commaSetSplitRe', 'String', lstring(comma_set_re))
    d('CommaSeparatedListOfStrings.joiner separator', 'commaJoin', 'Py.Str', lstr(comma_join))
    d('CommaSeparatedSetOfStrings.joiner separator', 'commaSetJoin', 'Py.Str', lstr(comma_set_join))
    d('SpaceSeparatedListOf.joiner separator', 'spaceJoin', 'Py.Str', lstr(space_join))
    d('SeparatedListOf.__str__ of an empty list', 'emptyListStr', 'Py.Str', lstr(empty_list_str))
    d('NormalizedString.serialize: textwrap width before subtracting the prefix', 'wrapWidth', 'Nat', str(int(wrap_width)))
    d('NormalizedString.serialize: prefixLen = len(name) + this', 'wrapPrefixExtra', 'Nat', str(int(pl)))
    d('NormalizedString.serialize: lower bound of the width', 'wrapMinWidth', 'Nat', str(int(wrap_min)))
    d('NormalizedString.serialize: textwrap break_long_words', 'wrapBreakLongWords', 'Bool', 'true' if flags['break_long_words'] else 'false')
    d('NormalizedString.serialize: textwrap break_on_hyphens', 'wrapBreakOnHyphens', 'Bool', 'true' if flags['break_on_hyphens'] else 'false')
    d('utils.str.toBool: strings meaning True', 'toBoolTrue', 'List Py.Str', llist(lstr(x) for x in tabs[0][1]))
    d('utils.str.toBool: strings meaning False', 'toBoolFalse', 'List Py.Str', llist(lstr(x) for x in tabs[1][1]))
    d("Boolean.set: the 'toggle' word", 'toggleWord', 'Py.Str', lstr(toggle))
    d('normalizeWhitespace: characters tested at both ends', 'nwEdgeBlanks', 'Py.Str', lstr(edge[0]))
    d('normalizeWhitespace: newline regexp', 'nwNewlineRe', 'String', lstring(nw_newline_re))
    d('normalizeWhitespace: successive str.split separators', 'nwSplits', 'List Py.Str', llist(lstr(x) for x in nw_splits))
    d('value classes of registry.py (name, bases) deriving from Value', 'registryClasses', 'List (String × List String)',
      llist('(%s, %s)' % (lstring(n), llist(lstring(b) for b in bs)) for n, bs in rclasses))
    d('value classes of conf.py (name, bases) deriving from a registry value class', 'confClasses', 'List (String × List String)',
      llist('(%s, %s)' % (lstring(n), llist(lstring(b) for b in bs)) for n, bs in cclasses))
    d('registry.py value classes whose logic is inside the Lean model', 'modelledClasses', 'List String',
      llist(lstring(n) for n, _ in rclasses if n in MODELLED))
    d('methods of the value protocol each registry.py value class overrides', 'registryOverrides', 'List (String × List String)',
      llist('(%s, %s)' % (lstring(n), llist(lstring(m) for m in ms)) for n, ms in r_over))
    d('methods of the value protocol each conf.py value class overrides', 'confOverrides', 'List (String × List String)',
      llist('(%s, %s)' % (lstring(n), llist(lstring(m) for m in ms)) for n, ms in c_over))
    d('conf.py value classes whose logic is inside the Lean model', 'modelledConfClasses', 'List String',
      llist(lstring(n) for n, _ in cclasses if n in MODELLED_CONF))
    d('ircutils.isChannel: default chantypes', 'chanTypes', 'Py.Str', lstr(chantypes))
    d('ircutils.isChannel: default channellen', 'chanLen', 'Nat', str(int(channellen)))
    d('ircutils.isChannel: source of the returned expression', 'isChannelSrc', 'String', lstring(isch_src))
    d('utils.str._openers', 'reOpeners', 'Py.Str', lstr(openers))
    d('utils.str._closers', 'reClosers', 'Py.Str', lstr(closers))
    d('perlReToPythonRe: the format of the matcher regexp', 'reMatcherFmt', 'String', lstring(matcher_fmt))
    d('ASCII characters re.escape puts a backslash before (this interpreter)', 'reEscapeSpecials', 'Py.Str', lstr(re_specials))
    d('upper-case letters that name an integer flag of the re module (this interpreter)', 'reFlagLetters', 'Py.Str', lstr(re_flag_letters))
    d('code points of the non-ASCII characters with decimal digit value 0 (each followed by its 1..9) in this interpreter', 'decimalZeros', 'List Nat', llist(str(z) for z in zeros))
    d('validStrings of the conf.py subclasses of OnlySomeStrings', 'onlySomeStringsTables', 'List (String × List Py.Str)',
      llist('(%s, %s)' % (lstring(n), llist(lstr(x) for x in t)) for n, t in oss_tables))
    d('conf.ValidPrefixChars: the allowed characters', 'validPrefixChars', 'Py.Str', lstr(prefix_chars))
    d('conf.ValidQuotes: the allowed characters', 'validQuotesChars', 'Py.Str', lstr(quotes_chars))
    d('every set/setValue of registry.py, conf.py and plugins/*/config.py: does it finish its checks (self.error) before it stores?',
      'checkThenStore', 'List (String × Bool)', llist('(%s, %s)' % (lstring(n), 'true' if o else 'false') for n, o in cts))
    L.append('end Registry\nend Gen\n')
    write_if_changed('Registry.lean', '\n'.join(L), 'src/registry.py, src/utils/str.py, src/conf.py')
