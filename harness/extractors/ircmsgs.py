from vlib.extractlib import (extractor, parse, find_assign, literal, lchar, lstr, llist,
                             write_if_changed, ExtractionError)

@extractor('IrcMsgs')
def gen_ircmsgs():
    tree = parse('src/ircmsgs.py')
    tab = literal(find_assign(tree, 'SERVER_TAG_ESCAPE'), 'SERVER_TAG_ESCAPE')
    if not (isinstance(tab, list) and all(isinstance(p, tuple) and len(p) == 2 and
            isinstance(p[0], str) and len(p[0]) == 1 and isinstance(p[1], str) for p in tab)):
        raise ExtractionError('SERVER_TAG_ESCAPE: expected a list of (char, str) pairs')
    body = ('import LimnoriaModel.Py.Basic\nnamespace Gen\n\n/-- ircmsgs.SERVER_TAG_ESCAPE -/\n'
            'def serverTagEscape : List (Char × Py.Str) :=\n  %s\n\nend Gen\n'
            % llist('(%s, %s)' % (lchar(k), lstr(v)) for k, v in tab))
    write_if_changed('IrcMsgs.lean', body, 'src/ircmsgs.py')
