"""C08/C09: tables of the connection state machine (src/irclib.py, src/ircutils.py) -> Gen/Conn.lean.
Extracted: the `IrcStateFsm.States` enumeration (becomes the Lean inductive `Gen.Fsm`), every guarded
transition of the FSM (target + `expected_from` list), the two if/elif transition tables
(`on_sasl_cap`, `on_sasl_auth_finished`), the `expect_state([...])` lists of the Irc handlers,
`REQUEST_CAPABILITIES`, `_nickSetters`, `MAX_LINE_SIZE`, `AUTHENTICATE_CHUNK_SIZE`, the literal
'CAP REQ :' whose length is subtracted from the line size, and the key order of `parseStsPolicy`."""
import ast
from vlib.extractlib import (extractor, parse, find_assign, find_func, literal, lstr, llist,
                             write_if_changed, ExtractionError)

def _state_name(node):
    """`self.States.X` / `IrcStateFsm.States.X` -> 'X'"""
    if (isinstance(node, ast.Attribute) and isinstance(node.value, ast.Attribute)
            and node.value.attr == 'States'):
        return node.attr
    raise ExtractionError('expected a States.<NAME> expression, got %s' % ast.dump(node)[:80])

def _state_list(node):
    if not isinstance(node, (ast.List, ast.Tuple)):
        raise ExtractionError('expected a list of states, got %s' % ast.dump(node)[:80])
    return [_state_name(e) for e in node.elts]

def _transition_call(stmt):
    """`self._transition(irc, msg, TO[, EXPECTED])` -> (TO, EXPECTED or None)"""
    if not (isinstance(stmt, ast.Expr) and isinstance(stmt.value, ast.Call)
            and isinstance(stmt.value.func, ast.Attribute) and stmt.value.func.attr == '_transition'):
        raise ExtractionError('expected a self._transition(...) call')
    a = stmt.value.args
    if len(a) == 3 and not stmt.value.keywords:
        return _state_name(a[2]), None
    if len(a) == 4 and not stmt.value.keywords:
        return _state_name(a[2]), _state_list(a[3])
    raise ExtractionError('_transition call with unexpected arguments')

def _body(fn):
    """function body without the docstring"""
    b = list(fn.body)
    if b and isinstance(b[0], ast.Expr) and isinstance(b[0].value, ast.Constant) and isinstance(b[0].value.value, str):
        b = b[1:]
    return b

def _guarded(tree, name):
    b = _body(find_func(tree, name, 'IrcStateFsm'))
    if len(b) != 1:
        raise ExtractionError('IrcStateFsm.%s: expected a single _transition call' % name)
    to, exp = _transition_call(b[0])
    return to, exp

def _ifchain(tree, name):
    """if self.state == A: _transition(.., X) elif self.state == B: _transition(.., Y) else: raise ValueError"""
    b = _body(find_func(tree, name, 'IrcStateFsm'))
    if len(b) != 1 or not isinstance(b[0], ast.If):
        raise ExtractionError('IrcStateFsm.%s: expected one if/elif/else chain' % name)
    out = []
    node = b[0]
    while True:
        t = node.test
        if not (isinstance(t, ast.Compare) and len(t.ops) == 1 and isinstance(t.ops[0], ast.Eq)
                and isinstance(t.left, ast.Attribute) and t.left.attr == 'state'):
            raise ExtractionError('IrcStateFsm.%s: unexpected test' % name)
        frm = _state_name(t.comparators[0])
        if len(node.body) != 1:
            raise ExtractionError('IrcStateFsm.%s: unexpected branch body' % name)
        to, exp = _transition_call(node.body[0])
        if exp is not None:
            raise ExtractionError('IrcStateFsm.%s: guarded transition inside a branch' % name)
        out.append((frm, to))
        if len(node.orelse) == 1 and isinstance(node.orelse[0], ast.If):
            node = node.orelse[0]
            continue
        if len(node.orelse) == 1 and isinstance(node.orelse[0], ast.Raise):
            break
        raise ExtractionError('IrcStateFsm.%s: chain does not end in `raise`' % name)
    return out

def _expect_lists(tree, fname):
    """all `self.state.fsm.expect_state([...])` calls inside Irc.<fname>, in source order"""
    fn = find_func(tree, fname, 'Irc')
    out = []
    for n in ast.walk(fn):
        if (isinstance(n, ast.Call) and isinstance(n.func, ast.Attribute) and n.func.attr == 'expect_state'):
            if len(n.args) != 1:
                raise ExtractionError('Irc.%s: expect_state with %d args' % (fname, len(n.args)))
            out.append((n.lineno, _state_list(n.args[0])))
    out.sort()
    return [l for _, l in out]

def _one_expect(tree, fname):
    ls = _expect_lists(tree, fname)
    if len(ls) != 1:
        raise ExtractionError('Irc.%s: expected exactly one expect_state call, found %d' % (fname, len(ls)))
    return ls[0]

def _set_literal(node, what):
    """set([...]) or {...} of strings"""
    if isinstance(node, ast.Call) and isinstance(node.func, ast.Name) and node.func.id == 'set' and len(node.args) == 1:
        node = node.args[0]
    v = literal(node, what)
    if not (isinstance(v, (list, set, tuple)) and all(isinstance(x, str) for x in v)):
        raise ExtractionError('%s: expected a collection of strings' % what)
    return sorted(set(v))

def _fsm(l):
    return llist('.' + x for x in l)

@extractor('Conn')
def gen_conn():
    tree = parse('src/irclib.py')
    utree = parse('src/ircutils.py')
    # --- States enumeration
    fsm = None
    for n in tree.body:
        if isinstance(n, ast.ClassDef) and n.name == 'IrcStateFsm':
            fsm = n
    if fsm is None:
        raise ExtractionError('class IrcStateFsm not found')
    states = None
    for n in fsm.body:
        if isinstance(n, ast.ClassDef) and n.name == 'States':
            states = [(t.id, literal(a.value, 'state value')) for a in n.body if isinstance(a, ast.Assign)
                      for t in a.targets if isinstance(t, ast.Name)]
    if not states:
        raise ExtractionError('IrcStateFsm.States not found')
    names = [s for s, _ in states]
    # --- transitions
    init_to, init_exp = _guarded(tree, 'on_init_messages_sent')
    end_to, end_exp = _guarded(tree, 'on_cap_end')
    sm_to, sm_exp = _guarded(tree, 'on_start_motd')
    em_to, em_exp = _guarded(tree, 'on_end_motd')
    sd_to, sd_exp = _guarded(tree, 'on_shutdown')
    if None in (init_exp, end_exp, sm_exp, em_exp) or sd_exp is not None:
        raise ExtractionError('guard shape of an FSM transition changed')
    sasl_cap = _ifchain(tree, 'on_sasl_cap')
    sasl_fin = _ifchain(tree, 'on_sasl_auth_finished')
    # reset target
    rb = [n for n in ast.walk(find_func(tree, 'reset', 'IrcStateFsm'))
          if isinstance(n, ast.Assign) and isinstance(n.targets[0], ast.Attribute) and n.targets[0].attr == 'state']
    if len(rb) != 1:
        raise ExtractionError('IrcStateFsm.reset: expected one assignment to self.state')
    reset_to = _state_name(rb[0].value)
    # --- expect_state lists of the handlers
    e_upkeep = _one_expect(tree, 'capUpkeep')
    e_trynext = _one_expect(tree, 'tryNextSaslMechanism')
    e_auth = _one_expect(tree, 'doAuthenticate')
    e_ls = _one_expect(tree, 'doCapLs')
    e_903 = _one_expect(tree, 'do903')
    # --- constants
    req = _set_literal(find_assign(tree, 'REQUEST_CAPABILITIES', 'Irc'), 'REQUEST_CAPABILITIES')
    setters = _set_literal(find_assign(tree, '_nickSetters', 'Irc'), '_nickSetters')
    maxline = literal(find_assign(tree, 'MAX_LINE_SIZE'), 'MAX_LINE_SIZE')
    chunk = literal(find_assign(utree, 'AUTHENTICATE_CHUNK_SIZE'), 'AUTHENTICATE_CHUNK_SIZE')
    if not (isinstance(maxline, int) and isinstance(chunk, int) and maxline > 0 and chunk > 0):
        raise ExtractionError('MAX_LINE_SIZE / AUTHENTICATE_CHUNK_SIZE are not positive integers')
    # `textwrap.wrap(caps, MAX_LINE_SIZE-len('CAP REQ :'), ...)`
    rq = find_func(tree, '_requestCaps', 'Irc')
    prefix = None
    for n in ast.walk(rq):
        if (isinstance(n, ast.Call) and isinstance(n.func, ast.Attribute) and n.func.attr == 'wrap'
                and len(n.args) >= 2 and isinstance(n.args[1], ast.BinOp) and isinstance(n.args[1].op, ast.Sub)
                and isinstance(n.args[1].left, ast.Name) and n.args[1].left.id == 'MAX_LINE_SIZE'
                and isinstance(n.args[1].right, ast.Call) and isinstance(n.args[1].right.func, ast.Name)
                and n.args[1].right.func.id == 'len'):
            prefix = literal(n.args[1].right.args[0], 'CAP REQ prefix')
            kws = {k.arg: literal(k.value, k.arg) for k in n.keywords}
            if kws != {'break_long_words': False, 'break_on_hyphens': False}:
                raise ExtractionError('_requestCaps: textwrap.wrap keywords changed: %r' % kws)
    if not isinstance(prefix, str):
        raise ExtractionError('_requestCaps: textwrap.wrap(caps, MAX_LINE_SIZE-len(<literal>)) not found')
    # parseStsPolicy: `for key in ('port', 'duration'):`
    ps = find_func(utree, 'parseStsPolicy')
    keys = None
    for n in ast.walk(ps):
        if isinstance(n, ast.For) and isinstance(n.target, ast.Name) and n.target.id == 'key':
            keys = literal(n.iter, 'parseStsPolicy keys')
    if list(keys or ()) != ['port', 'duration']:
        raise ExtractionError("parseStsPolicy: expected `for key in ('port', 'duration')`, got %r" % (keys,))
    body = 'import LimnoriaModel.Py.Basic\nnamespace Gen.Conn\n\n'
    body += '/-- irclib.IrcStateFsm.States (values: %s) -/\ninductive Fsm where\n' % ', '.join('%s=%s' % s for s in states)
    body += ''.join('  | %s\n' % s for s in names) + 'deriving DecidableEq, Repr, Inhabited\n\n'
    body += 'def Fsm.name : Fsm → String\n' + ''.join('  | .%s => "%s"\n' % (s, s) for s in names) + '\n'
    body += 'def Fsm.all : List Fsm := %s\n\n' % _fsm(names)
    body += '/-- IrcStateFsm.reset -/\ndef fsmReset : Fsm := .%s\n' % reset_to
    for nm, to, exp in (('InitMessagesSent', init_to, init_exp), ('CapEnd', end_to, end_exp),
                        ('StartMotd', sm_to, sm_exp), ('EndMotd', em_to, em_exp)):
        body += '/-- IrcStateFsm.on_%s: target and expected_from -/\ndef to%s : Fsm := .%s\ndef guard%s : List Fsm := %s\n' % (nm, nm, to, nm, _fsm(exp))
    body += '/-- IrcStateFsm.on_shutdown (unguarded) -/\ndef toShutdown : Fsm := .%s\n' % sd_to
    body += '/-- IrcStateFsm.on_sasl_cap: (from, to) pairs, otherwise ValueError -/\ndef onSaslCap : List (Fsm × Fsm) := %s\n' % llist('(.%s, .%s)' % p for p in sasl_cap)
    body += '/-- IrcStateFsm.on_sasl_auth_finished -/\ndef onSaslAuthFinished : List (Fsm × Fsm) := %s\n' % llist('(.%s, .%s)' % p for p in sasl_fin)
    body += '/-- expect_state lists of Irc.capUpkeep / tryNextSaslMechanism / doAuthenticate / doCapLs -/\n'
    body += 'def expectCapUpkeep : List Fsm := %s\ndef expectTryNextSasl : List Fsm := %s\n' % (_fsm(e_upkeep), _fsm(e_trynext))
    body += 'def expectDoAuthenticate : List Fsm := %s\ndef expectDoCapLs : List Fsm := %s\n' % (_fsm(e_auth), _fsm(e_ls))
    body += '/-- expect_state list of Irc.do903 -/\ndef expectDo903 : List Fsm := %s\n\n' % _fsm(e_903)
    body += '/-- Irc.REQUEST_CAPABILITIES as written in the source (sorted) -/\ndef requestCapabilities : List Py.Str :=\n  %s\n' % llist(lstr(x) for x in req)
    body += '/-- Irc._nickSetters (sorted) -/\ndef nickSetters : List Py.Str :=\n  %s\n' % llist(lstr(x) for x in setters)
    body += 'def maxLineSize : Nat := %d\ndef authenticateChunkSize : Nat := %d\n' % (maxline, chunk)
    body += "/-- the literal whose length `_requestCaps` subtracts from MAX_LINE_SIZE -/\ndef capReqPrefix : Py.Str := %s\n" % lstr(prefix)
    body += '\nend Gen.Conn\n'
    write_if_changed('Conn.lean', body, 'src/irclib.py, src/ircutils.py')
