"""C17: inventory of every place in src/ and the bundled plugins that opens a file for writing, and of
every AtomicFile call site -> Gen/Writers.lean.

 * directWriters: open(...)/codecs.open(...)/os.fdopen(...) with a writing mode ('w', 'a', 'x', '+')
   in src/**/*.py and plugins/__init__.py: (file, enclosing function, call text, mode)
 * pluginWriters: the same for plugins/*/*.py (test.py excluded)
 * atomicSites: every `AtomicFile(` call: (file, enclosing function)
A call whose mode is not a string literal is recorded with mode '?'."""
import ast, os, glob
from vlib import REPO
from vlib.extractlib import extractor, parse, lstring, llist, write_if_changed, ExtractionError

WRITE_CHARS = set('wax+')

def _functions(tree):
    def rec(body, prefix):
        for n in body:
            if isinstance(n, ast.ClassDef):
                for x in rec(n.body, prefix + n.name + '.'):
                    yield x
            elif isinstance(n, (ast.FunctionDef, ast.AsyncFunctionDef)):
                yield prefix + n.name, n
                for x in rec(n.body, prefix + n.name + '.'):
                    yield x
    return rec(tree.body, '')

def _owner(tree):
    """map call node id -> innermost enclosing function name ('<module>' at top level)"""
    owner = {}
    for qn, fn in _functions(tree):
        for node in ast.walk(fn):
            if isinstance(node, ast.Call):
                owner[id(node)] = qn       # inner functions are visited later and overwrite
    return owner

def _mode(call):
    name = ast.unparse(call.func)
    pos = 1
    mode = None
    if len(call.args) > pos:
        mode = call.args[pos]
    for k in call.keywords:
        if k.arg == 'mode':
            mode = k.value
    if mode is None:
        return 'r'
    if isinstance(mode, ast.Constant) and isinstance(mode.value, str):
        return mode.value
    return '?'

def _scan(rel):
    tree = parse(rel)
    owner = _owner(tree)
    direct = []; atomic = []
    calls = [n for n in ast.walk(tree) if isinstance(n, ast.Call)]
    calls.sort(key=lambda c: (c.lineno, c.col_offset))
    for c in calls:
        name = ast.unparse(c.func)
        fn = owner.get(id(c), '<module>')
        if name.endswith('AtomicFile'):
            atomic.append((rel, fn))
        elif name in ('open', 'codecs.open', 'io.open', 'os.fdopen', 'builtins.open') or name.endswith('.open_mkdir'):
            m = _mode(c)
            if m == '?' or (set(m) & WRITE_CHARS):
                args = ', '.join([ast.unparse(a) for a in c.args] + ['%s=%s' % (k.arg, ast.unparse(k.value)) for k in c.keywords])
                direct.append((rel, fn, '%s(%s)' % (name, args), m))
    return direct, atomic

def _rows4(rows):
    return llist('(%s, %s, %s, %s)' % tuple(lstring(x) for x in r) for r in rows)

@extractor('Writers')
def gen_writers():
    src = sorted(os.path.relpath(p, REPO) for p in glob.glob(os.path.join(REPO, 'src', '**', '*.py'), recursive=True)
                 if not os.path.relpath(p, REPO).startswith('src/plugins/'))       # src/plugins is a link to plugins/
    if not src:
        raise ExtractionError('no sources under src/')
    core = src + ['plugins/__init__.py']
    plug = sorted(os.path.relpath(p, REPO) for p in glob.glob(os.path.join(REPO, 'plugins', '*', '*.py'))
                  if os.path.basename(p) != 'test.py')
    direct = []; atomic = []; pdirect = []
    for rel in core:
        d, a = _scan(rel)
        direct += d; atomic += a
    for rel in plug:
        d, a = _scan(rel)
        pdirect += d; atomic += a
    body = 'namespace Gen.Writers\n\n'
    body += ('/-- files opened for writing without AtomicFile in src/ and plugins/__init__.py:\n'
             '    (file, function, call, mode) -/\ndef directWriters : List (String × String × String × String) :=\n  %s\n\n' % _rows4(direct))
    body += '/-- the same in the bundled plugins -/\ndef pluginWriters : List (String × String × String × String) :=\n  %s\n\n' % _rows4(pdirect)
    body += ('/-- every AtomicFile(...) call site: (file, function) -/\ndef atomicSites : List (String × String) :=\n  %s\n\nend Gen.Writers\n'
             % llist('(%s, %s)' % (lstring(f), lstring(q)) for f, q in atomic))
    write_if_changed('Writers.lean', body, 'src/**/*.py, plugins/__init__.py, plugins/*/*.py')
