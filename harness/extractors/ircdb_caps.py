"""Tables the capability model (C03, imported by C01/C02/C04) depends on:
  * ircutils._rfc1459trans            -> Gen.rfc1459Table      : List (Char × Char)
  * ircdb.IrcChannel.defaultOff       -> Gen.channelDefaultOff : List Py.Str
  * conf.supybot.capabilities default -> Gen.defaultCapabilities : List Py.Str
  * conf.supybot.capabilities.registeredUsers / .default defaults
  * ircdb.antiOwner = makeAntiCapability('owner')   (shape check only)
  * ircutils.isChannel defaults chantypes / channellen
ast-based; any deviation from the expected syntactic shape is an ExtractionError."""
import ast, string
from vlib.extractlib import (extractor, parse, find_assign, find_func, literal, lchar, lstr, llist,
                             write_if_changed, ExtractionError)


def _strconst(node, what):
    """string expression: a literal, `string.ascii_uppercase|ascii_lowercase`, or a `+` of those"""
    if isinstance(node, ast.Constant) and isinstance(node.value, str):
        return node.value
    if (isinstance(node, ast.Attribute) and isinstance(node.value, ast.Name) and node.value.id == 'string'
            and node.attr in ('ascii_uppercase', 'ascii_lowercase')):
        return getattr(string, node.attr)
    if isinstance(node, ast.BinOp) and isinstance(node.op, ast.Add):
        return _strconst(node.left, what) + _strconst(node.right, what)
    raise ExtractionError('%s: unexpected string expression %s' % (what, ast.dump(node)[:80]))


def _call_named(node, name):
    if not isinstance(node, ast.Call):
        return False
    f = node.func
    return (isinstance(f, ast.Name) and f.id == name) or (isinstance(f, ast.Attribute) and f.attr == name)


def _rfc1459(tree):
    v = find_assign(tree, '_rfc1459trans')
    # utils.str.MultipleReplacer(dict(list(zip(A, B))))
    if not (_call_named(v, 'MultipleReplacer') and len(v.args) == 1 and not v.keywords):
        raise ExtractionError('_rfc1459trans: expected MultipleReplacer(...)')
    d = v.args[0]
    if not (_call_named(d, 'dict') and len(d.args) == 1):
        raise ExtractionError('_rfc1459trans: expected dict(...)')
    z = d.args[0]
    if _call_named(z, 'list') and len(z.args) == 1:
        z = z.args[0]
    if not (_call_named(z, 'zip') and len(z.args) == 2):
        raise ExtractionError('_rfc1459trans: expected zip(a, b)')
    a = _strconst(z.args[0], '_rfc1459trans keys')
    b = _strconst(z.args[1], '_rfc1459trans values')
    if len(a) != len(b) or len(set(a)) != len(a):
        raise ExtractionError('_rfc1459trans: key/value strings of different length or duplicate keys')
    return list(zip(a, b))


def _toLower_shape(tree):
    """toLower(s, casemapping=None) must apply _rfc1459trans for the default casemapping"""
    f = find_func(tree, 'toLower')
    args = [a.arg for a in f.args.args]
    if args != ['s', 'casemapping'] or len(f.args.defaults) != 1 or literal(f.args.defaults[0], 'default') is not None:
        raise ExtractionError('toLower: signature changed')
    src = ast.dump(f)
    if "_rfc1459trans" not in src:
        raise ExtractionError('toLower no longer uses _rfc1459trans')


def _isChannel_defaults(tree):
    f = find_func(tree, 'isChannel')
    args = [a.arg for a in f.args.args]
    if args != ['s', 'chantypes', 'channellen'] or len(f.args.defaults) != 2:
        raise ExtractionError('isChannel: signature changed')
    ct = literal(f.args.defaults[0], 'chantypes'); cl = literal(f.args.defaults[1], 'channellen')
    if not isinstance(ct, str) or not isinstance(cl, int):
        raise ExtractionError('isChannel: defaults are not (str, int)')
    return ct, cl


def _registered_default(tree, path_tail, name, ctor):
    """conf.registerGlobalValue(<group ending in path_tail>, name, ctor(<literal>, doc)) -> literal"""
    for n in tree.body:
        if not (isinstance(n, ast.Expr) and _call_named(n.value, 'registerGlobalValue')):
            continue
        c = n.value
        if len(c.args) < 3:
            continue
        g, nm, val = c.args[0], c.args[1], c.args[2]
        if not (isinstance(nm, ast.Constant) and nm.value == name):
            continue
        if not (isinstance(g, ast.Attribute) and g.attr == path_tail):
            continue
        if not (_call_named(val, ctor) and val.args):
            raise ExtractionError('registry value %s: expected %s(<default>, doc)' % (name, ctor))
        return literal(val.args[0], 'default of ' + name)
    raise ExtractionError('registerGlobalValue(…%s, %r, …) not found' % (path_tail, name))


def _channel_key_shape(dt):
    """every ChannelsDictionary method that takes a channel name keys the table the same way:
    `channel = channel.lower()` first (the table itself is an IrcDict).  getChannel, setChannel and the
    channels.conf reader (which calls setChannel) must agree, or a channel stored under one spelling is
    not found under the same spelling."""
    cls = None
    for n in dt.body:
        if isinstance(n, ast.ClassDef) and n.name == 'ChannelsDictionary':
            cls = n
    if cls is None:
        raise ExtractionError('class ChannelsDictionary not found')
    want = "Assign(targets=[Name(id='channel', ctx=Store())], value=Call(func=Attribute(value=Name(id='channel', ctx=Load()), attr='lower', ctx=Load()), args=[], keywords=[]))"
    seen = []
    for f in cls.body:
        if not isinstance(f, ast.FunctionDef):
            continue
        if 'channel' in [a.arg for a in f.args.args]:
            body = [b for b in f.body if not (isinstance(b, ast.Expr) and isinstance(b.value, ast.Constant) and isinstance(b.value.value, str))]
            first = ast.dump(body[0]) if body else ''
            if first != want:
                raise ExtractionError('ChannelsDictionary.%s: expected to start with `channel = channel.lower()` like every other '
                                      'method keyed by a channel name, found %s' % (f.name, first[:120]))
            seen.append(f.name)
        if f.name == '__init__':
            if "attr='channels'" not in ast.dump(f) or 'IrcDict' not in ast.dump(f):
                raise ExtractionError('ChannelsDictionary.__init__: expected self.channels = ircutils.IrcDict()')
    if sorted(seen) != ['getChannel', 'setChannel']:
        raise ExtractionError('ChannelsDictionary: methods keyed by a channel name are %r, expected getChannel and setChannel' % (seen,))


@extractor('IrcDbCaps')
def gen_ircdb_caps():
    ut = parse('src/ircutils.py')
    table = _rfc1459(ut)
    _toLower_shape(ut)
    chantypes, channellen = _isChannel_defaults(ut)
    dt = parse('src/ircdb.py')
    _channel_key_shape(dt)
    off = literal(find_assign(dt, 'defaultOff', cls='IrcChannel'), 'IrcChannel.defaultOff')
    if not (isinstance(off, tuple) and all(isinstance(x, str) for x in off)):
        raise ExtractionError('IrcChannel.defaultOff: expected a tuple of str')
    anti = find_assign(dt, 'antiOwner')
    if not (_call_named(anti, 'makeAntiCapability') and len(anti.args) == 1 and literal(anti.args[0], 'antiOwner arg') == 'owner'):
        raise ExtractionError("antiOwner: expected makeAntiCapability('owner')")
    defaults = _registered_default(dt, 'supybot', 'capabilities', 'DefaultCapabilities')
    registered = _registered_default(dt, 'capabilities', 'registeredUsers', 'SpaceSeparatedListOfCapabilities')
    flag = _registered_default(dt, 'capabilities', 'default', 'Boolean')
    if not (isinstance(defaults, list) and all(isinstance(x, str) for x in defaults)
            and isinstance(registered, list) and all(isinstance(x, str) for x in registered)
            and isinstance(flag, bool)):
        raise ExtractionError('supybot.capabilities defaults: unexpected literal types')
    body = ('import LimnoriaModel.Py.Basic\nnamespace Gen\n\n'
            '/-- ircutils._rfc1459trans: the (upper, lower) pairs of `toLower` -/\n'
            'def rfc1459Table : List (Char × Char) :=\n  %s\n\n'
            '/-- default `chantypes` of ircutils.isChannel -/\n'
            'def chanTypes : Py.Str := %s\n\n'
            '/-- default `channellen` of ircutils.isChannel -/\n'
            'def channelLen : Nat := %d\n\n'
            '/-- ircdb.IrcChannel.defaultOff -/\n'
            'def channelDefaultOff : List Py.Str :=\n  %s\n\n'
            '/-- default value of conf.supybot.capabilities (ircdb.py, DefaultCapabilities([...])) -/\n'
            'def defaultCapabilities : List Py.Str :=\n  %s\n\n'
            '/-- default value of conf.supybot.capabilities.registeredUsers -/\n'
            'def defaultCapabilitiesRegistered : List Py.Str :=\n  %s\n\n'
            '/-- default value of conf.supybot.capabilities.default -/\n'
            'def defaultCapabilityFlag : Bool := %s\n\nend Gen\n'
            % (llist('(%s, %s)' % (lchar(k), lchar(v)) for k, v in table),
               lstr(chantypes), channellen,
               llist(lstr(x) for x in off),
               llist(lstr(x) for x in defaults),
               llist(lstr(x) for x in registered),
               'true' if flag else 'false'))
    write_if_changed('IrcDbCaps.lean', body, 'src/ircutils.py, src/ircdb.py')
