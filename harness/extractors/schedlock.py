"""C18: where supybot.schedule.Schedule touches its shared state (the heap `self.schedule`, the dict
`self.events`, `self.counter`) and whether that happens inside `with self.lock:` -> Gen/SchedLock.lean."""
import ast
from vlib.extractlib import (extractor, parse, find_func, lstr, llist, write_if_changed, ExtractionError)

METHODS = ['addEvent', 'removeEvent', 'rescheduleEvent', 'reset', 'run']

def _is_self_attr(n, attr):
    return isinstance(n, ast.Attribute) and n.attr == attr and isinstance(n.value, ast.Name) and n.value.id == 'self'

def _ops(node):
    """shared-state operations directly expressed by this AST node (not descending)"""
    out = []
    if isinstance(node, ast.Call):
        f = node.func
        if isinstance(f, ast.Attribute) and _is_self_attr(f.value, 'events'):
            out.append('events.' + f.attr)
        elif isinstance(f, ast.Attribute) and isinstance(f.value, ast.Name) and f.value.id == 'heapq':
            out.append('heap.' + f.attr)
        elif isinstance(f, ast.Name) and f.id == 'f':
            out.append('call')
    elif isinstance(node, (ast.Assign, ast.AugAssign)):
        targets = node.targets if isinstance(node, ast.Assign) else [node.target]
        for t in targets:
            if isinstance(t, ast.Subscript) and _is_self_attr(t.value, 'events'):
                out.append('events.set')
            elif _is_self_attr(t, 'schedule') or (isinstance(t, ast.Subscript) and _is_self_attr(t.value, 'schedule')):
                out.append('heap.assign')
            elif _is_self_attr(t, 'counter'):
                out.append('counter.set')
    elif isinstance(node, ast.Compare) and isinstance(node.left, ast.Subscript) and \
            isinstance(node.left.value, ast.Subscript) and _is_self_attr(node.left.value.value, 'schedule'):
        out.append('heap.peek')
    elif isinstance(node, ast.Compare):
        if any(isinstance(o, (ast.In, ast.NotIn)) for o in node.ops) and any(_is_self_attr(c, 'events') for c in node.comparators):
            out.append('events.contains')
    elif isinstance(node, ast.For):
        if _is_self_attr(node.iter, 'schedule'):
            out.append('heap.read')
    return out

def _walk(node, locked, acc):
    if isinstance(node, ast.With):
        is_lock = any(_is_self_attr(i.context_expr, 'lock') for i in node.items)
        for b in node.body:
            _walk(b, locked or is_lock, acc)
        return
    if isinstance(node, (ast.FunctionDef, ast.Lambda)) and acc.get('_depth', 0) > 0:
        return          # nested functions run later, not here
    for op in _ops(node):
        acc['ops'].append((op, locked))
    # a private helper of the class (self._name(...)) runs here, with the lock its caller holds
    if isinstance(node, ast.Call) and isinstance(node.func, ast.Attribute) and node.func.attr.startswith('_') \
            and isinstance(node.func.value, ast.Name) and node.func.value.id == 'self':
        helper = acc.get('methods', {}).get(node.func.attr)
        if helper is not None and node.func.attr not in acc.get('_stack', []):
            acc.setdefault('_stack', []).append(node.func.attr)
            depth = acc.get('_depth', 0)
            for st in helper.body:
                acc['_depth'] = 1
                _walk(st, locked, acc)
            acc['_depth'] = depth
            acc['_stack'].pop()
    acc['_depth'] = acc.get('_depth', 0) + 1
    for ch in ast.iter_child_nodes(node):
        _walk(ch, locked, acc)
    acc['_depth'] -= 1

@extractor('SchedLock')
def gen_schedlock():
    tree = parse('src/schedule.py')
    rows = []
    cls = [n for n in tree.body if isinstance(n, ast.ClassDef) and n.name == 'Schedule'][0]
    methods = dict((n.name, n) for n in cls.body if isinstance(n, ast.FunctionDef))
    for m in METHODS:
        fn = find_func(tree, m, cls='Schedule')
        acc = {'ops': [], 'methods': methods}
        for st in fn.body:
            acc['_depth'] = 1
            _walk(st, False, acc)
        if not acc['ops'] and m != 'rescheduleEvent':
            raise ExtractionError('Schedule.%s: no access to the shared state found' % m)
        for op, locked in acc['ops']:
            rows.append((m, op, locked))
    body = ('import LimnoriaModel.Py.Basic\nnamespace Gen\n\n'
            '/-- (method of schedule.Schedule, operation on the shared state, inside `with self.lock`?) in source order -/\n'
            'def schedLock : List (Py.Str × Py.Str × Bool) :=\n  %s\n\nend Gen\n'
            % llist('(%s, %s, %s)' % (lstr(m), lstr(op), 'true' if l else 'false') for m, op, l in rows))
    write_if_changed('SchedLock.lean', body, 'src/schedule.py')
