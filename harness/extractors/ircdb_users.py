"""Constants the user-lookup model (C04) depends on:
  * UsersDictionary.__init__: CacheDict(<max>) for _nameCache and _hostmaskCache -> Gen.usersCacheMax
  * utils.structures.CacheDict.__setitem__: `if len(self.d) >= self.max: self.d.clear()` (shape check)
  * ircdb._unwildcard_remover = MultipleRemover('<chars>')                           -> Gen.unWildcardChars
  * IrcUser.addHostmask: `if len(unWildcardHostmask(hostmask)) < <n>`                -> Gen.minNonWildcard
  * ircutils.userHostmaskRe pattern (shape check: r'^\\S+!\\S+@\\S+$')
ast-based, fails closed."""
import ast
from vlib.extractlib import (extractor, parse, find_assign, find_func, literal, lstr,
                             write_if_changed, ExtractionError)


def _call_named(node, name):
    if not isinstance(node, ast.Call):
        return False
    f = node.func
    return (isinstance(f, ast.Name) and f.id == name) or (isinstance(f, ast.Attribute) and f.attr == name)


@extractor('IrcDbUsers')
def gen_ircdb_users():
    dt = parse('src/ircdb.py')
    init = find_func(dt, '__init__', cls='UsersDictionary')
    sizes = {}
    for n in ast.walk(init):
        if isinstance(n, ast.Assign) and len(n.targets) == 1 and isinstance(n.targets[0], ast.Attribute) \
                and n.targets[0].attr in ('_nameCache', '_hostmaskCache'):
            if not (_call_named(n.value, 'CacheDict') and len(n.value.args) == 1):
                raise ExtractionError('UsersDictionary.%s is not CacheDict(<n>)' % n.targets[0].attr)
            sizes[n.targets[0].attr] = literal(n.value.args[0], 'CacheDict size')
    if set(sizes) != {'_nameCache', '_hostmaskCache'} or len(set(sizes.values())) != 1 \
            or not isinstance(list(sizes.values())[0], int):
        raise ExtractionError('UsersDictionary caches: expected two CacheDict(n) with the same n, got %r' % (sizes,))
    cmax = list(sizes.values())[0]
    # CacheDict.__setitem__ shape
    st = parse('src/utils/structures.py')
    si = find_func(st, '__setitem__', cls='CacheDict')
    src = ast.dump(si)
    want = ast.dump(ast.parse(
        "def __setitem__(self, key, value):\n    if len(self.d) >= self.max:\n        self.d.clear()\n    self.d[key] = value\n").body[0])
    if src != want:
        raise ExtractionError('CacheDict.__setitem__ changed shape (expected: clear when len >= max, then store)')
    rem = find_assign(dt, '_unwildcard_remover')
    if not (_call_named(rem, 'MultipleRemover') and len(rem.args) == 1):
        raise ExtractionError('_unwildcard_remover: expected MultipleRemover(<str>)')
    chars = literal(rem.args[0], '_unwildcard_remover chars')
    if not isinstance(chars, str):
        raise ExtractionError('_unwildcard_remover chars not a str')
    ah = find_func(dt, 'addHostmask', cls='IrcUser')
    minlen = None
    for n in ast.walk(ah):
        if isinstance(n, ast.Compare) and len(n.ops) == 1 and isinstance(n.ops[0], ast.Lt) \
                and _call_named(n.left, 'len') and _call_named(n.left.args[0], 'unWildcardHostmask'):
            minlen = literal(n.comparators[0], 'addHostmask minimum')
    if not isinstance(minlen, int):
        raise ExtractionError('IrcUser.addHostmask: `len(unWildcardHostmask(hostmask)) < n` not found')
    ut = parse('src/ircutils.py')
    rx = find_assign(ut, 'userHostmaskRe')
    if not (_call_named(rx, 'compile') and len(rx.args) == 1 and literal(rx.args[0], 'userHostmaskRe') == r'^\S+!\S+@\S+$'):
        raise ExtractionError("ircutils.userHostmaskRe is no longer re.compile(r'^\\S+!\\S+@\\S+$')")
    body = ('import LimnoriaModel.Py.Basic\nnamespace Gen\n\n'
            '/-- size of UsersDictionary._nameCache / _hostmaskCache (a CacheDict empties itself when it\n'
            'holds this many entries and another one is stored) -/\n'
            'def usersCacheMax : Nat := %d\n\n'
            '/-- characters removed by ircdb.unWildcardHostmask -/\n'
            'def unWildcardChars : Py.Str := %s\n\n'
            '/-- IrcUser.addHostmask refuses masks with fewer non-wildcard characters -/\n'
            'def minNonWildcard : Nat := %d\n\nend Gen\n' % (cmax, lstr(chars), minlen))
    write_if_changed('IrcDbUsers.lean', body, 'src/ircdb.py, src/utils/structures.py, src/ircutils.py')
