"""C17: what the AtomicFile model depends on, regenerated from src/utils/file.py and the callers
(src/ircdb.py, src/registry.py, src/dbi.py) -> Gen/AtomicFile.lean.

 * the ordered calls (dotted name, argument text) of AtomicFile.__init__/close/rollback,
 * the `if` tests of close() in source order,
 * the class-level defaults, the name format strings,
 * every AtomicFile(...) call site of the anchored callers with its arguments and the methods the
   enclosing function invokes on the returned object.
Fails closed when the class / methods are not found in the expected shape."""
import ast
from vlib.extractlib import (extractor, parse, find_func, find_assign, literal, lstring, llist,
                             write_if_changed, ExtractionError)

CALLER_FILES = ['src/ircdb.py', 'src/registry.py', 'src/dbi.py']

def _calls(fn):
    cs = [c for c in ast.walk(fn) if isinstance(c, ast.Call)]
    cs.sort(key=lambda c: (c.lineno, c.col_offset))
    out = []
    for c in cs:
        args = [ast.unparse(a) for a in c.args] + ['%s=%s' % (k.arg, ast.unparse(k.value)) for k in c.keywords]
        out.append((ast.unparse(c.func), ', '.join(args)))
    return out

def _tests(fn):
    ts = [n for n in ast.walk(fn) if isinstance(n, ast.If)]
    ts.sort(key=lambda n: (n.lineno, n.col_offset))
    return [ast.unparse(n.test) for n in ts]

def _handlers(fn):
    """(exception type, callee, arguments) for every call inside an except handler, source order"""
    out = []
    hs = [h for n in ast.walk(fn) if isinstance(n, ast.Try) for h in n.handlers]
    hs.sort(key=lambda h: (h.lineno, h.col_offset))
    for h in hs:
        typ = ast.unparse(h.type) if h.type is not None else ''
        for name, args in _calls(ast.Module(body=h.body, type_ignores=[])):
            out.append((typ, name + '(' + args + ')'))
    return out

def _pairs(ps):
    return llist('(%s, %s)' % (lstring(a), lstring(b)) for a, b in ps)

def _class(tree, name):
    for n in tree.body:
        if isinstance(n, ast.ClassDef) and n.name == name:
            return n
    raise ExtractionError('class %s not found' % name)

def _enclosing_functions(tree):
    """yield (qualified name, FunctionDef) for every function, innermost last"""
    def rec(body, prefix):
        for n in body:
            if isinstance(n, ast.ClassDef):
                for x in rec(n.body, prefix + n.name + '.'):
                    yield x
            elif isinstance(n, (ast.FunctionDef, ast.AsyncFunctionDef)):
                yield prefix + n.name, n
                for x in rec(n.body, prefix + n.name + '.'):
                    yield x
    return rec(tree.body, '')

def _callers():
    rows = []
    for rel in CALLER_FILES:
        tree = parse(rel)
        seen = set()
        for qn, fn in _enclosing_functions(tree):
            for node in ast.walk(fn):
                if not (isinstance(node, ast.Assign) and isinstance(node.value, ast.Call)
                        and ast.unparse(node.value.func).endswith('AtomicFile')):
                    continue
                key = (node.lineno, node.col_offset)
                if key in seen:
                    continue
                seen.add(key)
                if len(node.targets) != 1 or not isinstance(node.targets[0], ast.Name):
                    raise ExtractionError('%s:%d: AtomicFile(...) not bound to a plain name' % (rel, node.lineno))
                var = node.targets[0].id
                c = node.value
                pos = [ast.unparse(a) for a in c.args]
                kws = ['%s=%s' % (k.arg, ast.unparse(k.value)) for k in c.keywords]
                meths = []
                other_uses = 0
                for m in ast.walk(fn):
                    if isinstance(m, ast.Attribute) and isinstance(m.value, ast.Name) and m.value.id == var:
                        if m.attr not in meths:
                            meths.append(m.attr)
                    elif isinstance(m, ast.Name) and m.id == var and isinstance(m.ctx, ast.Load):
                        other_uses += 1
                # every Load of the variable is the `.value` of an Attribute counted above, or the
                # object is handed to somebody else (preserve(fd, ...)): count those
                attr_uses = sum(1 for m in ast.walk(fn) if isinstance(m, ast.Attribute)
                                and isinstance(m.value, ast.Name) and m.value.id == var)
                passed = other_uses - attr_uses
                rows.append((rel, qn, ', '.join(pos), ', '.join(kws), sorted(meths), passed))
        # an AtomicFile(...) call that is not a plain assignment is outside the expected shape
        for node in ast.walk(tree):
            if isinstance(node, ast.Call) and ast.unparse(node.func).endswith('AtomicFile'):
                if (node.lineno, node.col_offset) not in {(n.value.lineno, n.value.col_offset) for n in ast.walk(tree)
                                                           if isinstance(n, ast.Assign) and n.value is node}:
                    raise ExtractionError('%s:%d: AtomicFile(...) used outside `name = AtomicFile(...)`' % (rel, node.lineno))
    if not rows:
        raise ExtractionError('no AtomicFile call site found in %s' % CALLER_FILES)
    return rows

@extractor('AtomicFile')
def gen_atomicfile():
    tree = parse('src/utils/file.py')
    cls = _class(tree, 'AtomicFile')
    wrap = ast.Module(body=[cls], type_ignores=[])
    fns = {}
    for name in ('__init__', 'close', 'rollback', 'write', 'writelines', '__del__', '__exit__'):
        fns[name] = find_func(wrap, name, cls='AtomicFile')
    dflt = None
    for n in cls.body:
        if isinstance(n, ast.ClassDef) and n.name == 'default':
            dflt = {}
            for a in n.body:
                if isinstance(a, ast.Assign) and len(a.targets) == 1 and isinstance(a.targets[0], ast.Name):
                    dflt[a.targets[0].id] = literal(a.value, 'AtomicFile.default.' + a.targets[0].id)
    need = ('tmpDir', 'backupDir', 'makeBackupIfSmaller', 'allowEmptyOverwrite')
    if dflt is None or any(k not in dflt for k in need):
        raise ExtractionError('AtomicFile.default holder: expected %s' % (need,))
    for k in ('tmpDir', 'backupDir'):
        if dflt[k] is not None and not isinstance(dflt[k], str):
            raise ExtractionError('AtomicFile.default.%s: expected None or a string' % k)
    for k in ('makeBackupIfSmaller', 'allowEmptyOverwrite'):
        if not isinstance(dflt[k], bool):
            raise ExtractionError('AtomicFile.default.%s: expected a bool' % k)
    strs = lambda fn: [c.value for c in ast.walk(fn) if isinstance(c, ast.Constant) and isinstance(c.value, str)
                       and ('%s' in c.value or c.value.startswith('/'))]
    lopt = lambda v: 'none' if v is None else '(some %s)' % lstring(v)
    lbool = lambda b: 'true' if b else 'false'
    callers = _callers()
    body = 'namespace Gen.AtomicFile\n\n'
    body += '/-- calls of `AtomicFile.__init__` in source order: (callee, arguments) -/\ndef initCalls : List (String × String) :=\n  %s\n\n' % _pairs(_calls(fns['__init__']))
    body += '/-- calls of `AtomicFile.close` in source order -/\ndef closeCalls : List (String × String) :=\n  %s\n\n' % _pairs(_calls(fns['close']))
    body += '/-- `if` tests of `AtomicFile.close` in source order -/\ndef closeTests : List String :=\n  %s\n\n' % llist(lstring(t) for t in _tests(fns['close']))
    body += '/-- calls of `AtomicFile.close` that sit inside an `except` handler: (exception type, call) -/\ndef closeExcept : List (String × String) :=\n  %s\n\n' % _pairs(_handlers(fns['close']))
    body += '/-- calls of `AtomicFile.rollback` in source order -/\ndef rollbackCalls : List (String × String) :=\n  %s\n\n' % _pairs(_calls(fns['rollback']))
    body += 'def rollbackTests : List String :=\n  %s\n\n' % llist(lstring(t) for t in _tests(fns['rollback']))
    body += 'def writeCalls : List (String × String) :=\n  %s\n\n' % _pairs(_calls(fns['write']) + _calls(fns['writelines']))
    body += 'def delCalls : List (String × String) :=\n  %s\n\n' % _pairs(_calls(fns['__del__']))
    body += 'def exitCalls : List (String × String) :=\n  %s\n\n' % _pairs(_calls(fns['__exit__']))
    body += '/-- string constants that are name formats / special paths, `__init__` then `close` -/\ndef nameFormats : List String :=\n  %s\n\n' % llist(lstring(s) for s in strs(fns['__init__']) + strs(fns['close']))
    body += 'def defaultTmpDir : Option String := %s\ndef defaultBackupDir : Option String := %s\n' % (lopt(dflt['tmpDir']), lopt(dflt['backupDir']))
    body += 'def defaultMakeBackupIfSmaller : Bool := %s\ndef defaultAllowEmptyOverwrite : Bool := %s\n\n' % (lbool(dflt['makeBackupIfSmaller']), lbool(dflt['allowEmptyOverwrite']))
    body += ('/-- AtomicFile call sites of the anchored callers:\n    (file, function, positional args, keyword args, methods used on the object, times the object is passed on) -/\n'
             'def callers : List (String × String × String × String × List String × Nat) :=\n  %s\n\nend Gen.AtomicFile\n'
             % llist('(%s, %s, %s, %s, %s, %d)' % (lstring(f), lstring(q), lstring(p), lstring(k), llist(lstring(m) for m in ms), n)
                     for f, q, p, k, ms, n in callers))
    write_if_changed('AtomicFile.lean', body, 'src/utils/file.py, ' + ', '.join(CALLER_FILES))
