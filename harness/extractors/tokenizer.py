"""C13: constants of the command tokenizer -> Gen/Tokenizer.lean
  shlex.shlex.__init__      self.whitespace = ' \\t\\r\\n'
  callbacks.Tokenizer       separators = '\\x00\\r\\n \\t'   (class attribute)
  callbacks.Tokenizer.tokenize   lexer.commenters = ''     (must be the empty string: the model has no comment branch)
  conf.ValidBrackets        validStrings = ('', '[]', '<>', '{}', '()')
  conf.ValidQuotes.setValue `c not in '"`\\''`
Fails closed when one of these is not found in exactly that syntactic shape."""
import ast
from vlib.extractlib import (extractor, parse, find_assign, find_func, literal, lstr, llist,
                             write_if_changed, ExtractionError)


def _self_assign(fn, attr, what, owner='self'):
    """value of the unique statement `<owner>.<attr> = <literal>` directly inside function node `fn`"""
    found = []
    for n in ast.walk(fn):
        if isinstance(n, ast.Assign) and len(n.targets) == 1:
            t = n.targets[0]
            if (isinstance(t, ast.Attribute) and t.attr == attr and isinstance(t.value, ast.Name)
                    and t.value.id == owner):
                found.append(n.value)
    if len(found) != 1:
        raise ExtractionError('%s: expected exactly one assignment %s.%s = ..., found %d' % (what, owner, attr, len(found)))
    v = literal(found[0], what)
    if not isinstance(v, str):
        raise ExtractionError('%s: not a string literal' % what)
    return v


@extractor('Tokenizer')
def gen_tokenizer():
    sh = parse('src/shlex.py')
    init = find_func(sh, '__init__', cls='shlex')
    whitespace = _self_assign(init, 'whitespace', 'shlex.whitespace')
    cb = parse('src/callbacks.py')
    seps = literal(find_assign(cb, 'separators', cls='Tokenizer'), 'Tokenizer.separators')
    if not isinstance(seps, str):
        raise ExtractionError('Tokenizer.separators: not a string literal')
    tk = find_func(cb, 'tokenize', cls='Tokenizer')
    commenters = _self_assign(tk, 'commenters', 'Tokenizer.tokenize lexer.commenters', owner='lexer')
    if commenters != '':
        raise ExtractionError('Tokenizer.tokenize sets lexer.commenters = %r; the model has no comment branch' % commenters)
    # the lexer must be configured from the Tokenizer's own quotes / separators and nothing else
    for attr, src in (('quotes', 'quotes'), ('separators', 'separators')):
        ok = False
        for n in ast.walk(tk):
            if (isinstance(n, ast.Assign) and len(n.targets) == 1 and isinstance(n.targets[0], ast.Attribute)
                    and n.targets[0].attr == attr and isinstance(n.targets[0].value, ast.Name)
                    and n.targets[0].value.id == 'lexer' and isinstance(n.value, ast.Attribute)
                    and n.value.attr == src and isinstance(n.value.value, ast.Name) and n.value.value.id == 'self'):
                ok = True
        if not ok:
            raise ExtractionError('Tokenizer.tokenize: lexer.%s = self.%s not found' % (attr, src))
    lexer_attrs = set()
    for n in ast.walk(tk):
        if isinstance(n, ast.Assign):
            for t in n.targets:
                if isinstance(t, ast.Attribute) and isinstance(t.value, ast.Name) and t.value.id == 'lexer':
                    lexer_attrs.add(t.attr)
    if lexer_attrs != {'commenters', 'quotes', 'separators'}:
        raise ExtractionError('Tokenizer.tokenize configures lexer attributes %s (expected commenters, quotes, separators)' % sorted(lexer_attrs))
    cf = parse('src/conf.py')
    brackets = literal(find_assign(cf, 'validStrings', cls='ValidBrackets'), 'ValidBrackets.validStrings')
    if not (isinstance(brackets, tuple) and all(isinstance(b, str) for b in brackets)):
        raise ExtractionError('ValidBrackets.validStrings: expected a tuple of strings')
    sv = find_func(cf, 'setValue', cls='ValidQuotes')
    allowed = []
    for n in ast.walk(sv):
        if (isinstance(n, ast.Compare) and len(n.ops) == 1 and isinstance(n.ops[0], ast.NotIn)
                and isinstance(n.comparators[0], ast.Constant) and isinstance(n.comparators[0].value, str)):
            allowed.append(n.comparators[0].value)
    if len(allowed) != 1:
        raise ExtractionError('ValidQuotes.setValue: expected exactly one `c not in "<chars>"` test, found %d' % len(allowed))
    body = ('import LimnoriaModel.Py.Basic\nnamespace Gen\n\n'
            '/-- shlex.shlex().whitespace -/\ndef shlexWhitespace : Py.Str := %s\n\n'
            '/-- callbacks.Tokenizer.separators (class attribute, before brackets / pipe / quotes are added) -/\n'
            'def tokenizerSeparators : Py.Str := %s\n\n'
            '/-- conf.ValidBrackets.validStrings -/\ndef validBrackets : List Py.Str := %s\n\n'
            '/-- the characters conf.ValidQuotes accepts -/\ndef validQuoteChars : Py.Str := %s\n\nend Gen\n'
            % (lstr(whitespace), lstr(seps), llist(lstr(b) for b in brackets), lstr(allowed[0])))
    write_if_changed('Tokenizer.lean', body, 'src/{shlex,callbacks,conf}.py')
