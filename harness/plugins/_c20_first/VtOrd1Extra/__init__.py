"""Synthetic plugin for the C20 check: its directory name (VtOrd1Extra) extends the name of another plugin directory (VtOrd1)
and lives in a plugin directory that is listed first; class VtOrd8; behaviour dictated by the harness (module vt_c20)."""
import sys
_c = sys.modules.get('vt_c20')
if _c is not None and 'VtOrd8' in getattr(_c, 'import_fails', ()):
    raise ImportError('vt_c20: import of VtOrd8 made to fail')
if _c is not None and 'VtOrd8' in getattr(_c, 'import_other', ()):
    raise RuntimeError('vt_c20: module of VtOrd8 made to raise while importing')
# a module that says `deprecated = True` needs `load --deprecated`
deprecated = bool(_c is not None and 'VtOrd8' in getattr(_c, 'deprecated', ()))
from . import plugin
from importlib import reload
reload(plugin)
Class = plugin.Class
def configure(advanced):
    pass
