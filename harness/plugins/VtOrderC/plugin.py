"""VtOrderC (C14): see __init__.py.  Behaviour letters (first letter of the command name):
 r b v l h  irc.reply(name + '(' + ', '.join(args) + ')')
 n        irc.noReply()
 d        irc.reply(text); irc.reply(text + '!')     (two replies)
 m        irc.replies(['m1', 'm2'], oneToOne=False)   c  irc.replies(['c1', 'c2'])
 p        reply then irc.error    k  reply then noReply    f  irc.error then reply
 u        irc.replySuccess()      g  irc.queueMsg(...) then reply    t  reply then raise ValueError
 o        irc.reply('')            (the empty string is a reply like any other)
 w        irc.reply('  ')          (blanks only)
 e        irc.error('E:' + name)
 s        nothing at all
 i        msg.tag('ignored'); irc.noReply()        (what Utilities.ignore does)
 j        msg.tag('ignored'); irc.reply(...)
 x        raise ValueError('boom ' + name)
 y        raise callbacks.Error('Y:' + name)
 z        raise callbacks.ArgumentError
 q        raise callbacks.SilentError"""
import supybot.world as world
import supybot.callbacks as callbacks

def _log(owner, name, args):
    if not hasattr(world, 'vt_c14_log'):
        world.vt_c14_log = []
    world.vt_c14_log.append((owner, name, list(args)))

def _make(name):
    def command(self, irc, msg, args):
        _log(self.name(), name, args)
        _act(name[0], name, irc, msg, args)
    command.__name__ = name
    command.__doc__ = "<anything>\n\nSynthetic C14 command %s." % name
    return command

def _act(k, name, irc, msg, args):
    if True:
        text = name + '(' + ', '.join(args) + ')'
        if k in 'rbvlh':
            irc.reply(text)
        elif k == 'n':
            irc.noReply()
        elif k == 'd':
            irc.reply(text)
            irc.reply(text + '!')
        elif k == 'm':
            irc.replies(['m1', 'm2'], oneToOne=False)
        elif k == 'c':
            irc.replies(['c1', 'c2'])
        elif k == 'p':
            irc.reply(text)
            irc.error('P:' + name)
        elif k == 'k':
            irc.reply(text)
            irc.noReply()
        elif k == 'u':
            irc.replySuccess()
        elif k == 'g':
            import supybot.ircmsgs as ircmsgs
            irc.queueMsg(ircmsgs.privmsg('#vt', 'G:' + name))
            irc.reply(text)
        elif k == 'f':
            irc.error('F:' + name)
            irc.reply(text)
        elif k == 't':
            irc.reply(text)
            raise ValueError('boom ' + name)
        elif k == 'o':
            irc.reply('')
        elif k == 'w':
            irc.reply('  ')
        elif k == 'e':
            irc.error('E:' + name)
        elif k == 's':
            pass
        elif k == 'i':
            msg.tag('ignored')
            irc.noReply()
        elif k == 'j':
            msg.tag('ignored')
            irc.reply(text)
        elif k == 'x':
            raise ValueError('boom ' + name)
        elif k == 'y':
            raise callbacks.Error('Y:' + name)
        elif k == 'z':
            raise callbacks.ArgumentError
        elif k == 'q':
            raise callbacks.SilentError

def _fill(cls, names):
    for n in names:
        setattr(cls, n, _make(n))

class VtOrderC(callbacks.Plugin):
    """Synthetic C14 plugin C (threaded; a command group named like plugin A)."""
    threaded = True
    class vtordera(callbacks.Commands):
        """command group named like another plugin"""
    class grp(callbacks.Commands):
        """command group with the same name as A's"""
_fill(VtOrderC.vtordera, ['rone', 'rsee'])
_fill(VtOrderC.grp, ['rgc', 'both'])
_fill(VtOrderC, ['rone', 'rcee', 'nrep', 'sile', 'both', 'xval', 'jtag'])

Class = VtOrderC
