"""Synthetic plugin for the C20 check whose directory (VtGreeter) and class (VtOrd7) names are unrelated;
die() raises, and whether its module imports at all are dictated by the harness (module vt_c20)."""
import sys
_c = sys.modules.get('vt_c20')
if _c is not None and 'VtOrd7' in getattr(_c, 'import_fails', ()):
    raise ImportError('vt_c20: import of VtOrd7 made to fail')
if _c is not None and 'VtOrd7' in getattr(_c, 'import_other', ()):
    raise RuntimeError('vt_c20: module of VtOrd7 made to raise while importing')
# a module that says `deprecated = True` needs `load --deprecated`
deprecated = bool(_c is not None and 'VtOrd7' in getattr(_c, 'deprecated', ()))
from . import plugin
from importlib import reload
reload(plugin)
Class = plugin.Class
def configure(advanced):
    pass
