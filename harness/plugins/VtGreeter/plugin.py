import sys
from supybot import callbacks
from supybot.commands import wrap

def _cfg():
    return sys.modules.get('vt_c20')

# the "version on disk" of this plugin: the harness changes it between a load and a reload, as if the
# module file had been rewritten (this file is re-executed by every load / reload): odd versions have
# one more command (alt7), and every instance answers with its own serial number
_VERSION = getattr(_cfg(), 'version', {}).get('VtOrd7', 0) if _cfg() is not None else 0

class VtOrd7(callbacks.Plugin):
    """C20 ordering probe VtOrd7."""
    vt_version = _VERSION

    def __init__(self, irc):
        c = _cfg()
        self.vt_serial = 0
        if c is not None:
            c.log.append(('init', 'VtOrd7'))
            if 'VtOrd7' in c.init_raises:
                raise RuntimeError('vt_c20: constructor of VtOrd7 made to raise')
            c.serial += 1
            self.vt_serial = c.serial
        super().__init__(irc)

    # plain class attributes, as real plugins have them (fixed when the module is executed, i.e. at every
    # load / reload; the harness keeps the sets constant during a trial)
    callBefore = tuple(getattr(_cfg(), 'before', {}).get('VtOrd7', ())) if _cfg() is not None else ()
    callAfter = list(getattr(_cfg(), 'after', {}).get('VtOrd7', ())) if _cfg() is not None else []

    def callPrecedence(self, irc):
        c = _cfg()
        if c is not None and 'VtOrd7' in getattr(c, 'prec_raises', ()):
            # (firewalled: the dispatcher then treats this plugin as one without constraints)
            raise RuntimeError('vt_c20: callPrecedence of VtOrd7 raises, see http://example.org/caf%c3%a9%20%bar?x=%s')
        return super().callPrecedence(irc)

    def die(self):
        c = _cfg()
        if c is not None:
            c.log.append(('die', 'VtOrd7'))
            if 'VtOrd7' in c.die_raises:
                raise RuntimeError('vt_c20: die of VtOrd7 made to raise, see http://example.org/caf%c3%a9%20%bar?x=%s')
        super().die()

    def __call__(self, irc, msg):
        c = _cfg()
        if c is not None and msg.command == 'PRIVMSG' and msg.args[1].startswith('vtorder'):
            c.seen.append('VtOrd7')
        return super().__call__(irc, msg)

    def vtsh3(self, x, y=None):
        # a helper, NOT a command (wrong signature); the plugin VtOrd6 has a command of the same name
        return x

    def ord7(self, irc, msg, args):
        """takes no arguments

        Answers with the name of this plugin and the serial number of this instance."""
        irc.reply('VtOrd7 here g%d' % self.vt_serial)
    ord7 = wrap(ord7)

    if _VERSION % 2 == 1:
        def alt7(self, irc, msg, args):
            """takes no arguments

            Exists only in odd versions of this plugin."""
            irc.reply('VtOrd7 alt g%d' % self.vt_serial)
        alt7 = wrap(alt7)

Class = VtOrd7
