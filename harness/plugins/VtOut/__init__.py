"""Synthetic plugin for check C06: commands that push caller-supplied text through every reply funnel."""
from . import plugin
from .plugin import Class
def configure(advanced):
    pass
