from supybot import callbacks, ircmsgs
from supybot.commands import wrap

def _flags(f):
    kw = {}
    if 'n' in f: kw['notice'] = True
    if 'N' in f: kw['notice'] = False
    if 'p' in f: kw['private'] = True
    if 'P' in f: kw['private'] = False
    if 'a' in f: kw['action'] = True
    if 'x' in f: kw['prefixNick'] = True
    if 'X' in f: kw['prefixNick'] = False
    return kw

class VtOut(callbacks.Plugin):
    """Output funnels (harness only)."""
    def vtreply(self, irc, msg, args, flags, text):
        """<flags> <text>

        irc.reply(text, **flags)."""
        irc.reply(text, **_flags(flags))
    vtreply = wrap(vtreply, ['something', 'text'])

    def vtreplyto(self, irc, msg, args, flags, to, text):
        """<flags> <to> <text>

        irc.reply(text, to=to, **flags)."""
        irc.reply(text, to=to, **_flags(flags))
    vtreplyto = wrap(vtreplyto, ['something', 'something', 'text'])

    def vterror(self, irc, msg, args, text):
        """<text>

        irc.error(text)."""
        irc.error(text)
    vterror = wrap(vterror, ['text'])

    def vtqueue(self, irc, msg, args, target, text):
        """<target> <text>

        irc.queueMsg(ircmsgs.privmsg(target, text))."""
        irc.queueMsg(ircmsgs.privmsg(target, text))
    vtqueue = wrap(vtqueue, ['something', 'text'])

    def vtnolimit(self, irc, msg, args, text):
        """<text>

        irc.reply(text, noLengthCheck=True)."""
        irc.reply(text, noLengthCheck=True)
    vtnolimit = wrap(vtnolimit, ['text'])

    def vttopic(self, irc, msg, args, channel, text):
        """<channel> <text>

        irc.queueMsg(ircmsgs.topic(channel, text))."""
        irc.queueMsg(ircmsgs.topic(channel, text))
    vttopic = wrap(vttopic, ['something', 'text'])

Class = VtOut
