"""VtOrderA — synthetic plugin of the /verif harness (property C14): instrumented commands with
overlapping names whose behaviour (reply / noReply / error / nothing / raise, optionally after
msg.tag('ignored')) is fixed by the first letter of the command name; every call is appended to
supybot.world.vt_c14_log as (plugin class name, command name, args)."""
import supybot
import supybot.world as world
__version__ = "0"
__author__ = supybot.authors.unknown
__contributors__ = {}
__url__ = ''
from . import plugin
from importlib import reload
reload(plugin)
Class = plugin.Class
def configure(advanced):
    from supybot import conf
    conf.registerPlugin('VtOrderA', True)
