"""VtLong — synthetic plugin of the /verif harness (property C12): a command that replies with
a string stored by the harness, so that reply chunking / Misc.more can be driven with arbitrary text."""
import supybot
import supybot.world as world
__version__ = "0"
__author__ = supybot.authors.unknown
__contributors__ = {}
__url__ = ''
from . import plugin
from importlib import reload
reload(plugin)
Class = plugin.Class
def configure(advanced):
    from supybot import conf
    conf.registerPlugin('VtLong', True)
