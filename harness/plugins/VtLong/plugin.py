from supybot import callbacks
from supybot.commands import wrap

class VtLong(callbacks.Plugin):
    """Replies with the text the harness stored in VtLong.TEXT."""
    TEXT = ''
    KW = {}      # keywords of vtlong's reply
    KW2 = {}     # keywords of vtarg's reply (the outer command of `vtarg [vtlong]`)
    TEXT0 = ''   # vttwo: text and keywords of the reply made BEFORE the stored one, in the same invocation
    KW0 = {}
    def vtlong(self, irc, msg, args):
        """takes no arguments

        Replies with the stored text."""
        irc.reply(VtLong.TEXT, **VtLong.KW)
    vtlong = wrap(vtlong)

    def vttwo(self, irc, msg, args):
        """takes no arguments

        Replies twice in one invocation: first TEXT0 (KW0), then the stored text."""
        irc.reply(VtLong.TEXT0, **VtLong.KW0)
        irc.reply(VtLong.TEXT, **VtLong.KW)
    vttwo = wrap(vttwo)

    def vterr(self, irc, msg, args):
        """takes no arguments

        Answers the stored text as an error."""
        irc.error(VtLong.TEXT)
    vterr = wrap(vterr)

    def vtarg(self, irc, msg, args, text):
        """<text>

        Replies with its argument (used with a nested command: vtarg [vtlong])."""
        irc.reply(text, **VtLong.KW2)
    vtarg = wrap(vtarg, ['text'])

Class = VtLong
