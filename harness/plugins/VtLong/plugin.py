from supybot import callbacks
from supybot.commands import wrap

class VtLong(callbacks.Plugin):
    """Replies with the text the harness stored in VtLong.TEXT."""
    TEXT = ''
    KW = {}
    def vtlong(self, irc, msg, args):
        """takes no arguments

        Replies with the stored text."""
        irc.reply(VtLong.TEXT, **VtLong.KW)
    vtlong = wrap(vtlong)

Class = VtLong
