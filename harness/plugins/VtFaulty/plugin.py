"""A real plugin class (callbacks.Plugin subclass, so it goes through the same metaclass as every
plugin) whose message hooks misbehave as scripted by the harness through `ctl`."""
from supybot import callbacks

class Ctl(object):
    def __init__(self):
        self.reset()
    def reset(self):
        self.inFilter = None      # None = behave; 'drop' = return None; an exception class = raise it
        self.outFilter = None
        self.call = None
        self.only_command = None  # restrict misbehaviour to messages with this command (None = all)
        self.log = []
ctl = Ctl()

def _act(what, msg, passthrough):
    mode = getattr(ctl, what)
    if mode is None or (ctl.only_command is not None and msg.command != ctl.only_command):
        return passthrough
    ctl.log.append((what, msg.command))
    if mode == 'drop':
        return None
    raise mode('VtFaulty.%s misbehaves' % what)

class VtFaulty(callbacks.Plugin):
    """Misbehaving plugin (harness only)."""
    def inFilter(self, irc, msg):
        return _act('inFilter', msg, msg)
    def outFilter(self, irc, msg):
        return _act('outFilter', msg, msg)
    def __call__(self, irc, msg):
        _act('call', msg, None)
        return self.__parent.__call__(irc, msg)
    def __init__(self, irc):
        self.__parent = super(VtFaulty, self)
        self.__parent.__init__(irc)

Class = VtFaulty
