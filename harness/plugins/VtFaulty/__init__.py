"""Synthetic plugin for check C07: its inFilter / outFilter / __call__ raise on demand."""
from . import plugin
from .plugin import Class, ctl
def configure(advanced):
    pass
