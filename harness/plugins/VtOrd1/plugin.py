import sys
from supybot import callbacks
from supybot.commands import wrap

def _cfg():
    return sys.modules.get('vt_c20')

class VtOrd1(callbacks.Plugin):
    """C20 ordering probe VtOrd1."""
    def __init__(self, irc):
        c = _cfg()
        if c is not None:
            c.log.append(('init', 'VtOrd1'))
            if 'VtOrd1' in c.init_raises:
                raise RuntimeError('vt_c20: constructor of VtOrd1 made to raise')
        super().__init__(irc)

    @property
    def callBefore(self):
        c = _cfg()
        return tuple(c.before.get('VtOrd1', ())) if c is not None else ()

    @property
    def callAfter(self):
        c = _cfg()
        return tuple(c.after.get('VtOrd1', ())) if c is not None else ()

    def die(self):
        c = _cfg()
        if c is not None:
            c.log.append(('die', 'VtOrd1'))
            if 'VtOrd1' in c.die_raises:
                raise RuntimeError('vt_c20: die of VtOrd1 made to raise')
        super().die()

    def __call__(self, irc, msg):
        c = _cfg()
        if c is not None and msg.command == 'PRIVMSG' and msg.args[1].startswith('vtorder'):
            c.seen.append('VtOrd1')
        return super().__call__(irc, msg)

    def ord1(self, irc, msg, args):
        """takes no arguments

        Answers with the name of this plugin."""
        irc.reply('VtOrd1 here')
    ord1 = wrap(ord1)

Class = VtOrd1
