"""VtGate — synthetic plugin of the /verif harness (property C01): commands whose only job is to
have a visible effect (a log line, a registry write) behind each kind of capability converter and
each command-path shape (plain, nested group, group named like its command), so that the gate and
the converters can be driven with every caller role and the effect observed."""
import supybot
import supybot.world as world
__version__ = "0"
__author__ = supybot.authors.unknown
__contributors__ = {}
__url__ = ''
from . import plugin
from importlib import reload
reload(plugin)
Class = plugin.Class
def configure(advanced):
    from supybot import conf
    conf.registerPlugin('VtGate', True)
