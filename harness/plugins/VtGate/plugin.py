from supybot import callbacks, conf, registry
from supybot.commands import wrap, optional, additional, many

try:
    conf.registerPlugin('VtGate')
    conf.registerGlobalValue(conf.supybot.plugins.VtGate, 'mark',
                             registry.String('', """written by every VtGate command body"""))
    conf.registerChannelValue(conf.supybot.plugins.VtGate, 'open',
                              registry.String('', """a channel value channel ops may set"""))
    conf.registerChannelValue(conf.supybot.plugins.VtGate, 'locked',
                              registry.String('', """a channel value only the owner may set"""), opSettable=False)
except Exception:
    pass

LOG = []

def _effect(self, irc, msg, name, extra):
    LOG.append((name, msg.prefix, tuple(str(x) for x in extra)))
    conf.supybot.plugins.VtGate.mark.setValue('%s by %s' % (name, msg.prefix))
    irc.reply('vtgate %s ran' % name)

class VtGate(callbacks.Plugin):
    """Commands with a visible effect behind every kind of capability converter."""

    def vtfree(self, irc, msg, args):
        """takes no arguments

        No converter at all."""
        _effect(self, irc, msg, 'vtfree', ())
    vtfree = wrap(vtfree)

    def vtraw(self, irc, msg, args):
        """takes anything

        An unwrapped command."""
        _effect(self, irc, msg, 'vtraw', args)

    def vtowner(self, irc, msg, args, text):
        """[<text>]

        Needs owner."""
        _effect(self, irc, msg, 'vtowner', (text,))
    vtowner = wrap(vtowner, ['owner', additional('text')])

    def vtadmin(self, irc, msg, args, text):
        """[<text>]

        Needs admin."""
        _effect(self, irc, msg, 'vtadmin', (text,))
    vtadmin = wrap(vtadmin, ['admin', additional('text')])

    def vtcap(self, irc, msg, args, text):
        """[<text>]

        Needs the vt.special capability."""
        _effect(self, irc, msg, 'vtcap', (text,))
    vtcap = wrap(vtcap, [('checkCapability', 'vt.special'), additional('text')])

    def vtnoowner(self, irc, msg, args, text):
        """[<text>]

        Needs the vt.strict capability, owner or not."""
        _effect(self, irc, msg, 'vtnoowner', (text,))
    vtnoowner = wrap(vtnoowner, [('checkCapabilityButIgnoreOwner', 'vt.strict'), additional('text')])

    def vtop(self, irc, msg, args, channel, text):
        """[<channel>] [<text>]

        Needs #channel,op."""
        _effect(self, irc, msg, 'vtop', (channel, text))
    vtop = wrap(vtop, ['op', additional('text')])

    def vthalfop(self, irc, msg, args, channel, text):
        """[<channel>] [<text>]

        Needs #channel,halfop."""
        _effect(self, irc, msg, 'vthalfop', (channel, text))
    vthalfop = wrap(vthalfop, ['halfop', additional('text')])

    def vtchancap(self, irc, msg, args, channel, text):
        """[<channel>] [<text>]

        Needs #channel,vtcap."""
        _effect(self, irc, msg, 'vtchancap', (channel, text))
    vtchancap = wrap(vtchancap, [('checkChannelCapability', 'VtCap'), additional('text')])

    def vtchanadmin(self, irc, msg, args, channel, text):
        """[<channel>] [<text>]

        'channel' first, then admin."""
        _effect(self, irc, msg, 'vtchanadmin', (channel, text))
    vtchanadmin = wrap(vtchanadmin, ['channel', 'admin', additional('text')])

    def vtchanop(self, irc, msg, args, channel, text):
        """[<channel>] [<text>]

        'channel' first, then op on the channel already chosen."""
        _effect(self, irc, msg, 'vtchanop', (channel, text))
    vtchanop = wrap(vtchanop, ['channel', 'op', additional('text')])

    def vttwo(self, irc, msg, args, channel, text):
        """[<channel>] [<text>]

        Needs admin and #channel,op."""
        _effect(self, irc, msg, 'vttwo', (channel, text))
    vttwo = wrap(vttwo, ['admin', 'op', additional('text')])

    class grp(callbacks.Commands):
        """A nested command group."""
        def sub(self, irc, msg, args, text):
            """[<text>]

            A command in a group, no converter."""
            _effect(self, irc, msg, 'grp sub', (text,))
        sub = wrap(sub, [additional('text')])

        def guarded(self, irc, msg, args, text):
            """[<text>]

            A command in a group behind owner."""
            _effect(self, irc, msg, 'grp guarded', (text,))
        guarded = wrap(guarded, ['owner', additional('text')])

        def grp(self, irc, msg, args, text):
            """[<text>]

            A command named like its group."""
            _effect(self, irc, msg, 'grp grp', (text,))
        grp = wrap(grp, [additional('text')])

Class = VtGate
