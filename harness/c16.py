"""C16 — user / channel / network / ignore databases reload to exactly what was saved.
Correspondence of lean/LimnoriaModel/C16/Model.lean with src/ircdb.py + src/unpreserve.py on
(a) database states built through the real API from clean and hostile field values, flushed by the
real writers and reloaded by the real readers, and (b) the readers alone on generated files;
plus the property statement evaluated on the implementation (structural dump before flush ==
after reload, load did not stop part-way)."""
import json, os, sys, time
from vlib import wire, rng, leanbuild, verdict, bot, CORPUS
from vlib.verdict import Case

PROPERTY = 'C16'
MANIFEST = {
 'level_text': 'Lean 4 theorems, kernel-checked, about a model of the four line-oriented databases (users.conf, channels.conf, networks.conf, ignores.conf): for every database state satisfying an explicit decidable Storable predicate, and every iteration order of the sets involved (users_roundtrip_any_cap_order), reading back what the writers wrote returns exactly that state, without the loader stopping part-way and with the class-level reader state clean; conversely a set holding a capability and its inverse loses one of them in some order (inverse_pair_some_order_loses), so Storable is exact on that point. For every users state whose fields merely contain no line break (names with blanks, TABs, keywords; loads that stop anywhere; a half-built record left by an earlier failed load) a load never gives an account a capability its record did not have, keeps ids distinct, leaves line-safe fields, and a load that stops leaves the reader in a state from which nothing is ever loaded again (load_caps_sub, load_ids, load_safe, load_err_stuck, load_stuck). The generic facts these rest on (text-mode line splitting, expandtabs, split(None,1), the Reader block machine) are proved for all strings. The states outside Storable that the bot can really reach are proved NOT to round-trip on concrete witnesses, replayed on the real code on every run and listed as known findings. The model is tied to /repo by tables regenerated from the source (writer keywords, reader command vocabulary, case table) and by a differential run model-vs-real-code on API-built states, on generated files, on second saves and on saves failing at the k-th write.',
 'level_note': 'Trusted: Lean kernel; axioms propext/Classical.choice/Quot.sound only; harness/extractors/preserve.py; this harness (generators bound what the correspondence sees). Modelled: IrcUser/IrcChannel/IrcNetwork.preserve, the four flush methods, unpreserve.Reader.read, IrcUserCreator/IrcChannelCreator/IrcNetworkCreator with their class-level carry-over, UsersDictionary.setUser/getUserId as used while loading (caches empty), ircutils.hostmaskPatternsIntersect, IgnoresDB.open/flush, int(float()) rounding. Parameters: hostmaskPatternEqual and hostmaskPatternsIntersect (theorems hold for every pair of relations; the driver uses C03.glob and the modelled table algorithm, the latter compared with the source on generated patterns), str.lower (ASCII in the driver), safeEval restricted to True/False/None/integers. Not modelled: AtomicFile internals (C17; only its all-or-nothing contract is exercised), gpg, the _hostmaskCache/_nameCache (C04), Python literals other than those listed in bool fields, negative or non-ASCII-digit numbers.',
 'technique': 'Lean 4 proof (induction over records/lines, invariants of the reader machine) + table extraction + differential correspondence',
 'design_ref': 'DESIGN.md §6 C16',
}
THEOREMS = ['C16.users_roundtrip', 'C16.users_load_total', 'C16.lines_roundtrip', 'C16.line_roundtrip',
            'C16.userWrites_table', 'C16.chanWrites_table', 'C16.netWrites_table', 'C16.flush_table',
            'C16.commands_table', 'C16.written_keywords_dispatch', 'C16.readerShape_table', 'C16.shared_tables',
            'C16.users_roundtrip_partial_leading_blank', 'C16.users_roundtrip_partial_tab', 'C16.users_nameless_aborts',
            'C16.users_stale_creator_poisons_next_load', 'C16.users_hashed_flag_lost',
            'C16.users_inverse_pair_order_dependent', 'C16.users_hostmask_like_name_aborts',
            'C16.users_linebreak_name_refused',
            'C16.channels_roundtrip', 'C16.loadedChan_same', 'C16.channels_default_anticap_returns', 'C16.channels_expiry_rounded',
            'C16.networks_roundtrip', 'C16.networks_empty_record_dropped',
            'C16.ignores_roundtrip', 'C16.ignores_hash_hostmask_lost',
            'C16.users_reload_no_new_capability', 'C16.users_loaded_fields_safe', 'C16.users_linebreak_injects',
            'C16.load_ids', 'C16.load_err_stuck', 'C16.load_stuck', 'C16.load_fresh',
            'C16.capsOk_perm', 'C16.users_roundtrip_any_cap_order', 'C16.inverse_pair_some_order_loses']
TRUSTED = ['Lean 4.33.0 kernel; axioms ⊆ {propext, Classical.choice, Quot.sound}',
           'harness/extractors/preserve.py (writer keywords, reader vocabularies, rfc1459 table → Gen/Preserve.lean)',
           'harness/c16.py generators, snapshot/canonicalisation code, hex line protocol',
           'parameter hm = ircutils.hostmaskPatternEqual (any relation in the theorems; C03.glob in the driver)',
           'parameter lower = str.lower (any function in the theorems; ASCII lower in the driver, generators avoid cased non-ASCII letters)',
           'safeEval modelled on True/False/None/decimal integers only',
           'files are read with universal newlines and UTF-8 (Python 3 text mode), written without newline translation (codecs.open)']
RULE = ('streams: (api-clean) states built through the real ircdb API from line-safe values; (api-hostile) the same with '
        'values that break one clause of Storable (leading blank, TAB, CR/LF, empty, inverse capability pair, removed default '
        'anti-capability, huge expiry, # hostmask ...); (file) the real readers on generated/mutated files, with and without a '
        'stale class-level creator; (micro) fileLines / parseLine / CapabilitySet.add / hostmaskPatternsIntersect; (resave) a second save over '
        'an existing file under every AtomicFile configuration, with write faults, and of files of tens of KiB after a same-size '
        'change. The round-trip oracle compares the records of the IrcDict-keyed databases (channels, networks) under the key '
        'function of that container (ircutils.toLower), refusing any comparison in which two records fall together; which of the '
        'spellings an IRC server treats as one name is written is compared with the model only. A case is non-trivial when it carries at '
        'least one tag (record kinds present, reader branches taken, error class); distinct = distinct input.')

# ---------------------------------------------------------------------------------------------
# implementation handle
# ---------------------------------------------------------------------------------------------
class Rec(object):
    """stands in for ircdb.log: remembers the class of the exception that ended a load"""
    def __init__(self):
        self.clear()
    def clear(self):
        self.exc = None; self.errors = 0; self.invalid_lines = 0
    def exception(self, *a, **k):
        self.exc = sys.exc_info()[0].__name__ if sys.exc_info()[0] else 'unknown'
    def error(self, fmt, *a, **k):
        self.errors += 1
        if 'Invalid line in ignores' in fmt:
            self.invalid_lines += 1
        if fmt.startswith('Invalid user dictionary file') or fmt.startswith('Invalid channel database') or \
                fmt.startswith('Invalid network database'):
            if self.exc is None and sys.exc_info()[0] is not None:
                self.exc = sys.exc_info()[0].__name__
    def __getattr__(self, n):
        return lambda *a, **k: None

class Clock(object):
    def __init__(self, t): self.t = t
    def time(self): return self.t

_impl = None
def impl():
    global _impl
    if _impl is None:
        bot.light()
        from supybot import ircdb, ircutils
        class I: pass
        _impl = I(); _impl.ircdb = ircdb; _impl.ircutils = ircutils
        _impl.rec = Rec(); ircdb.log = _impl.rec
        _impl.realtime = ircdb.time
        _impl.dir = bot.scratch(); _impl.n = 0
    return _impl

def fresh_file(I, stem):
    I.n += 1
    return os.path.join(I.dir, '%s_%d.conf' % (stem, I.n % 50))

def read_raw(fn):
    with open(fn, encoding='utf-8', newline='') as f:
        return f.read()

def write_raw(fn, text):
    with open(fn, 'w', encoding='utf-8', newline='') as f:
        f.write(text)

# ---------------------------------------------------------------------------------------------
# wire forms (mirror of lean/LimnoriaModel/C16/Drive.lean)
# ---------------------------------------------------------------------------------------------
def encL(sep, xs):
    xs = list(xs)
    return '-' if not xs else sep.join(wire.enc(x) for x in xs)
def decL(sep, f):
    return [] if f == '-' else [wire.dec(x) for x in f.split(sep)]
def encB(b): return '1' if b else '0'
def enc_entries(ev, items):
    items = list(items)
    return '-' if not items else ';'.join(wire.enc(k) + '=' + ev(v) for k, v in items)
def dec_entries(dv, f):
    if f == '-': return []
    out = []
    for it in f.split(';'):
        k, v = it.split('=')
        out.append((wire.dec(k), dv(v)))
    return out

def enc_user_body(u):
    return ':'.join([wire.enc(u['name']), encB(u['ignore']), encB(u['secure']), encB(u['hashed']), wire.enc(u['password']),
                     encL(',', u['caps']), encL(',', u['hostmasks']),
                     enc_entries(lambda ns: encL('+', ns), u['nicks']), encL(',', u['gpgkeys'])])
def dec_user_body(fs):
    n, i, s, h, p, c, hm, nk, g = fs
    return {'name': wire.dec(n), 'ignore': i == '1', 'secure': s == '1', 'hashed': h == '1', 'password': wire.dec(p),
            'caps': decL(',', c), 'hostmasks': decL(',', hm), 'nicks': dec_entries(lambda f: decL('+', f), nk),
            'gpgkeys': decL(',', g)}
def enc_users(us):
    return '-' if not us else '/'.join(str(i) + ':' + enc_user_body(u) for i, u in us)
def dec_users(f):
    if f == '-': return []
    out = []
    for it in f.split('/'):
        fs = it.split(':')
        out.append((int(fs[0]), dec_user_body(fs[1:])))
    return out
def canon_user(u):
    u = dict(u); u['caps'] = sorted(u['caps']); u['hostmasks'] = sorted(u['hostmasks'])
    return u
def canon_users(us):
    return [(i, canon_user(u)) for i, u in us]

def enc_chan(c):
    return ':'.join([encB(c['lobotomized']), encB(c['defaultAllow']), encL(',', c['caps']),
                     enc_entries(str, c['bans']), enc_entries(str, c['ignores'])])
def dec_chan(fs):
    l, d, c, b, i = fs
    return {'lobotomized': l == '1', 'defaultAllow': d == '1', 'caps': decL(',', c),
            'bans': dec_entries(int, b), 'ignores': dec_entries(int, i)}
def enc_chans(cs):
    return '-' if not cs else '/'.join(wire.enc(n) + ':' + enc_chan(c) for n, c in cs)
def dec_chans(f):
    if f == '-': return []
    out = []
    for it in f.split('/'):
        fs = it.split(':')
        out.append((wire.dec(fs[0]), dec_chan(fs[1:])))
    return out
def canon_chans(cs):
    out = []
    for n, c in cs:
        c = dict(c); c['caps'] = sorted(c['caps']); c['bans'] = sorted(c['bans']); c['ignores'] = sorted(c['ignores'])
        out.append((n, c))
    return out

def by_container_key(I, recs):
    """records of an IrcDict (channels, networks) keyed the way the container itself compares keys (ircutils.toLower:
    rfc1459 folding), sorted; None when two records would fall together under that key (they never may: an IrcDict
    cannot hold both).  The property is about the same channels coming back; which of the spellings an IRC server
    treats as one name stands in the file is compared in the model-vs-implementation correspondence only."""
    keyed = [(I.ircutils.toLower(n), c) for n, c in recs]
    if len({k for k, _ in keyed}) != len(keyed):
        return None
    return sorted(keyed, key=lambda p: p[0])

def same_records(I, A, B):
    a, b = by_container_key(I, A), by_container_key(I, B)
    return a is not None and b is not None and a == b

def enc_nets(ns):
    return '-' if not ns else '/'.join(wire.enc(n) + ':' + enc_entries(wire.enc, v['sts']) + ':' + enc_entries(str, v['last'])
                                       for n, v in ns)
def dec_nets(f):
    if f == '-': return []
    out = []
    for it in f.split('/'):
        n, s, l = it.split(':')
        out.append((wire.dec(n), {'sts': dec_entries(wire.dec, s), 'last': dec_entries(int, l)}))
    return out
def canon_nets(ns):
    return [(n, {'sts': sorted(v['sts']), 'last': sorted(v['last'])}) for n, v in ns]

# ---------------------------------------------------------------------------------------------
# structural dumps of the real objects (iteration order of the real containers)
# ---------------------------------------------------------------------------------------------
def snap_user(u):
    return {'name': u.name, 'ignore': bool(u.ignore), 'secure': bool(u.secure), 'hashed': bool(u.hashed),
            'password': u.password, 'caps': [str(c) for c in u.capabilities], 'hostmasks': [str(h) for h in u.hostmasks],
            'nicks': [(k, list(v)) for k, v in u.nicks.items()], 'gpgkeys': list(u.gpgkeys)}
def snap_users(ud):
    return [(i, snap_user(u)) for i, u in ud.users.items()]
def snap_chan(c):
    return {'lobotomized': bool(c.lobotomized), 'defaultAllow': bool(c.defaultAllow), 'caps': [str(x) for x in c.capabilities],
            'bans': list(c.bans.items()), 'ignores': list(c.ignores.items())}
def snap_chans(cd):
    return [(k, snap_chan(c)) for k, c in cd.channels.items()]
def snap_nets(nd):
    return [(k, {'sts': list(n.stsPolicies.items()), 'last': list(n.lastDisconnectTimes.items())}) for k, n in nd.networks.items()]

def cu_enc(I):
    u = I.ircdb.IrcUserCreator.u
    if u is None:
        return '~'
    return ('~' if u.id is None else str(u.id)) + ':' + enc_user_body(canon_user(snap_user(u)))

def canon_u_load(line):
    """model output of u_load -> canonical string"""
    f = line.split('\t')
    if len(f) != 4:
        return line
    err, cu, nid, us = f
    if cu != '~':
        idp, rest = cu.split(':', 1)
        cu = idp + ':' + enc_user_body(canon_user(dec_user_body(rest.split(':'))))
    return '\t'.join([err, cu, nid, enc_users(canon_users(dec_users(us)))])

def canon_c_load(line):
    f = line.split('\t')
    if len(f) != 3:
        return line
    return '\t'.join([f[0], f[1], enc_chans(canon_chans(dec_chans(f[2])))])

def canon_n_load(line):
    f = line.split('\t')
    if len(f) != 3:
        return line
    return '\t'.join([f[0], f[1], enc_nets(canon_nets(dec_nets(f[2])))])

# ---------------------------------------------------------------------------------------------
# the Storable predicates, written from the property statement + the format (not from the model);
# each returns the list of finding classes the state falls in ([] = must round-trip)
# ---------------------------------------------------------------------------------------------
def line_safe(v):
    """a rest-of-line value the format carries unchanged"""
    return v != '' and not v[0].isspace() and not any(c in v for c in '\t\r\n')
def word_safe(v):
    return v != '' and not any(c.isspace() for c in v)

def inverse_pair(I, caps):
    s = set(caps)
    for c in caps:
        try:
            if I.ircdb.invertCapability(c) in s:
                return True
        except (AssertionError, ValueError):
            return True
    return False

def classes_users(I, S):
    cl = []
    def add(x):
        if x not in cl: cl.append(x)
    seen = set()
    for i, u in S:
        if u['name'] == '':
            add('C16-nameless-user')
        elif not line_safe(u['name']):
            add('C16-unescaped-field')
        if u['password'] == '':
            if u['hashed'] and u['name'] != '':
                add('C16-hashed-flag-without-password')
        elif not line_safe(u['password']):
            add('C16-unescaped-field')
        for x in u['caps'] + u['hostmasks'] + u['gpgkeys']:
            if not line_safe(x): add('C16-unescaped-field')
        if inverse_pair(I, u['caps']):
            add('C16-capability-inverse-pair')
        for net, nicks in u['nicks']:
            if not line_safe(net) or ' ' in net or not nicks or any((' ' in n or '\t' in n or '\r' in n or '\n' in n) for n in nicks):
                add('C16-unescaped-field')
        if I.ircutils.isUserHostmask(u['name']):
            add('C16-hostmask-like-name')
        k = u['name'].lower()
        if k in seen:
            add('C16-unescaped-field')       # only reachable by names that differ in a stripped part
        seen.add(k)
    return cl

def classes_chans(I, S):
    cl = []
    def add(x):
        if x not in cl: cl.append(x)
    for n, c in S:
        if not line_safe(n): add('C16-unescaped-field')
        for x in c['caps']:
            if not line_safe(x): add('C16-unescaped-field')
        if inverse_pair(I, c['caps']): add('C16-capability-inverse-pair')
        for d in I.ircdb.IrcChannel.defaultOff:
            # IrcChannel() starts with -d; it stays unless a written capability displaces it
            def displaces(x):
                try: return I.ircdb.invertCapability(x) == '-' + d
                except (AssertionError, ValueError): return False
            if ('-' + d) not in c['caps'] and not any(displaces(x) for x in c['caps']):
                add('C16-channel-default-anticapability')
        for m, e in c['bans'] + c['ignores']:
            if not word_safe(m): add('C16-unescaped-field')
            if e >= 2 ** 53: add('C16-expiry-beyond-2p53')
    return cl

def classes_nets(I, S):
    cl = []
    for n, v in S:
        if not line_safe(n): cl.append('C16-unescaped-field')
        for s, p in v['sts']:
            if not word_safe(s) or not word_safe(p): cl.append('C16-unescaped-field')
        for s, t in v['last']:
            if not word_safe(s): cl.append('C16-unescaped-field')
    return cl

def classes_ignores(I, S):
    cl = []
    for m, e in S:
        if not word_safe(m): cl.append('C16-unescaped-field')
        elif m.startswith('#'): cl.append('C16-ignore-hostmask-hash')
        if e >= 2 ** 53: cl.append('C16-expiry-beyond-2p53')
    return cl

def drop_empty_nets(S):
    """an IrcNetwork without policies and disconnect times is what getNetwork() returns for an
    unknown name; whether such a record exists is not observable through the API"""
    return [(n, v) for n, v in S if v['sts'] or v['last']]

# ---------------------------------------------------------------------------------------------
# value generators
# ---------------------------------------------------------------------------------------------
WORD = 'abcxyzABZ019_-.'
def g_word(r, lo=1, hi=7, extra=''):
    return ''.join(r.choice(WORD + extra) for _ in range(r.randint(lo, hi)))

def g_clean_line(r):
    """line-safe value: interior/trailing blanks, '#', ':', non-ASCII (uncased) allowed"""
    if r.random() < 0.06:
        # a value that itself starts and ends with a double quote (and may look like a string literal with escapes):
        # nothing in the format gives quotes a meaning
        return r.choice(['"bob"', '"a b"', '"x\\n"', '"\\x41b"', '"it\'s"', '"%s"' % g_word(r), '"%s"' % g_word(r), '"a""b"', "'q'"])
    n = r.randint(1, 9)
    body = ''.join(r.choice(WORD + ' #:=!@é中😀\x01\x0b\xa0') for _ in range(n))
    first = r.choice(WORD + '#:é中')
    return first + body if r.random() < 0.8 else first

HOSTILE_PARTS = [' ', '  ', '\t', '\n', '\r', '\r\n', '\x0b', '\x0c', '\x1c', '\x1f', '\x85', '\xa0', ' ', '　']
def g_hostile_line(r):
    k = r.randint(0, 7)
    base = g_clean_line(r)
    if k == 0: return r.choice(HOSTILE_PARTS) + base                       # leading blank
    if k == 1: return base[:1] + '\t' + base[1:]                            # TAB inside
    if k == 2: return base + r.choice(['\n', '\r', '\r\n']) + '  capability owner'   # injected line
    if k == 3: return ''                                                    # empty
    if k == 4: return r.choice(HOSTILE_PARTS)                               # only blanks
    if k == 5: return base + r.choice(['\n', '\r'])                         # trailing line break
    if k == 6: return base + r.choice([' ', '\t', '\xa0'])                  # trailing blank (TAB is not safe)
    return base[:1] + r.choice(['\n', '\r']) + base[1:]

REL_HOSTS = ['h1.example.org', 'h2.example.org', 'irc.other.net']
def g_related_hostmask(r):
    """hostmasks that cover / are covered by one another (wide pattern vs specific mask), for the collision
    rule of setUser: both time orders and both id orders must be refused alike"""
    h = r.choice(REL_HOSTS)
    return r.choice(['*!*@*.example.org', '*!*@' + h, 'nick!user@' + h, 'n*!*@' + h, 'nick!*@*', 'Nick!User@' + h.upper(),
                     'other!u@' + h, '*!user@' + h, '?ick!user@' + h])

def g_hostmask(r, hostile=False):
    sp = '[]\\{}|~^*?'
    def part(lo=1, hi=5):
        return ''.join(r.choice('abcXY01-._' + (sp if r.random() < 0.3 else '')) for _ in range(r.randint(lo, hi)))
    h = '%s!%s@%s' % (part(2, 5), part(), part(2, 6))
    if r.random() < 0.1:
        h = h.replace(h[0], '*', 1)
    if hostile:
        k = r.randint(0, 3)
        if k == 0: h = h + '\n'
        elif k == 1: h = '#' + h
        elif k == 2: h = h + 'é'
    return h

CAPS = ['owner', 'admin', 'trusted', 'op', 'foo', 'Foo', 'FOO[', 'foo{', 'a.b', '#chan,op', '#chan,foo', '#Chan,-Foo', '&c,x',
        'é', 'x' * 30, 'halfop', 'voice', 'protected', '-', '--', ',', '#c,', 'a,b']
def g_cap(r, hostile=False):
    c = r.choice(CAPS)
    k = r.randint(0, 9)
    if k < 3: c = '-' + c
    elif k == 3: c = '--' + c
    if ',' in c and k == 4:
        ch, x = c.split(',', 1); c = ch + ',-' + x
    if hostile:
        c = r.choice([' ' + c, c + ' ', '\t' + c, c + '\n', 'a b', '', c + '\x0b', '-owner', '\xa0' + c])
    return c

def g_nick(r):
    return r.choice('abcXY[]\\`_^{|}') + g_word(r, 0, 5, '[]\\`_^{|}')

# ---------------------------------------------------------------------------------------------
# users: API-built states
# ---------------------------------------------------------------------------------------------
def build_users(I, r, hostile):
    ircdb = I.ircdb
    ud = ircdb.UsersDictionary()
    tags = set()
    def val():
        if hostile and r.random() < 0.25:
            tags.add('hostile-value'); return g_hostile_line(r)
        return g_clean_line(r)
    live = []
    for _ in range(r.randint(1, 8)):
        op = r.choice(['new', 'new', 'new', 'cap', 'cap', 'rmcap', 'hm', 'rmhm', 'rename', 'flags', 'nicks', 'gpg', 'del', 'pw', 'bare'])
        if op == 'new' or not live:
            u = ud.newUser()
            u.name = val() if r.random() < 0.9 else g_hostmask(r)
            if r.random() < 0.8:
                if r.random() < 0.7:
                    u.setPassword(g_word(r))
                else:
                    u.hashed = False; u.password = val(); tags.add('cleartext-password')
            for _ in range(r.choice([0, 0, 1, 2])):
                try: u.addHostmask(g_related_hostmask(r) if r.random() < 0.35 else g_hostmask(r, hostile and r.random() < 0.3))
                except (AssertionError, ValueError): pass
            try:
                ud.setUser(u); live.append(u.id); tags.add('user')
            except (ircdb.DuplicateHostmask, ValueError):
                tags.add('setUser-rejected')
                if hostile and r.random() < 0.3:
                    u.name = ''; tags.add('left-nameless')        # what a failed register leaves behind
                else:
                    ud.delUser(u.id)
            continue
        uid = r.choice(live)
        u = ud.users[uid]
        try:
            if op == 'cap':
                for _ in range(r.randint(1, 4)):
                    try: u.addCapability(g_cap(r, hostile and r.random() < 0.2)); tags.add('capability')
                    except AssertionError: tags.add('cap-rejected')
            elif op == 'rmcap' and len(u.capabilities):
                u.removeCapability(r.choice(sorted(u.capabilities)))
            elif op == 'hm':
                h = g_related_hostmask(r) if r.random() < 0.45 else g_hostmask(r, hostile and r.random() < 0.3)
                try:
                    u.addHostmask(h); tags.add('hostmask')
                    try: ud.setUser(u)
                    except ircdb.DuplicateHostmask: u.removeHostmask(h); tags.add('hostmask-clash')
                except (AssertionError, ValueError): pass
            elif op == 'rmhm' and len(u.hostmasks):
                u.removeHostmask(r.choice(sorted(u.hostmasks)))
            elif op == 'rename':
                n = val()
                try:
                    ud.getUserId(n)
                except KeyError:
                    old = u.name; u.name = n
                    try: ud.setUser(u)
                    except (ircdb.DuplicateHostmask, ValueError): u.name = old
                except ircdb.DuplicateHostmask:
                    pass
            elif op == 'flags':
                u.secure = r.random() < 0.5; u.ignore = r.random() < 0.3
            elif op == 'nicks':
                net = g_word(r) if not (hostile and r.random() < 0.3) else r.choice(['', ' n', 'a b', 'n\t'])
                ns = [g_nick(r) for _ in range(r.randint(1, 3))]
                if hostile and r.random() < 0.4:
                    ns = r.choice([[], [''], ['a b'], ns + ['x\n'], ['', 'a'], ns + ['']])
                u.nicks[net] = ns; tags.add('nicks')
            elif op == 'gpg':
                u.gpgkeys.append(val().replace(' ', '') or 'K'); tags.add('gpgkey')
            elif op == 'pw':
                u.setPassword(g_word(r))
            elif op == 'bare':
                u.hashed = False; u.password = ''
            elif op == 'del':
                ud.delUser(uid); live.remove(uid); tags.add('deleted')
                continue
            ud.setUser(u)
        except (ircdb.DuplicateHostmask, ValueError):
            tags.add('setUser-rejected')
    return ud, tags

def users_cases(I, r, n, hostile, out):
    ircdb = I.ircdb
    for _ in range(n):
        ud, tags = build_users(I, r, hostile)
        users_roundtrip_case(I, ud, tags, 'api-hostile' if hostile else 'api-clean', out)

def users_roundtrip_case(I, ud, tags, kind, out, descr=None):
    ircdb = I.ircdb
    S0 = snap_users(ud)
    fn = fresh_file(I, 'users')
    if os.path.exists(fn): os.unlink(fn)
    ud.filename = fn
    ud.flush()
    text = read_raw(fn)
    ircdb.IrcUserCreator.u = None
    I.rec.clear()
    ud.reload()
    S1 = snap_users(ud); err = I.rec.exc or 'ok'; cu = cu_enc(I)
    ircdb.IrcUserCreator.u = None
    inp = {'db': 'users', 'state': enc_users(S0), 'descr': descr, 'classes': classes_users(I, S0)}
    # 1. writer correspondence: byte-for-byte
    c1 = Case(dict(inp, op='dump'), impl=wire.enc(text), kind=kind, tags=tuple(sorted(tags)) + ('u-dump',))
    out.append((c1, ['u_dump\t' + enc_users(S0)], lambda o: o[0]))
    # 2. reader correspondence + oracle
    cls = classes_users(I, S0)
    ok = (sorted(canon_users(S0), key=lambda p: p[0]) == sorted(canon_users(S1), key=lambda p: p[0])) and err == 'ok' and cu == '~'
    t = set(tags) | {'u-load', 'load-' + err}
    if cu != '~': t.add('creator-left-dirty')
    if not ok: t.add('differs')
    c2 = Case(dict(inp, op='roundtrip', text=text), kind=kind, tags=tuple(sorted(t)),
              impl='\t'.join([err, cu, str(ud.nextId), enc_users(canon_users(S1))]),
              oracle_ok=ok, finding=(cls[0] if cls else None),
              oracle_msg='' if ok else 'users before flush != users after reload (load ended with %s, creator %s): before %r after %r'
                         % (err, 'clean' if cu == '~' else 'dirty', canon_users(S0), canon_users(S1)))
    out.append((c2, ['reset', 'u_load\t' + wire.enc(text)], lambda o: canon_u_load(o[1])))
    # 3. the hypothesis of the round-trip theorem (Lean, executable) == the harness's own classification
    c3 = Case(dict(inp, op='storable'), impl=('0' if cls else '1'), kind=kind,
              tags=('storable-yes',) if not cls else ('storable-no',))
    out.append((c3, ['u_storable\t' + enc_users(S0)], lambda o: o[0]))

# ---------------------------------------------------------------------------------------------
# users: reader alone on generated files
# ---------------------------------------------------------------------------------------------
UCMDS = ['user', 'name', 'ignore', 'secure', 'hashed', 'password', 'hostmask', 'nicks', 'capability', 'gpgkey']
def g_user_file(r):
    """mostly well-formed users.conf text with a few mutations"""
    lines = []
    nid = 0
    for _ in range(r.randint(1, 4)):
        nid += r.randint(1, 3)
        idtxt = str(nid) if r.random() < 0.9 else r.choice(['x', '', '1 2', '07', ' 3', str(nid) + ' '])
        lines.append('user ' + idtxt)
        body = ['name ' + (g_clean_line(r) if r.random() < 0.9 else r.choice(['', ' ', 'a!b@c'])),
                'ignore ' + r.choice(['False', 'True', 'False', '0', '1', 'None', 'x', 'True False', '12']),
                'secure ' + r.choice(['False', 'True', 'False ', 'true'])]
        if r.random() < 0.7:
            body += ['hashed ' + r.choice(['True', 'False']), 'password ' + g_word(r)]
        for _ in range(r.choice([0, 1, 2, 3])):
            body.append('capability ' + g_cap(r, r.random() < 0.1))
        for _ in range(r.choice([0, 1, 2])):
            body.append('hostmask ' + g_hostmask(r))
        if r.random() < 0.3:
            body.append('nicks ' + r.choice(['net a b', 'net', 'net ', 'n1 x', 'net  a']))
        if r.random() < 0.2:
            body.append('gpgkey ' + g_word(r))
        r.shuffle(body) if r.random() < 0.2 else None
        ind = '  ' if r.random() < 0.9 else r.choice([' ', '\t', '    ', ' \t', ''])
        lines += [ind + b for b in body]
        if r.random() < 0.85: lines.append('')
    # mutations
    for _ in range(r.choice([0, 0, 1, 1, 2, 3])):
        if not lines: break
        i = r.randrange(len(lines))
        m = r.randint(0, 9)
        if m == 0: del lines[i]
        elif m == 1: lines.insert(i, lines[i])
        elif m == 2: lines[i] = ' ' + lines[i]
        elif m == 3: lines[i] = lines[i].lstrip(' ')
        elif m == 4: lines[i] = lines[i].replace(' ', '\t', 1)
        elif m == 5: lines.insert(i, r.choice(['  ', '  bogus x', '  finish x', '  u x', '  users x', 'NAME Zed', '  Capability OWNER',
                                               '  name', '  user 9', '\x0c', '  badcommand y', '  _checkid z']))
        elif m == 6: lines[i] = lines[i] + r.choice([' ', '\t', '\x0b'])
        elif m == 7 and i + 1 < len(lines): lines[i], lines[i + 1] = lines[i + 1], lines[i]
        elif m == 8 and lines[i].isascii(): lines[i] = lines[i].upper()
        else: lines[i] = lines[i].replace(' ', '  ', 1)
    sep = r.choice(['\n', '\n', '\n', '\r\n', '\r'])
    text = sep.join(lines)
    if r.random() < 0.8: text += sep
    return text

def users_file_cases(I, r, n, out):
    ircdb = I.ircdb
    for _ in range(n):
        stale = r.random() < 0.25
        texts = [g_user_file(r)] + ([g_user_file(r)] if stale else [])
        ircdb.IrcUserCreator.u = None
        drv = ['reset']
        res = []
        for t in texts:
            ud = ircdb.UsersDictionary()
            fn = fresh_file(I, 'usersf'); write_raw(fn, t)
            ud.filename = fn
            I.rec.clear()
            ud.reload()
            err = I.rec.exc or 'ok'
            res.append('\t'.join([err, cu_enc(I), str(ud.nextId), enc_users(canon_users(snap_users(ud)))]))
            drv.append('u_load\t' + wire.enc(t))
        ircdb.IrcUserCreator.u = None
        tags = {'u-file', 'load-' + res[-1].split('\t')[0]}
        if stale: tags.add('two-loads');
        if stale and res[0].split('\t')[1] != '~': tags.add('stale-creator')
        c = Case({'db': 'users', 'op': 'load-files', 'texts': texts}, impl='\n'.join(res), kind='file', tags=tuple(sorted(tags)))
        out.append((c, drv, lambda o: '\n'.join(canon_u_load(x) for x in o[1:])))

# ---------------------------------------------------------------------------------------------
# channels
# ---------------------------------------------------------------------------------------------
def g_chan_name(r, hostile=False):
    n = r.choice('#&!#') + g_word(r, 1, 6, '[]\\~{}|^é')
    if hostile:
        n = r.choice([n + '\n', n + ' ', n + '\t', n + '\xa0', n.upper()])
    return n

def g_expiry(r, hostile=False):
    k = r.randint(0, 5)
    if hostile and k < 2:
        return r.choice([2 ** 53, 2 ** 53 + 1, 2 ** 53 + 3, 2 ** 60 + 12345, 10 ** 22 + 1, 2 ** 54 + 2, 2 ** 53 + 2])
    if k == 0: return 0
    return r.randint(1, 2 * 10 ** 9)

def build_chans(I, r, hostile):
    ircdb = I.ircdb
    cd = ircdb.ChannelsDictionary()
    tags = set()
    names = []
    for _ in range(r.randint(1, 7)):
        if not names or r.random() < 0.35:
            names.append(g_chan_name(r, hostile and r.random() < 0.3))
        n = r.choice(names)
        if r.random() < 0.2: n = n.upper()
        c = cd.getChannel(n)
        op = r.choice(['cap', 'cap', 'rmcap', 'default', 'lobo', 'ban', 'ban', 'ignore', 'rmban', 'none'])
        try:
            if op == 'cap':
                for _ in range(r.randint(1, 3)):
                    x = g_cap(r, hostile and r.random() < 0.2)
                    try: c.addCapability(x); tags.add('capability')
                    except AssertionError: tags.add('cap-rejected')
            elif op == 'rmcap' and len(c.capabilities) and (hostile or r.random() < 0.5):
                x = r.choice(sorted(c.capabilities))
                if not hostile and x in ('-op', '-halfop', '-voice', '-protected'):
                    continue
                c.removeCapability(x); tags.add('cap-removed')
            elif op == 'default':
                c.setDefaultCapability(r.random() < 0.5)
            elif op == 'lobo':
                c.lobotomized = r.random() < 0.5
            elif op == 'ban':
                m = g_hostmask(r) if not (hostile and r.random() < 0.2) else r.choice(['a b!c@d', '', 'x!y@z\n', ' a!b@c'])
                c.bans[m] = int(g_expiry(r, hostile)); tags.add('ban')
            elif op == 'ignore':
                c.addIgnore(g_hostmask(r), g_expiry(r, hostile)); tags.add('chan-ignore')
            elif op == 'rmban' and c.bans:
                c.removeBan(r.choice(sorted(c.bans)))
        except AssertionError:
            pass
        cd.setChannel(n, c)
    return cd, tags

def chans_roundtrip_case(I, cd, tags, kind, out, descr=None):
    ircdb = I.ircdb
    S0 = snap_chans(cd)
    fn = fresh_file(I, 'chans')
    if os.path.exists(fn): os.unlink(fn)
    cd.filename = fn
    cd.flush()
    text = read_raw(fn)
    ircdb.IrcChannelCreator.name = None
    I.rec.clear()
    cd.reload()
    S1 = snap_chans(cd); err = I.rec.exc or 'ok'; cn = ircdb.IrcChannelCreator.name
    ircdb.IrcChannelCreator.name = None
    inp = {'db': 'channels', 'state': enc_chans(S0), 'descr': descr, 'classes': classes_chans(I, S0)}
    c1 = Case(dict(inp, op='dump'), impl=wire.enc(text), kind=kind, tags=tuple(sorted(tags)) + ('c-dump',))
    out.append((c1, ['c_dump\t' + enc_chans(S0)], lambda o: o[0]))
    cls = classes_chans(I, S0)
    ok = same_records(I, canon_chans(S0), canon_chans(S1)) and err == 'ok' and cn is None
    t = set(tags) | {'c-load', 'load-' + err}
    if not ok: t.add('differs')
    c2 = Case(dict(inp, op='roundtrip', text=text), kind=kind, tags=tuple(sorted(t)),
              impl='\t'.join([err, wire.enc_opt(cn), enc_chans(canon_chans(S1))]),
              oracle_ok=ok, finding=(cls[0] if cls else None),
              oracle_msg='' if ok else 'channels before flush != after reload (load ended with %s): before %r after %r'
                         % (err, canon_chans(S0), canon_chans(S1)))
    out.append((c2, ['reset', 'c_load\t' + wire.enc(text)], lambda o: canon_c_load(o[1])))
    c3 = Case(dict(inp, op='storable'), impl=('0' if cls else '1'), kind=kind, tags=('storable-yes',) if not cls else ('storable-no',))
    out.append((c3, ['c_storable\t' + enc_chans(S0)], lambda o: o[0]))

def g_chan_file(r):
    lines = []
    for _ in range(r.randint(1, 3)):
        lines.append('channel ' + g_chan_name(r))
        body = ['lobotomized ' + r.choice(['False', 'True', 'x']), 'defaultAllow ' + r.choice(['True', 'False', '0'])]
        for _ in range(r.choice([0, 1, 2, 4])):
            body.append('capability ' + g_cap(r, r.random() < 0.1))
        for _ in range(r.choice([0, 1, 2])):
            body.append(r.choice(['ban ', 'ignore ']) + g_hostmask(r) + ' ' +
                        r.choice(['0', str(r.randint(1, 10 ** 10)), str(2 ** 53 + 1), str(2 ** 53 + 3), '9' * 30, '1' * 400, 'x', '', '1 2', '007']))
        ind = '  ' if r.random() < 0.9 else r.choice([' ', '\t', '   '])
        lines += [ind + b for b in body]
        if r.random() < 0.85: lines.append('')
    for _ in range(r.choice([0, 0, 1, 2])):
        if not lines: break
        i = r.randrange(len(lines)); m = r.randint(0, 6)
        if m == 0: del lines[i]
        elif m == 1: lines.insert(i, lines[i])
        elif m == 2: lines[i] = ' ' + lines[i]
        elif m == 3: lines[i] = lines[i].lstrip(' ')
        elif m == 4: lines.insert(i, r.choice(['  name x', '  c x', '  channels y', '  finish', '  finish z', '  bogus 1', 'CHANNEL #Up', '  hadchannel 1']))
        elif m == 5 and i + 1 < len(lines): lines[i], lines[i + 1] = lines[i + 1], lines[i]
        elif lines[i].isascii(): lines[i] = lines[i].upper()
    sep = r.choice(['\n', '\n', '\r\n'])
    return sep.join(lines) + (sep if r.random() < 0.8 else '')

def chans_file_cases(I, r, n, out):
    ircdb = I.ircdb
    for _ in range(n):
        two = r.random() < 0.25
        texts = [g_chan_file(r)] + ([g_chan_file(r)] if two else [])
        ircdb.IrcChannelCreator.name = None
        drv = ['reset']; res = []
        for t in texts:
            cd = ircdb.ChannelsDictionary()
            fn = fresh_file(I, 'chansf'); write_raw(fn, t)
            cd.filename = fn
            I.rec.clear()
            cd.reload()
            err = I.rec.exc or 'ok'
            res.append('\t'.join([err, wire.enc_opt(ircdb.IrcChannelCreator.name), enc_chans(canon_chans(snap_chans(cd)))]))
            drv.append('c_load\t' + wire.enc(t))
        ircdb.IrcChannelCreator.name = None
        tags = {'c-file', 'load-' + res[-1].split('\t')[0]}
        if two: tags.add('two-loads')
        c = Case({'db': 'channels', 'op': 'load-files', 'texts': texts}, impl='\n'.join(res), kind='file', tags=tuple(sorted(tags)))
        out.append((c, drv, lambda o: '\n'.join(canon_c_load(x) for x in o[1:])))

# ---------------------------------------------------------------------------------------------
# networks
# ---------------------------------------------------------------------------------------------
def build_nets(I, r, hostile):
    ircdb = I.ircdb
    nd = ircdb.NetworksDictionary()
    tags = set()
    names = []
    for _ in range(r.randint(1, 6)):
        if not names or r.random() < 0.4:
            nm = g_word(r, 1, 6, '[]~é')
            if hostile and r.random() < 0.3:
                nm = r.choice([' ' + nm, nm + '\n', nm + '\t', 'a b'])
            names.append(nm)
        n = r.choice(names)
        net = nd.getNetwork(n)
        op = r.choice(['sts', 'sts', 'disc', 'expire', 'none'])
        srv = g_word(r, 1, 8) if not (hostile and r.random() < 0.2) else r.choice(['a b', '', 'x\n'])
        if op == 'sts':
            pol = 'duration=%d,port=%d' % (r.randint(0, 10 ** 6), r.randint(1, 65535))
            if hostile and r.random() < 0.2: pol = r.choice(['duration=1, port=2', '', 'a\tb'])
            net.addStsPolicy(srv, pol); tags.add('sts')
        elif op == 'disc':
            net.lastDisconnectTimes[srv] = r.randint(0, 2 * 10 ** 9); tags.add('disconnect-time')
        elif op == 'expire' and net.stsPolicies:
            net.expireStsPolicy(r.choice(sorted(net.stsPolicies)))
        nd.setNetwork(n, net)
    return nd, tags

def nets_roundtrip_case(I, nd, tags, kind, out, descr=None):
    ircdb = I.ircdb
    S0 = snap_nets(nd)
    fn = fresh_file(I, 'nets')
    if os.path.exists(fn): os.unlink(fn)
    nd.filename = fn
    nd.flush()
    text = read_raw(fn)
    ircdb.IrcNetworkCreator.name = None
    I.rec.clear()
    nd.reload()
    S1 = snap_nets(nd); err = I.rec.exc or 'ok'; nn = ircdb.IrcNetworkCreator.name
    ircdb.IrcNetworkCreator.name = None
    inp = {'db': 'networks', 'state': enc_nets(S0), 'descr': descr, 'classes': classes_nets(I, S0)}
    c1 = Case(dict(inp, op='dump'), impl=wire.enc(text), kind=kind, tags=tuple(sorted(tags)) + ('n-dump',))
    out.append((c1, ['n_dump\t' + enc_nets(S0)], lambda o: o[0]))
    cls = classes_nets(I, S0)
    ok = same_records(I, canon_nets(drop_empty_nets(S0)), canon_nets(drop_empty_nets(S1))) and err == 'ok'
    t = set(tags) | {'n-load', 'load-' + err}
    if len(drop_empty_nets(S0)) != len(S0): t.add('empty-network')
    if not ok: t.add('differs')
    c2 = Case(dict(inp, op='roundtrip', text=text), kind=kind, tags=tuple(sorted(t)),
              impl='\t'.join([err, wire.enc_opt(nn), enc_nets(canon_nets(S1))]),
              oracle_ok=ok, finding=(cls[0] if cls else None),
              oracle_msg='' if ok else 'networks before flush != after reload (load ended with %s): before %r after %r'
                         % (err, canon_nets(S0), canon_nets(S1)))
    out.append((c2, ['reset', 'n_load\t' + wire.enc(text)], lambda o: canon_n_load(o[1])))
    # the Lean predicate additionally refuses records without any line (they are dropped by the reader)
    cls_l = cls or (['empty-record'] if len(drop_empty_nets(S0)) != len(S0) else [])
    c3 = Case(dict(inp, op='storable'), impl=('0' if cls_l else '1'), kind=kind, tags=('storable-yes',) if not cls_l else ('storable-no',))
    out.append((c3, ['n_storable\t' + enc_nets(S0)], lambda o: o[0]))

def g_net_file(r):
    lines = []
    for _ in range(r.randint(1, 4)):
        lines.append('network ' + g_word(r, 1, 5))
        body = []
        for _ in range(r.choice([0, 0, 1, 2])):
            body.append('stsPolicy ' + g_word(r) + r.choice([' ', '  ', '']) + r.choice(['duration=1,port=2', 'x y', '']))
        for _ in range(r.choice([0, 1])):
            body.append('lastDisconnectTime ' + g_word(r) + ' ' + r.choice([str(r.randint(0, 10 ** 10)), 'x', '1.5', '', '12 ']))
        lines += ['  ' + b for b in body]
        if r.random() < 0.85: lines.append('')
    for _ in range(r.choice([0, 0, 1, 2])):
        if not lines: break
        i = r.randrange(len(lines)); m = r.randint(0, 5)
        if m == 0: del lines[i]
        elif m == 1: lines[i] = ' ' + lines[i]
        elif m == 2: lines[i] = lines[i].lstrip(' ')
        elif m == 3: lines.insert(i, r.choice(['  name x', '  net x', '  networks y', '  finish z', '  bogus 1', 'NETWORK Up']))
        elif m == 4 and i + 1 < len(lines): lines[i], lines[i + 1] = lines[i + 1], lines[i]
        elif lines[i].isascii(): lines[i] = lines[i].upper()
    return '\n'.join(lines) + ('\n' if r.random() < 0.8 else '')

def nets_file_cases(I, r, n, out):
    ircdb = I.ircdb
    for _ in range(n):
        two = r.random() < 0.3
        texts = [g_net_file(r)] + ([g_net_file(r)] if two else [])
        ircdb.IrcNetworkCreator.name = None
        drv = ['reset']; res = []
        for t in texts:
            nd = ircdb.NetworksDictionary()
            fn = fresh_file(I, 'netsf'); write_raw(fn, t)
            nd.filename = fn
            I.rec.clear()
            nd.reload()
            err = I.rec.exc or 'ok'
            res.append('\t'.join([err, wire.enc_opt(ircdb.IrcNetworkCreator.name), enc_nets(canon_nets(snap_nets(nd)))]))
            drv.append('n_load\t' + wire.enc(t))
        ircdb.IrcNetworkCreator.name = None
        tags = {'n-file', 'load-' + res[-1].split('\t')[0]}
        if two: tags.add('two-loads')
        c = Case({'db': 'networks', 'op': 'load-files', 'texts': texts}, impl='\n'.join(res), kind='file', tags=tuple(sorted(tags)))
        out.append((c, drv, lambda o: '\n'.join(canon_n_load(x) for x in o[1:])))

# ---------------------------------------------------------------------------------------------
# ignores
# ---------------------------------------------------------------------------------------------
def ignores_case(I, r, hostile, out, entries=None, now=None, kind=None, descr=None):
    ircdb = I.ircdb
    ig = ircdb.IgnoresDB()
    now = now if now is not None else r.randint(10 ** 9, 2 * 10 ** 9)
    tags = {'ignores'}
    if entries is None:
        entries = []
        for _ in range(r.randint(0, 6)):
            h = g_hostmask(r, hostile and r.random() < 0.4)
            e = r.choice([0, 0, now - r.randint(1, 1000), now + r.randint(1, 10 ** 6), now])
            if hostile and r.random() < 0.15: e = r.choice([2 ** 53 + 1, 2 ** 60 + 7])
            entries.append((h, e))
    for h, e in entries:
        try: ig.add(h, e)
        except AssertionError: pass
    S0 = list(ig.hostmasks.items())
    live = [(h, e) for h, e in S0 if now < e or not e]
    if len(live) != len(S0): tags.add('expired-entry')
    fn = fresh_file(I, 'ign')
    if os.path.exists(fn): os.unlink(fn)
    ig.filename = fn
    ircdb.time = Clock(now)
    try:
        ig.flush()
        text = read_raw(fn)
        I.rec.clear()
        ig.reload()
    finally:
        ircdb.time = I.realtime
    S1 = list(ig.hostmasks.items())
    inp = {'db': 'ignores', 'state': enc_entries(str, S0), 'now': now, 'descr': descr, 'classes': classes_ignores(I, [(h, e) for h, e in S0 if now < e or not e])}
    kind = kind or ('api-hostile' if hostile else 'api-clean')
    c1 = Case(dict(inp, op='dump'), impl=wire.enc(text), kind=kind, tags=tuple(sorted(tags)) + ('i-dump',))
    out.append((c1, ['i_dump\t%d\t%s' % (now, enc_entries(str, S0))], lambda o: o[0]))
    cls = classes_ignores(I, live)
    ok = sorted(live) == sorted(S1) and I.rec.invalid_lines == 0
    t = set(tags) | {'i-load'}
    if not ok: t.add('differs')
    c2 = Case(dict(inp, op='roundtrip', text=text), kind=kind, tags=tuple(sorted(t)),
              impl=enc_entries(str, S1), oracle_ok=ok, finding=(cls[0] if cls else None),
              oracle_msg='' if ok else 'unexpired ignores before flush %r != ignores after reload %r' % (sorted(live), sorted(S1)))
    out.append((c2, ['i_load\t' + wire.enc(text)], lambda o: o[0]))
    c3 = Case(dict(inp, op='storable'), impl=('0' if cls else '1'), kind=kind, tags=('storable-yes',) if not cls else ('storable-no',))
    out.append((c3, ['i_storable\t%d\t%s' % (now, enc_entries(str, S0))], lambda o: o[0]))

def ignores_file_cases(I, r, n, out):
    ircdb = I.ircdb
    for _ in range(n):
        lines = []
        for _ in range(r.randint(0, 6)):
            h = g_hostmask(r, r.random() < 0.3)
            k = r.randint(0, 7)
            if k == 0: lines.append(h)
            elif k == 1: lines.append('# ' + h + ' 0')
            elif k == 2: lines.append(h + ' ' + r.choice(['x', '', ' 5', '1 2 3', '9' * 400]))
            elif k == 3: lines.append(g_word(r) + ' 0')
            elif k == 4: lines.append(' ' + h + '  ' + str(r.randint(0, 100)) + ' ')
            elif k == 5: lines.append(r.choice(['', ' ', '\t']))
            else: lines.append(h + ' ' + str(r.randint(0, 3 * 10 ** 9)))
        sep = r.choice(['\n', '\n', '\r\n', '\r'])
        text = sep.join(lines) + (sep if r.random() < 0.8 else '')
        ig = ircdb.IgnoresDB()
        fn = fresh_file(I, 'ignf'); write_raw(fn, text)
        ig.filename = fn
        I.rec.clear()
        ig.reload()
        c = Case({'db': 'ignores', 'op': 'load-file', 'text': text}, impl=enc_entries(str, list(ig.hostmasks.items())),
                 kind='file', tags=('i-file',) + (('i-invalid-line',) if I.rec.invalid_lines else ()))
        out.append((c, ['i_load\t' + wire.enc(text)], lambda o: o[0]))

# ---------------------------------------------------------------------------------------------
# micro suites: the carriers of every other model function
# ---------------------------------------------------------------------------------------------
def micro_cases(I, r, n, out):
    ircdb = I.ircdb
    import io
    for _ in range(n):
        # fileLines == text-mode iteration + rstrip('\r\n')
        t = ''.join(r.choice(['a', 'b', ' ', '\n', '\r', '\r\n', '\t', '\x0b', '\x0c', '\x1c', '\x85', ' ', 'é']) for _ in range(r.randint(0, 12)))
        fn = fresh_file(I, 'micro'); write_raw(fn, t)
        with open(fn) as f:
            ls = [l.rstrip('\r\n') for l in f]
        c = Case({'op': 'lines', 'text': t}, impl=encL(',', ls), kind='micro', tags=('lines',))
        out.append((c, ['lines\t' + wire.enc(t)], lambda o: o[0]))
        # parseLine == the first half of the Reader loop body
        l = ''.join(r.choice(['a', 'B', 'name', ' ', ' ', '  ', '\t', '\x0b', '\x1f', '\xa0', 'x', 'É']) for _ in range(r.randint(0, 9)))
        if not l.strip():
            want = 'blank'
        else:
            e = l.expandtabs(); s = e.lstrip(' '); ind = len(e) - len(s)
            w = s.split(None, 1)
            if len(w) == 2 and w[0].lower() == w[0].translate({i: i + 32 for i in range(65, 91)}):
                want = 'cmd\t%d\t%s\t%s' % (ind, wire.enc(w[0].lower()), wire.enc(w[1]))
            elif len(w) == 2:
                want = None       # non-ASCII case folding: outside the modelled alphabet
            else:
                want = 'bad\t%d' % ind
        if want is not None:
            c = Case({'op': 'parse', 'line': l}, impl=want, kind='micro', tags=('parse-' + want.split('\t')[0],))
            out.append((c, ['parse\t' + wire.enc(l)], lambda o: o[0]))
        # CapabilitySet.add / UserCapabilitySet.add
        kind = r.choice(['U', 'C'])
        s = ircdb.UserCapabilitySet() if kind == 'U' else ircdb.CapabilitySet()
        for _ in range(r.randint(0, 4)):
            try: s.add(g_cap(r))
            except AssertionError: pass
        before = [str(x) for x in s]
        x = g_cap(r, r.random() < 0.2)
        try:
            s.add(x); err = 'ok'
        except AssertionError:
            err = 'AssertionError'
        c = Case({'op': 'capadd', 'kind': kind, 'caps': before, 'cap': x}, impl=err + '\t' + encL(',', sorted(str(y) for y in s)),
                 kind='micro', tags=('capadd-' + err,))
        out.append((c, ['capadd\t%s\t%s\t%s' % (kind, encL(',', before), wire.enc(x))],
                    lambda o: o[0].split('\t')[0] + '\t' + encL(',', sorted(decL(',', o[0].split('\t')[1])))))

        # ircutils.hostmaskPatternsIntersect (the clash test of setUser between two accounts' hostmasks)
        alpha = ['a', 'b', 'A', '*', '*', '?', '!', '@', '[', '{', ']', '}', '|', '\\', '^', '~', '.', '1', 'Z', 'z']
        p1 = ''.join(r.choice(alpha) for _ in range(r.randint(0, 7)))
        if r.random() < 0.5:       # a near copy: most random pairs do not intersect
            q1 = ''.join(r.choice([ch, ch, ch, '*', '?', ch.swapcase()]) if r.random() < 0.8 else '' for ch in p1)
        else:
            q1 = ''.join(r.choice(alpha) for _ in range(r.randint(0, 7)))
        got = bool(I.ircutils.hostmaskPatternsIntersect(p1, q1))
        # what the function is for, tested with the matcher itself: a string that both patterns match (looked for
        # among short strings over the characters of the two patterns) means the answer must be True
        ok_hx, msg_hx = True, ''
        if not got and len(p1) + len(q1) <= 9:
            import itertools
            lits = sorted({ch for ch in p1 + q1 if ch not in '*?'} | {'x'})[:5]
            for n_ in range(0, 5):
                for w in itertools.product(lits, repeat=n_):
                    w = ''.join(w)
                    if I.ircutils.hostmaskPatternEqual(p1, w) and I.ircutils.hostmaskPatternEqual(q1, w):
                        ok_hx, msg_hx = False, 'hostmaskPatternsIntersect(%r, %r) is False but %r matches both patterns' % (p1, q1, w)
                        break
                if not ok_hx: break
        c = Case({'op': 'hx', 'p': p1, 'q': q1}, impl='1' if got else '0', kind='micro', tags=('hx-%d' % got,),
                 oracle_ok=ok_hx, oracle_msg=msg_hx)
        out.append((c, ['hx\t%s\t%s' % (wire.enc(p1), wire.enc(q1))], lambda o: o[0]))

# ---------------------------------------------------------------------------------------------
# saving over an existing file: a second flush (possibly of an emptied database), and a flush that
# fails part-way (the saved file must stay the old or become the complete new one)
# ---------------------------------------------------------------------------------------------
def _modify_users(I, r, ud):
    """a few more clean operations; sometimes everything is deleted"""
    ircdb = I.ircdb
    if r.random() < 0.3:
        for i in list(ud.users): ud.delUser(i)
        return 'emptied'
    ids = list(ud.users)
    for _ in range(r.randint(1, 3)):
        k = r.randint(0, 3)
        if k == 0 and ids:
            i = r.choice(ids); ud.delUser(i); ids.remove(i)
        elif k == 1 and ids:
            u = ud.users[r.choice(ids)]
            try: u.addCapability(g_cap(r)); ud.setUser(u)
            except (AssertionError, ircdb.DuplicateHostmask, ValueError): pass
        else:
            u = ud.newUser(); u.name = g_clean_line(r); u.setPassword(g_word(r))
            try: ud.setUser(u); ids.append(u.id)
            except (ircdb.DuplicateHostmask, ValueError): ud.delUser(u.id)
    return 'modified'

class _Boom(OSError):
    pass

def resave_cases(I, r, n, out):
    ircdb = I.ircdb
    import supybot.utils.file as ufile
    import supybot.conf as conf
    dflt = ufile.AtomicFile.default
    saved_cfg = (dflt.tmpDir, dflt.backupDir)
    breg = conf.supybot.directories.backup          # the registry value the bot itself installs as AtomicFile.default.backupDir
    saved_breg = breg.value
    scratch = os.path.dirname(fresh_file(I, 'cfgprobe'))
    bdir = os.path.join(scratch, 'backups'); tdir = os.path.join(scratch, 'tmpdir')
    for d_ in (bdir, tdir):
        os.makedirs(d_, exist_ok=True)
    try:
        _resave_cases(I, r, n, out, ufile, bdir, tdir, breg)
    finally:
        breg.setValue(saved_breg)
        dflt.tmpDir, dflt.backupDir = saved_cfg

def _resave_cases(I, r, n, out, ufile, bdir, tdir, breg):
    ircdb = I.ircdb
    for _ in range(n):
        which = r.choice(['users', 'users', 'ignores', 'channels', 'networks'])
        fault = r.random() < 0.5
        # the AtomicFile configurations of the bot: supybot.directories.backup unset / a directory / '/dev/null'
        # (no backups), supybot.directories.data.tmp unset / a directory
        backup = r.choice([None, None, bdir, '/dev/null', '/dev/null'])
        tmpd = r.choice([None, None, tdir])
        # half of the time the setting arrives the way it does in the bot: supybot.directories.backup is set and the
        # registry value itself (not a string) is what AtomicFile.default.backupDir holds (conf._update_backup)
        via_registry = backup is not None and r.random() < 0.6
        if via_registry:
            breg.setValue(backup)
            ufile.AtomicFile.default.backupDir = breg
        else:
            ufile.AtomicFile.default.backupDir = backup
        ufile.AtomicFile.default.tmpDir = tmpd
        cfg_tag = 'backup=%s%s,tmp=%s' % ('unset' if backup is None else ('devnull' if backup == '/dev/null' else 'dir'),
                                          '(registry)' if via_registry else '', 'unset' if tmpd is None else 'dir')
        fn = fresh_file(I, 're' + which)
        if os.path.exists(fn): os.unlink(fn)
        if which == 'users':
            ud, _t = build_users(I, r, False)
            if classes_users(I, snap_users(ud)): continue
            obj = ud; snap = lambda: sorted(canon_users(snap_users(ud)), key=lambda p: p[0])
            modify = lambda: _modify_users(I, r, ud)
        elif which == 'ignores':
            obj = ircdb.IgnoresDB()
            for _i in range(r.randint(1, 5)): obj.add(g_hostmask(r), 0)
            snap = lambda: sorted(obj.hostmasks.items())
            def modify():
                if r.random() < 0.4:
                    obj.hostmasks.clear(); return 'emptied'
                for h in list(obj.hostmasks)[:r.randint(0, 2)]: obj.remove(h)
                obj.add(g_hostmask(r), 0); return 'modified'
        elif which == 'channels':
            cd, _t = build_chans(I, r, False)
            if classes_chans(I, snap_chans(cd)): continue
            obj = cd; snap = lambda: by_container_key(I, canon_chans(snap_chans(cd)))
            def modify():
                if r.random() < 0.3:
                    cd.channels.clear(); cd.flush() if False else None; return 'emptied'
                if r.random() < 0.4 and len(cd.channels) > 1:
                    cd.channels.pop(r.choice(list(cd.channels.keys()))); return 'shrunk'
                c = cd.getChannel(g_chan_name(r)); c.lobotomized = True; cd.setChannel(g_chan_name(r), c); return 'modified'
        else:
            nd, _t = build_nets(I, r, False)
            if classes_nets(I, snap_nets(nd)): continue
            obj = nd; snap = lambda: by_container_key(I, canon_nets(drop_empty_nets(snap_nets(nd))))
            def modify():
                if r.random() < 0.3:
                    nd.networks.clear(); return 'emptied'
                if r.random() < 0.4 and len(nd.networks) > 1:
                    nd.networks.pop(r.choice(list(nd.networks.keys()))); return 'shrunk'
                n_ = nd.getNetwork(g_word(r)); n_.addStsPolicy(g_word(r), 'duration=1,port=2'); nd.setNetwork(g_word(r), n_); return 'modified'
        obj.filename = fn
        obj.flush()
        A = snap()
        obj.filename = None                 # the modifications below must not save by themselves
        what = modify()
        # the modification may have led into a known finding class (e.g. '#c,op' added to a set holding '-#c,op'):
        # those states have their own stream and witnesses
        if (which == 'users' and classes_users(I, snap_users(ud))) or (which == 'channels' and classes_chans(I, snap_chans(cd))) \
                or (which == 'networks' and classes_nets(I, snap_nets(nd))):
            continue
        obj.filename = fn
        B = snap()
        failed = False; flush_exc = None
        if fault:
            # the k-th write of this flush raises (disk full / I/O error)
            real_write = ufile.AtomicFile.write
            k = r.randint(1, 12); cnt = [0]
            def boom(self, data, real_write=real_write):
                cnt[0] += 1
                if cnt[0] == k: raise _Boom(28, 'No space left on device')
                return real_write(self, data)
            ufile.AtomicFile.write = boom
            try:
                try: obj.flush()
                except _Boom: failed = True
                except Exception as e_: flush_exc = e_
            finally:
                ufile.AtomicFile.write = real_write
        else:
            try: obj.flush()
            except Exception as e_: flush_exc = e_
        ircdb.IrcUserCreator.u = None; ircdb.IrcChannelCreator.name = None; ircdb.IrcNetworkCreator.name = None
        I.rec.clear()
        obj.reload()
        ircdb.IrcUserCreator.u = None; ircdb.IrcChannelCreator.name = None
        C = snap()
        if failed:
            ok = (C == A or C == B); want = 'the last saved state %r or the new one %r' % (A, B)
        else:
            ok = (C == B); want = 'the state that was flushed: %r' % (B,)
        ok = ok and I.rec.exc is None and flush_exc is None and C is not None
        if flush_exc is not None:
            want = 'no exception from flush() (it raised %s: %s); ' % (type(flush_exc).__name__, flush_exc) + want
        tags = ('resave', which, what, 'resave-' + cfg_tag) + (('flush-failed',) if failed else ())
        c = Case({'db': which, 'op': 'resave', 'saved_first': repr(A), 'then': what, 'fault_at_write': (k if fault else None),
                  'atomicfile': cfg_tag},
                 kind='resave', tags=tags, oracle_ok=ok,
                 oracle_msg='' if ok else 'after saving over an existing %s file%s the reload gives %r; expected %s'
                            % (which, ' (flush raised part-way)' if failed else '', C, want))
        out.append((c, [], lambda o: None))

def big_resave_cases(I, r, n, out):
    """databases larger than any buffer a writer might compare or copy in (several tens of KiB), saved, then changed
    in one late record WITHOUT changing the size of the file (a new password hash, a capability / mask / policy swapped
    for one of the same length), saved again and read back: the second save must not be mistaken for 'nothing changed'"""
    ircdb = I.ircdb
    for _ in range(n):
        which = r.choice(['users', 'users', 'channels', 'ignores', 'networks'])
        fn = fresh_file(I, 'big' + which)
        if os.path.exists(fn): os.unlink(fn)
        size = r.choice([70, 120, 300])
        tail = r.randint(1, 3)              # how far from the end the changed record is
        if which == 'users':
            obj = ircdb.UsersDictionary()
            for i in range(size):
                u = ircdb.IrcUser(name='account%04d' % i); u.id = i + 1
                u.setPassword('pw%d' % i, hashed=True); u.addCapability('cap%04d' % i)
                obj.users[u.id] = u
            obj.nextId = size
            snap = lambda: sorted(canon_users(snap_users(obj)), key=lambda p: p[0])
            def modify():
                u = obj.users[size - tail + 1] if size - tail + 1 in obj.users else obj.users[size]
                if r.random() < 0.5:
                    u.setPassword('another password', hashed=True); return 'late password (same length hash)'
                c = sorted(u.capabilities)[0]; u.removeCapability(c); u.addCapability('kap' + c[3:]); return 'late capability swapped (same length)'
        elif which == 'channels':
            obj = ircdb.ChannelsDictionary()
            for i in range(size):
                c = ircdb.IrcChannel(); c.addCapability('cap%04d' % i); c.addBan('bad%04d!*@*' % i, 2000000000 + i)
                obj.channels['#chan%04d' % i] = c
            snap = lambda: sorted(canon_chans(snap_chans(obj)), key=lambda p: p[0])
            def modify():
                c = obj.channels['#chan%04d' % (size - tail)]
                if r.random() < 0.5:
                    c.removeCapability('cap%04d' % (size - tail)); c.addCapability('kap%04d' % (size - tail)); return 'late capability swapped (same length)'
                c.removeBan('bad%04d!*@*' % (size - tail)); c.addBan('bad%04d!*@*' % (size - tail), 2100000000 - tail); return 'late ban expiry (same digits)'
        elif which == 'ignores':
            obj = ircdb.IgnoresDB()
            for i in range(size * 3):
                obj.hostmasks['nick%04d!user@host.example' % i] = 0
            snap = lambda: sorted(obj.hostmasks.items())
            def modify():
                k_ = 'nick%04d!user@host.example' % (size * 3 - tail)
                items = list(obj.hostmasks.items()); obj.hostmasks.clear()
                for h, e in items:
                    obj.hostmasks['kick' + h[4:] if h == k_ else h] = e
                return 'late hostmask swapped (same length)'
        else:
            obj = ircdb.NetworksDictionary()
            for i in range(size):
                n_ = obj.getNetwork('net%04d' % i); n_.addStsPolicy('irc%04d.example' % i, 'duration=1000,port=6697')
            snap = lambda: sorted(canon_nets(drop_empty_nets(snap_nets(obj))), key=lambda p: p[0])
            def modify():
                n_ = obj.getNetwork('net%04d' % (size - tail)); n_.addStsPolicy('irc%04d.example' % (size - tail), 'duration=2000,port=6697')
                return 'late STS policy (same length)'
        obj.filename = fn
        obj.flush()
        size1 = os.path.getsize(fn)
        A = snap()
        what = modify()
        B = snap()
        exc = None
        try: obj.flush()
        except Exception as e_: exc = e_
        size2 = os.path.getsize(fn)
        ircdb.IrcUserCreator.u = None; ircdb.IrcChannelCreator.name = None; ircdb.IrcNetworkCreator.name = None
        I.rec.clear()
        obj.reload()
        ircdb.IrcUserCreator.u = None; ircdb.IrcChannelCreator.name = None; ircdb.IrcNetworkCreator.name = None
        C = snap()
        ok = (C == B) and exc is None and I.rec.exc is None
        diff = [(x, y) for x, y in zip(C, B) if x != y][:2]
        c = Case({'db': which, 'op': 'resave-big', 'records': size, 'file_bytes': [size1, size2], 'then': what},
                 kind='resave', tags=('resave-big', which, 'same-size' if size1 == size2 else 'size-changed'), oracle_ok=ok,
                 oracle_msg='' if ok else 'a %d-byte %s file saved again after: %s (file then %d bytes)%s; the reload does not give the state '
                            'that was saved: first differing records (read back, saved) %r' % (size1, which, what, size2,
                            '; flush raised %r' % (exc,) if exc else '', diff))
        out.append((c, [], lambda o: None))

# ---------------------------------------------------------------------------------------------
# finding witnesses (KNOWN_FINDINGS.json) — replayed on the real code every run
# ---------------------------------------------------------------------------------------------
def witness_users(I, spec):
    """spec: list of {'id','name','password','hashed','caps','hostmasks','nicks','gpgkeys'} built through the API"""
    ircdb = I.ircdb
    ud = ircdb.UsersDictionary()
    for s in spec:
        u = ircdb.IrcUser(hashed=s.get('hashed', False))
        u.id = s['id']; u.name = s.get('name', ''); u.password = s.get('password', '')
        for c in s.get('caps', []): u.addCapability(c)
        for h in s.get('hostmasks', []): u.hostmasks.add(h)
        for k, v in s.get('nicks', []): u.nicks[k] = list(v)
        u.gpgkeys = list(s.get('gpgkeys', []))
        ud.users[u.id] = u; ud.nextId = max(ud.nextId, u.id)
    return ud

def run_witness(I, w, out):
    """returns (still_fails, description)"""
    tmp = []
    db = w['db']
    if db == 'users':
        ud = witness_users(I, w['users'])
        if w.get('file_order'):
            # the order in which a set is written is not under the caller's control: replay the
            # listed order through the real reader
            S0 = snap_users(ud)
            fn = fresh_file(I, 'wit'); ud.filename = fn; ud.flush()
            text = read_raw(fn)
            for a, b in w['file_order']:
                if text.find(b) < text.find(a):
                    text = text.replace(b, '\0').replace(a, b).replace('\0', a)
            write_raw(fn, text)
            I.ircdb.IrcUserCreator.u = None; I.rec.clear(); ud.reload()
            S1 = snap_users(ud); I.ircdb.IrcUserCreator.u = None
            c = Case({'db': 'users', 'op': 'witness-file-order', 'state': enc_users(S0), 'text': text}, kind='witness',
                     impl='\t'.join([I.rec.exc or 'ok', '~', str(ud.nextId), enc_users(canon_users(S1))]),
                     oracle_ok=(canon_users(S0) == canon_users(S1)), tags=('witness',))
            out.append((c, ['reset', 'u_load\t' + wire.enc(text)], lambda o: canon_u_load(o[1])))
            return (not c.oracle_ok), c
        users_roundtrip_case(I, ud, {'witness'}, 'witness', tmp)
    elif db == 'channels':
        cd = I.ircdb.ChannelsDictionary()
        for step in w['steps']:
            c = cd.getChannel(step['channel'])
            for x in step.get('remove_caps', []): c.removeCapability(x)
            for x in step.get('add_caps', []): c.addCapability(x)
            for m, e in step.get('bans', []): c.bans[m] = e
            cd.setChannel(step['channel'], c)
        chans_roundtrip_case(I, cd, {'witness'}, 'witness', tmp)
    elif db == 'ignores':
        ignores_case(I, None, False, tmp, entries=[tuple(x) for x in w['entries']], now=w.get('now', 1000), kind='witness')
    out += tmp
    c = tmp[1][0]
    return (c.oracle_ok is False), c

# ---------------------------------------------------------------------------------------------
def explore(ctx, scale, seed_tag=''):
    I = impl()
    r = rng.make('c16' + seed_tag)
    out = []
    users_cases(I, r, 220 * scale, False, out)
    users_cases(I, r, 160 * scale, True, out)
    users_file_cases(I, r, 350 * scale, out)
    for hostile, n in ((False, 120), (True, 90)):
        for _ in range(n * scale):
            cd, tags = build_chans(I, r, hostile)
            chans_roundtrip_case(I, cd, tags, 'api-hostile' if hostile else 'api-clean', out)
    chans_file_cases(I, r, 200 * scale, out)
    for hostile, n in ((False, 100), (True, 60)):
        for _ in range(n * scale):
            nd, tags = build_nets(I, r, hostile)
            nets_roundtrip_case(I, nd, tags, 'api-hostile' if hostile else 'api-clean', out)
    nets_file_cases(I, r, 150 * scale, out)
    for _ in range(120 * scale): ignores_case(I, r, False, out)
    for _ in range(80 * scale): ignores_case(I, r, True, out)
    ignores_file_cases(I, r, 150 * scale, out)
    micro_cases(I, r, 400 * scale, out)
    resave_cases(I, r, 120 * scale, out)
    big_resave_cases(I, r, 4 * scale, out)
    return out

def fill_model(triples):
    lines = []
    spans = []
    for c, drv, f in triples:
        spans.append((len(lines), len(lines) + len(drv)))
        lines += drv
    outs = wire.run_driver(PROPERTY, lines, timeout=1500)
    for (c, drv, f), (a, b) in zip(triples, spans):
        if not drv:
            continue
        try:
            c.model = f(outs[a:b])
        except Exception as e:
            c.model = 'uncanonicalisable model output %r (%s)' % (outs[a:b], e)

def corpus_triples(I):
    """finding witnesses + past failures, run first"""
    out = []
    status = {}
    for f in verdict.load_findings(PROPERTY):
        try:
            still, c = run_witness(I, f['witness'], out)
            c.finding = f['id']
            status[f['id']] = (still, f.get('what_fails', ''))
        except Exception as e:
            status[f['id']] = (False, 'witness could not be replayed: %r' % (e,))
    p = os.path.join(CORPUS, PROPERTY, 'cases.json')
    if os.path.exists(p):
        for w in json.load(open(p)):
            try:
                run_witness(I, w, out)
            except Exception:
                pass
    return out, status

def run(ctx):
    build = leanbuild.ensure(PROPERTY, THEOREMS, thorough=ctx.thorough, extractors=['Preserve', 'IrcDbCaps'])
    I = impl()
    scale = 100 if ctx.thorough else 6
    triples, status = corpus_triples(I)
    triples += explore(ctx, scale)
    if build.driver_ok:
        fill_model(triples)
    cases = [t[0] for t in triples]
    listed = {f['id'] for f in verdict.load_findings(PROPERTY)}
    # a case in several classes: prefer a listed one (the first class decides otherwise)
    for c in cases:
        cl = c.input.get('classes') if isinstance(c.input, dict) else None
        if cl and c.finding not in listed:
            for x in cl:
                if x in listed:
                    c.finding = x; break
    def search(disagreements, broken):
        more = explore(ctx, 2, seed_tag='/search')
        return [t[0] for t in more if t[0].oracle_ok is False]
    return verdict.conclude(PROPERTY, ctx.tier, ctx.seed, build, cases, search=search, finding_status=status, rule=RULE,
                            trusted_base=TRUSTED,
                            assumptions=['Python asserts enabled', 'strings are valid Unicode scalar sequences',
                                         'an IrcNetwork record without policies and disconnect times is not distinguished from an absent one',
                                         'expired ignores are not expected back (IgnoresDB.flush drops them)'],
                            t0=ctx.t0)

def replay(ctx, path):
    d = json.load(open(path))        # before the process moves to its scratch directory
    I = impl()
    c = d.get('case') or d.get('first_disagreement')
    print(json.dumps(c, indent=1)[:4000])
    if not c:
        return 0
    inp = c['input']
    db = inp.get('db')
    texts = inp.get('texts') or ([inp['text']] if 'text' in inp else [])
    cls = {'users': I.ircdb.UsersDictionary, 'channels': I.ircdb.ChannelsDictionary, 'networks': I.ircdb.NetworksDictionary,
           'ignores': I.ircdb.IgnoresDB}.get(db)
    if cls and texts:
        I.ircdb.IrcUserCreator.u = None; I.ircdb.IrcChannelCreator.name = None
        for t in texts:
            o = cls(); fn = fresh_file(I, 'replay'); write_raw(fn, t); o.filename = fn
            I.rec.clear(); o.reload()
            snap = {'users': lambda: snap_users(o), 'channels': lambda: snap_chans(o), 'networks': lambda: snap_nets(o),
                    'ignores': lambda: list(o.hostmasks.items())}[db]()
            print('implementation now: load ended with', I.rec.exc or 'ok', '->', snap)
    return 0
